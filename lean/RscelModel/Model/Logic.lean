import RscelModel.Model.Order
/-
Truthiness and the logical operators (`is_truthy`, `or`, `and`, `Not`; feature `type_prop` on,
as in the default build).
-/
namespace Rscel

/-- `is_truthy`. -/
def truthy : Val → Bool
  | .int i => i != 0
  | .uint n => n != 0
  | .float b => !F.isZero b
  | .bool b => b
  | .str s => !s.isEmpty
  | .bytes b => !b.isEmpty
  | .list l => !l.isEmpty
  | .map m => !m.isEmpty
  | .null => false
  | .type _ => true
  | .ts _ => true
  | .dur _ => true
  | .ident _ => false
  | .code _ => false
  | .err _ => false

/-- `CelValue::or`. -/
def vOr (l r : Val) : Val :=
  match l, r with
  | .err k, r => if truthy r then .bool true else .err k
  | l, .err k => if truthy l then .bool true else .err k
  | l, r => .bool (truthy l || truthy r)

/-- `CelValue::and`. -/
def vAnd (l r : Val) : Val := errProp l r fun l r => .bool (truthy l && truthy r)

/-- `!v`. -/
def vNot : Val → Val
  | .err k => .err k
  | v => .bool (!truthy v)

/-- The `TEST` instruction's value map: keeps errors, otherwise truthiness. -/
def vTest : Val → Val
  | .err k => .err k
  | v => .bool (truthy v)

end Rscel
