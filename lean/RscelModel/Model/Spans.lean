import RscelModel.Model.Ast
/-
Span geometry of a syntax tree (property C18).

`SpanTree` is the tree of source spans of the *expression* nodes of an AST: one node per `AstNode<…>` of
`grammar.rs`, except (i) the single-child `Unary(..)`/`Member(..)` wrapper layers between precedence levels
(same span as their only child) and (ii) the spans the project does not consume: `MatchCase`,
`MatchPattern` and the nodes inside a pattern other than its comparison expression (the expression of a
`Cmp` pattern and the arm of every case hang directly under the `Match` node).  Children are listed in
source order.  `Ast.toTree` produces it from the model AST, the harness produces the same thing from the
JSON dump of the real `Program::ast()`.

`SpanTree.check src` is the executable checker of the C18 geometry: every span is a well-formed range of
positions of `src`, every child's span lies inside its parent's, siblings are in order and do not
overlap.  `Theorems/C18.lean` proves what a successful check implies.
-/
namespace Rscel

/-- `validAt src line col`: the text has a line number `line` (lines are separated by `'\n'`, numbered
    from 0) and `col` is at most the number of characters of that line — i.e. the position lies within
    the source or immediately at the end of one of its lines. -/
def validAt (src : List Char) (line col : Nat) : Bool :=
  match line with
  | 0 => col ≤ (src.takeWhile (· ≠ '\n')).length
  | n + 1 =>
    match src.dropWhile (· ≠ '\n') with
    | [] => false
    | _ :: rest => validAt rest n col

def Loc.validIn (src : List Char) (l : Loc) : Bool := validAt src l.line l.col

inductive SpanTree
  | node (sp : Span) (kids : List SpanTree)
  deriving Repr

def SpanTree.span : SpanTree → Span
  | .node sp _ => sp

def SpanTree.kids : SpanTree → List SpanTree
  | .node _ ks => ks

/-- `a` lies inside `b`. -/
def Span.within (a b : Span) : Bool := b.s.le a.s && a.e.le b.e
/-- `a` ends no later than `b` starts. -/
def Span.before (a b : Span) : Bool := a.e.le b.s
/-- start ≤ end. -/
def Span.wf (a : Span) : Bool := a.s.le a.e

/-- Every element is `before` every later one. -/
def pairwiseBefore : List SpanTree → Bool
  | [] => true
  | k :: rest => rest.all (fun r => k.span.before r.span) && pairwiseBefore rest

mutual
/-- The C18 geometry of one tree, against the source text. -/
def SpanTree.check (src : List Char) : SpanTree → Bool
  | .node sp kids =>
    sp.wf && sp.s.validIn src && sp.e.validIn src
      && kids.all (fun k => k.span.within sp) && pairwiseBefore kids && SpanTree.checkAll src kids
def SpanTree.checkAll (src : List Char) : List SpanTree → Bool
  | [] => true
  | k :: rest => k.check src && SpanTree.checkAll src rest
end

def isWsChar (c : Char) : Bool := c == ' ' || c == '\t' || c == '\n'

/-- The span of `src` without leading and trailing white space (location counting as the scanner does). -/
def trimmedSpan (src : List Char) : Span :=
  let lead := src.takeWhile isWsChar
  let body := ((src.dropWhile isWsChar).reverse.dropWhile isWsChar).reverse
  let start : Loc := lead.foldl Loc.adv ⟨0, 0⟩
  ⟨start, body.foldl Loc.adv start⟩

/-- Full check of a whole-program tree: geometry plus "the root spans the whole expression without
    surrounding white space". -/
def SpanTree.checkRoot (src : List Char) (t : SpanTree) : Bool :=
  t.check src && t.span == trimmedSpan src

/-! ### the span tree of a model AST -/

/-- The `NotList`/`NegList` chain for the operator spans `ops`: node `i` runs from operator `i` to the end
    of the run, the innermost (`EmptyList`) node is the empty range at the end of the run. -/
def opRunTree (ops : List Span) : SpanTree :=
  let lastEnd := (ops.getLast?.getD default).e
  ops.foldr (fun sp acc => .node ⟨sp.s, lastEnd⟩ [acc]) (.node ⟨lastEnd, lastEnd⟩ [])

mutual
def Ast.toTree : Ast → SpanTree
  | .tern sp c t f => .node sp [c.toTree, t.toTree, f.toTree]
  | .match_ sp s cases => .node sp (s.toTree :: casesTrees cases)
  | .bin sp _ l r => .node sp [l.toTree, r.toTree]
  | .notRun sp ops m => .node sp [opRunTree ops, m.toTree]
  | .negRun sp ops m => .node sp [opRunTree ops, m.toTree]
  | .member sp p chain => .node sp (p.toTree :: opsTrees chain)
def Prim.toTree : Prim → SpanTree
  | .ident sp _ => .node sp []
  | .parens sp e => .node sp [e.toTree]
  | .list sp es => .node sp [.node sp (listTrees es)]
  | .map sp inits => .node sp [.node sp (initsTrees inits)]
  | .null sp => .node sp []
  | .int sp _ => .node sp []
  | .uint sp _ => .node sp []
  | .float sp _ => .node sp []
  | .str sp _ => .node sp []
  | .bytes sp _ => .node sp []
  | .bool sp _ => .node sp []
  | .fstr sp _ => .node sp []
def opsTrees : List MOp → List SpanTree
  | [] => []
  | .access sp isp _ :: rest => .node sp [.node isp []] :: opsTrees rest
  | .call sp args :: rest => .node sp [.node sp (listTreesRev args [])] :: opsTrees rest
  | .index sp e :: rest => .node sp [e.toTree] :: opsTrees rest
def listTrees : List Ast → List SpanTree
  | [] => []
  | e :: es => e.toTree :: listTrees es
/-- Call arguments are stored last to first; list them in source order. -/
def listTreesRev : List Ast → List SpanTree → List SpanTree
  | [], acc => acc
  | e :: es, acc => listTreesRev es (e.toTree :: acc)
def initsTrees : List MInit → List SpanTree
  | [] => []
  | .mk sp k v :: rest => .node sp [k.toTree, v.toTree] :: initsTrees rest
/-- Cases of a match: the pattern's comparison expression (if any) and the arm, without the case and
    pattern nodes themselves. -/
def casesTrees : List MCase → List SpanTree
  | [] => []
  | .mk _ (.cmp _ _ _ e) b :: rest => e.toTree :: b.toTree :: casesTrees rest
  | .mk _ (.type ..) b :: rest => b.toTree :: casesTrees rest
  | .mk _ (.any _) b :: rest => b.toTree :: casesTrees rest
end

end Rscel
