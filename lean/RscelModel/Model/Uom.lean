import RscelModel.Model.Builtins
/-
`uomConvert(value, from, to)` (`context/default_funcs/uom.rs`) over exact rationals.

Every unit is an affine map to the SI base quantity of its category: `base = (x + shift) * scale`
(`shift = 0` except for the temperature scales, as in the `uom` crate: °C = (1, 273.15),
°F = (5/9, 459.67)).  Factors are the exact definitions: international pound 0.45359237 kg, inch 0.0254 m,
US gallon 231 in³, US bushel 2150.42 in³, standard gravity 9.80665 m/s² (slug), nautical mile 1852 m.
The implementation computes in `f64`; the correspondence is "within relative 1e-9".
-/
namespace Rscel.Uom

inductive Cat | mass | volume | speed | temperature
  deriving DecidableEq, Repr

inductive U
  -- mass
  | kilogram | gram | milligram | pound | ounce | stone | ton | slug
  -- volume
  | liter | milliliter | gallon | quartLiquid | quartDry | pintLiquid | pintDry | cup | fluidOunce
  | tablespoon | teaspoon | cubicMeter | cubicFoot | cubicYard
  -- speed
  | meterPerSecond | kilometerPerHour | milePerHour | footPerSecond | knot
  -- temperature
  | kelvin | celsius | fahrenheit
  deriving DecidableEq, Repr

def U.all : List U :=
  [.kilogram, .gram, .milligram, .pound, .ounce, .stone, .ton, .slug,
   .liter, .milliliter, .gallon, .quartLiquid, .quartDry, .pintLiquid, .pintDry, .cup, .fluidOunce,
   .tablespoon, .teaspoon, .cubicMeter, .cubicFoot, .cubicYard,
   .meterPerSecond, .kilometerPerHour, .milePerHour, .footPerSecond, .knot,
   .kelvin, .celsius, .fahrenheit]

def U.cat : U → Cat
  | .kilogram | .gram | .milligram | .pound | .ounce | .stone | .ton | .slug => .mass
  | .liter | .milliliter | .gallon | .quartLiquid | .quartDry | .pintLiquid | .pintDry | .cup
  | .fluidOunce | .tablespoon | .teaspoon | .cubicMeter | .cubicFoot | .cubicYard => .volume
  | .meterPerSecond | .kilometerPerHour | .milePerHour | .footPerSecond | .knot => .speed
  | .kelvin | .celsius | .fahrenheit => .temperature

def poundKg : Rat := 45359237 / 100000000
/-- cubic inch in cubic metres: 0.0254³ -/
def cubicInch : Rat := 16387064 / 1000000000000
def gallonM3 : Rat := 231 * cubicInch
/-- US bushel = 2150.42 in³ -/
def bushelM3 : Rat := 215042 / 100 * cubicInch

/-- SI base units per unit. -/
def U.scale : U → Rat
  | .kilogram => 1 | .gram => 1 / 1000 | .milligram => 1 / 1000000
  | .pound => poundKg | .ounce => poundKg / 16 | .stone => poundKg * 14 | .ton => 1000
  | .slug => poundKg * (980665 / 100000) / (3048 / 10000)
  | .liter => 1 / 1000 | .milliliter => 1 / 1000000
  | .gallon => gallonM3 | .quartLiquid => gallonM3 / 4 | .pintLiquid => gallonM3 / 8
  | .cup => gallonM3 / 16 | .fluidOunce => gallonM3 / 128 | .tablespoon => gallonM3 / 256
  | .teaspoon => gallonM3 / 768
  | .quartDry => bushelM3 / 32 | .pintDry => bushelM3 / 64
  | .cubicMeter => 1 | .cubicFoot => 1728 * cubicInch | .cubicYard => 46656 * cubicInch
  | .meterPerSecond => 1 | .kilometerPerHour => 1000 / 3600 | .milePerHour => 44704 / 100000
  | .footPerSecond => 3048 / 10000 | .knot => 1852 / 3600
  | .kelvin => 1 | .celsius => 1 | .fahrenheit => 5 / 9

/-- Added before scaling (temperature scales only). -/
def U.shift : U → Rat
  | .celsius => 27315 / 100
  | .fahrenheit => 45967 / 100
  | _ => 0

def U.toBase (u : U) (x : Rat) : Rat := (x + u.shift) * u.scale
def U.ofBase (u : U) (b : Rat) : Rat := b / u.scale - u.shift

/-- Exact conversion between two units (meaningful when the categories agree). -/
def conv (x : Rat) (a b : U) : Rat := b.ofBase (a.toBase x)

/-! ### unit names: `Unit::from_str` = `trim().to_lowercase().trim_matches('°')` + the alias table -/

/-- Rust `char::is_whitespace` (Unicode `White_Space`). -/
def isWs (c : Char) : Bool :=
  let n := c.toNat
  (9 ≤ n && n ≤ 13) || n == 0x20 || n == 0x85 || n == 0xA0 || n == 0x1680 || (0x2000 ≤ n && n ≤ 0x200A)
  || n == 0x2028 || n == 0x2029 || n == 0x202F || n == 0x205F || n == 0x3000

/-- `to_lowercase` on the characters that can matter: ASCII letters, and U+212A KELVIN SIGN whose
    lowercase is `k`.  No other non-ASCII character lowercases to a string of ASCII characters, and the
    aliases are ASCII, so every other character can stay as it is. -/
def lowerChar (c : Char) : Char :=
  if 'A' ≤ c ∧ c ≤ 'Z' then Char.ofNat (c.toNat + 32)
  else if c.toNat == 0x212A then 'k' else c

def dropWhileEnd (p : Char → Bool) (s : Str) : Str := (s.reverse.dropWhile p).reverse

def normalize (s : Str) : Str :=
  let t := dropWhileEnd isWs (s.dropWhile isWs)
  let l := t.map lowerChar
  dropWhileEnd (· == '°') (l.dropWhile (· == '°'))

def aliases : List (String × U) :=
  [ ("kg", .kilogram), ("kilogram", .kilogram), ("kilograms", .kilogram),
    ("g", .gram), ("gram", .gram), ("grams", .gram),
    ("mg", .milligram), ("milligram", .milligram), ("milligrams", .milligram),
    ("lb", .pound), ("lbs", .pound), ("pound", .pound), ("pounds", .pound),
    ("oz", .ounce), ("ounce", .ounce), ("ounces", .ounce),
    ("stone", .stone), ("st", .stone), ("stones", .stone),
    ("slug", .slug), ("slugs", .slug),
    ("ton", .ton), ("tonne", .ton), ("metric_ton", .ton), ("metric ton", .ton),
    ("l", .liter), ("liter", .liter), ("liters", .liter), ("litre", .liter), ("litres", .liter),
    ("ml", .milliliter), ("milliliter", .milliliter), ("milliliters", .milliliter),
    ("millilitre", .milliliter), ("millilitres", .milliliter),
    ("gal", .gallon), ("gallon", .gallon), ("gallons", .gallon),
    ("quart", .quartLiquid), ("quarts", .quartLiquid), ("qt", .quartLiquid), ("qts", .quartLiquid),
    ("liquid quart", .quartLiquid), ("liquid_quart", .quartLiquid),
    ("dry quart", .quartDry), ("dry_quart", .quartDry),
    ("pint", .pintLiquid), ("pints", .pintLiquid), ("pt", .pintLiquid), ("pts", .pintLiquid),
    ("liquid pint", .pintLiquid), ("liquid_pint", .pintLiquid),
    ("dry pint", .pintDry), ("dry_pint", .pintDry),
    ("cup", .cup), ("cups", .cup),
    ("fl oz", .fluidOunce), ("floz", .fluidOunce), ("fluid ounce", .fluidOunce),
    ("fluid_ounce", .fluidOunce), ("fluid-ounce", .fluidOunce),
    ("tbsp", .tablespoon), ("tablespoon", .tablespoon), ("tablespoons", .tablespoon),
    ("tsp", .teaspoon), ("teaspoon", .teaspoon), ("teaspoons", .teaspoon),
    ("cubic meter", .cubicMeter), ("cubic_meter", .cubicMeter), ("m3", .cubicMeter),
    ("cubic foot", .cubicFoot), ("cubic_foot", .cubicFoot), ("ft3", .cubicFoot), ("cu ft", .cubicFoot),
    ("cubic yard", .cubicYard), ("cubic_yard", .cubicYard), ("yd3", .cubicYard), ("cu yd", .cubicYard),
    ("m/s", .meterPerSecond), ("meter per second", .meterPerSecond),
    ("meters per second", .meterPerSecond), ("meter_per_second", .meterPerSecond),
    ("km/h", .kilometerPerHour), ("kph", .kilometerPerHour), ("kilometer per hour", .kilometerPerHour),
    ("kilometers per hour", .kilometerPerHour), ("kilometer_per_hour", .kilometerPerHour),
    ("mph", .milePerHour), ("mile per hour", .milePerHour), ("miles per hour", .milePerHour),
    ("mile_per_hour", .milePerHour),
    ("kn", .knot), ("knot", .knot), ("knots", .knot),
    ("ft/s", .footPerSecond), ("fps", .footPerSecond), ("foot per second", .footPerSecond),
    ("feet per second", .footPerSecond), ("foot_per_second", .footPerSecond),
    ("k", .kelvin), ("kelvin", .kelvin),
    ("c", .celsius), ("celsius", .celsius),
    ("f", .fahrenheit), ("fahrenheit", .fahrenheit) ]

/-- `Unit::from_str`. -/
def unitOfName (s : Str) : Option U :=
  let n := String.ofList (normalize s)
  (aliases.find? (·.1 == n)).map (·.2)

/-- `uom_convert_internal`: unknown `from`, unknown `to`, different categories are Argument errors. -/
def convertNamed (x : Rat) (frm to : Str) : Except ErrKind Rat :=
  match unitOfName frm with
  | none => .error .argument
  | some a =>
    match unitOfName to with
    | none => .error .argument
    | some b => if a.cat = b.cat then .ok (conv x a b) else .error .argument

/-! ### the numeric argument: `u64`/`i64` go through `as f64`; a finite double is an exact rational -/

/-- Exact value of a finite IEEE-754 double given by its bits; `none` for NaN / infinities. -/
def ratOfBits (b : UInt64) : Option Rat :=
  let n : Nat := b.toNat
  let neg : Bool := n / 2 ^ 63 == 1
  let e : Nat := n / 2 ^ 52 % 2048
  let m : Nat := n % 2 ^ 52
  if e == 2047 then none
  else
    let num : Nat := if e == 0 then m else if e ≥ 1075 then (2 ^ 52 + m) * 2 ^ (e - 1075) else 2 ^ 52 + m
    let den : Nat := if e == 0 then 2 ^ 1074 else if e ≥ 1075 then 1 else 2 ^ (1075 - e)
    let mag : Rat := (num : Rat) / (den : Rat)
    some (if neg then -mag else mag)

inductive Out
  | ok (q : Rat)
  | nonFinite           -- the double argument is NaN / ±inf: the result is whatever f64 arithmetic gives
  | err (k : ErrKind)

/-- `uomConvert(v, from, to)` after dispatch: `v` must be int, uint or double and the names strings. -/
def uomConvert (v : Val) (frm to : Val) : Out :=
  match frm, to with
  | .str f, .str t =>
    let x : Option (Option Rat) :=
      match v with
      | .int i => some (ratOfBits (F.ofInt i))
      | .uint n => some (ratOfBits (F.ofNat n))
      | .float b => some (ratOfBits b)
      | _ => none
    (match x with
     | none => .err .argument
     | some none =>
       (match convertNamed 0 f t with
        | .error k => .err k
        | .ok _ => .nonFinite)
     | some (some q) =>
       (match convertNamed q f t with
        | .error k => .err k
        | .ok r => .ok r))
  | _, _ => .err .argument

end Rscel.Uom
