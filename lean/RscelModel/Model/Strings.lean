import RscelModel.Model.Builtins
/-
The string built-ins of `context/default_funcs/string.rs` and `string/*.rs` on `List Char`
(a Rust `String` is valid UTF-8, so searching for a `&str` pattern on bytes and on scalar values is the
same thing; byte offsets only appear in `splitAt` and `size`).

What Rust's `std` contributes is written out here as structurally recursive functions:
`str::contains/starts_with/ends_with`, `split/rsplit` (leftmost resp. rightmost non-overlapping
matches; the empty pattern matches at every character boundary), `replace`, `String::remove_matches`,
`trim/trim_start/trim_end` (`char::is_whitespace` = the 25 `White_Space` code points),
`trim_start_matches/trim_end_matches`, `split_at_checked`, `split_whitespace`.
Parameters (`StrExt`): the Unicode case mappings `to_lowercase/to_uppercase` and the regex engine.
-/
namespace Rscel

/-- `char::is_whitespace`: the code points with the Unicode property `White_Space`. -/
def isWs (c : Char) : Bool :=
  let n := c.toNat
  (9 ≤ n && n ≤ 13) || n == 0x20 || n == 0x85 || n == 0xA0 || n == 0x1680 || (0x2000 ≤ n && n ≤ 0x200A)
    || n == 0x2028 || n == 0x2029 || n == 0x202F || n == 0x205F || n == 0x3000

/-- `pieces.join(d)`. -/
def joinStr (d : Str) : List Str → Str
  | [] => []
  | [x] => x
  | x :: y :: r => x ++ d ++ joinStr d (y :: r)

/-- `haystack.contains(needle)`: some suffix of the haystack starts with the needle. -/
def containsStr : Str → Str → Bool
  | [], n => n.isEmpty
  | c :: cs, n => n.isPrefixOf (c :: cs) || containsStr cs n

def startsWithStr (s n : Str) : Bool := n.isPrefixOf s
def endsWithStr (s n : Str) : Bool := n.isSuffixOf s

/-- Put a character in front of the first piece. -/
def consHead (c : Char) : List Str → List Str
  | [] => [[c]]
  | p :: ps => (c :: p) :: ps

/-- Left-to-right scan for a non-empty delimiter `d`.  `skip` counts the characters of a delimiter
    occurrence that are still to be stepped over. -/
def splitGo (d : Str) : Nat → Str → List Str
  | _, [] => [[]]
  | k + 1, _ :: cs => splitGo d k cs
  | 0, c :: cs =>
    if d.isPrefixOf (c :: cs) then [] :: splitGo d (d.length - 1) cs
    else consHead c (splitGo d 0 cs)

/-- `s.split(d)`; the empty delimiter matches at every character boundary (both ends included). -/
def splitStr (s d : Str) : List Str :=
  if d.isEmpty then [] :: (s.map fun c => [c]) ++ [[]] else splitGo d 0 s

/-- `s.rsplit(d)`: the mirror image (scan from the right, pieces right to left). -/
def rsplitStr (s d : Str) : List Str := (splitStr s.reverse d.reverse).map List.reverse

/-- `s.replace(a, b)` for non-empty `a`: leftmost non-overlapping occurrences. -/
def replaceGo (d b : Str) : Nat → Str → Str
  | _, [] => []
  | k + 1, _ :: cs => replaceGo d b k cs
  | 0, c :: cs =>
    if d.isPrefixOf (c :: cs) then b ++ replaceGo d b (d.length - 1) cs
    else c :: replaceGo d b 0 cs

def replaceStr (s a b : Str) : Str :=
  if a.isEmpty then b ++ s.flatMap (fun c => c :: b) else replaceGo a b 0 s

/-- `String::remove_matches`: what is left between the matches. -/
def removeStr (s p : Str) : Str := replaceStr s p []

def trimStartStr (s : Str) : Str := s.dropWhile isWs
def trimEndStr (s : Str) : Str := (s.reverse.dropWhile isWs).reverse
def trimStr (s : Str) : Str := trimEndStr (trimStartStr s)

/-- Strip the prefix `p` as long as it is one (`fuel` ≥ the length of the string suffices). -/
def stripPrefixes (p : Str) : Nat → Str → Str
  | 0, s => s
  | f + 1, s => if p.isPrefixOf s then stripPrefixes p f (s.drop p.length) else s

/-- `s.trim_start_matches(p)`; the empty pattern removes nothing. -/
def trimStartMatchesStr (s p : Str) : Str := if p.isEmpty then s else stripPrefixes p s.length s
def trimEndMatchesStr (s p : Str) : Str := (trimStartMatchesStr s.reverse p.reverse).reverse

/-- `s.split_at_checked(n)`: `n` is a byte offset, it must be at most the length and on a character boundary. -/
def splitAtBytes : Nat → Str → Option (Str × Str)
  | 0, s => some ([], s)
  | _ + 1, [] => none
  | n + 1, c :: cs =>
    if utf8Width c ≤ n + 1 then (splitAtBytes (n + 1 - utf8Width c) cs).map (fun p => (c :: p.1, p.2)) else none

/-- `s.split_whitespace()`: maximal runs of non-whitespace characters. `acc` is the current run, reversed. -/
def wordsGo : Str → Str → List Str
  | [], acc => if acc.isEmpty then [] else [acc.reverse]
  | c :: cs, acc =>
    if isWs c then (if acc.isEmpty then wordsGo cs [] else acc.reverse :: wordsGo cs [])
    else wordsGo cs (c :: acc)

def splitWsStr (s : Str) : List Str := wordsGo s []

/-- What the string built-ins take from libraries: Unicode case mapping and the regex engine
    (`none` = the pattern does not compile). -/
structure StrExt where
  lower : Str → Str
  upper : Str → Str
  reMatch : Str → Str → Option Bool
  reCaptures : Str → Str → Option (Option (List (Option Str)))
  reReplace : Bool → Str → Str → Str → Option Str

/-- `fn f(this: String, a: String)`. -/
def ovSS (f : Str → Str → Val) : List Overload :=
  [ ⟨some .str, [.str], fun t a => match t, a with | .str s, [.str n] => f s n | _, _ => .err .internal⟩ ]

/-- `fn f(this: String, a: String, b: String)`. -/
def ovSSS (f : Str → Str → Str → Val) : List Overload :=
  [ ⟨some .str, [.str, .str], fun t a => match t, a with
      | .str s, [.str n, .str r] => f s n r | _, _ => .err .internal⟩ ]

def strList (l : List Str) : Val := .list (l.map .str)

def capturesVal : Option (Option (List (Option Str))) → Val
  | none => .err .value
  | some none => .null
  | some (some gs) => .list (gs.map fun g => match g with | some s => .str s | none => .null)

def stringFuncs (E : StrExt) : List (String × List Overload) :=
  [ ("contains", ovSS fun s n => .bool (containsStr s n)),
    ("containsI", ovSS fun s n => .bool (containsStr (E.lower s) (E.lower n))),
    ("startsWith", ovSS fun s n => .bool (startsWithStr s n)),
    ("endsWith", ovSS fun s n => .bool (endsWithStr s n)),
    ("startsWithI", ovSS fun s n => .bool (startsWithStr (E.lower s) (E.lower n))),
    ("endsWithI", ovSS fun s n => .bool (endsWithStr (E.lower s) (E.lower n))),
    ("matches", ovSS fun s n => match E.reMatch s n with | some b => .bool b | none => .err .value),
    ("matchCaptures", ovSS fun s n => capturesVal (E.reCaptures s n)),
    ("matchReplaceOnce", ovSSS fun s n r => match E.reReplace false s n r with | some x => .str x | none => .err .value),
    ("matchReplace", ovSSS fun s n r => match E.reReplace true s n r with | some x => .str x | none => .err .value),
    ("remove", ovSS fun s p => .str (removeStr s p)),
    ("replace", ovSSS fun s a b => .str (replaceStr s a b)),
    ("rsplit", ovSS fun s d => strList (rsplitStr s d)),
    ("split", ovSS fun s d => strList (splitStr s d)),
    ("splitAt",
      [ ⟨some .str, [.int], fun t a => match t, a with
          | .str s, [.int i] =>
            if i < 0 then .err .value
            else (match splitAtBytes i.toNat s with
              | some (l, r) => .list [.str l, .str r]
              | none => .err .value)
          | _, _ => .err .internal⟩ ]),
    ("trimStartMatches", ovSS fun s p => .str (trimStartMatchesStr s p)),
    ("trimEndMatches", ovSS fun s p => .str (trimEndMatchesStr s p)),
    ("splitWhiteSpace",
      [ ⟨some .str, [], fun t _ => match t with | .str s => strList (splitWsStr s) | _ => .err .internal⟩ ]) ]

/-- The `string_func!` wrappers: any argument is an Argument error, a receiver that is not a string a Value error. -/
def stringMethod (f : Str → Str) (this : Val) (args : List Val) : Val :=
  if !args.isEmpty then .err .argument
  else match this with
    | .str s => .str (f s)
    | _ => .err .value

def plainStringFuncs (E : StrExt) : List (String × (Val → List Val → Val)) :=
  [ ("toLower", stringMethod E.lower), ("toUpper", stringMethod E.upper),
    ("trim", stringMethod trimStr), ("trimStart", stringMethod trimStartStr), ("trimEnd", stringMethod trimEndStr) ]

end Rscel
