import RscelModel.Model.Compile
/-
The declarative (big-step) semantics of the expression language: `evalSpec B e env` is the value the
property text assigns to `e` in the environment `env` (`B`: the built-in functions and type
constructors) — no instruction sequences, no stack, no jumps, no depth budget.
Failures are values (`.err k`), as in the VM.

  a || b      if `a` is truthy: true, and `b` plays no role; otherwise `a` and `b` combined by `vOr`
              (a truthy `b` wins over a failing `a`, else the leftmost failure, else false)
  a && b      if `a` fails: that failure; if `a` is falsy: false — in both cases `b` plays no role;
              otherwise `vAnd a b` (the failure of `b`, else the truthiness of `b`)
  c ? x : y   if `c` fails: that failure, neither branch plays a role; otherwise exactly one branch,
              chosen by the truthiness of `c`
  a op b      every other binary operator: both operands, then `BinOp.apply op`
  !…!m, -…-m  the operator applied as many times as written (see `negCount` for `-9223372036854775808`)
  literals    themselves;  `(e)`: `e`;  `[e₁, …, eₙ]`: the list of the element values
  {k₁: v₁, …} the map of the entries in source order (`Map.ofList`: the last entry of a repeated key wins);
              a Value failure when some key is not a string (a failing key included); a failing *value*
              is stored as it is
  f'..{e}..'  every segment through `string(·)` (a literal segment too), then `concatStrs`: the first
              segment (in source order) that fails, fails the string
  identifiers what `InterpStack::pop` makes of a name when no stored program has it: a type name, then a
              bound parameter, else a Binding failure (`resolveIdent`)

  o.name      (not followed by a call) `fieldOf`: the entry of a map, an Attribute failure when it has
              none or `o` is not a map; a failing `o` stays the failure it is
  o[i]        `index o i`
  f(a₁,…,aₙ)  `f` names, in this order, a built-in function, a macro, a type (constructor call), else a
              Runtime failure (`fnKind`).  Function / constructor: the arguments left to right; the first
              failing argument is the result of the call (`applyArgs`), otherwise the function applied
              to the argument values (receiver `null`).  Macros: see below.
  o.f(a₁,…)   when `o` is a map with an entry `f`, the entry is called (a type value constructs, anything
              else is a Runtime failure); otherwise `f` names a built-in function (receiver `o`, failing
              or not), a macro, else a Runtime failure (`methodKind`)
  has(a)      `true` when `a` has a value, `false` when it fails with a Binding/Attribute failure, every
              other failure is the result; one argument exactly (else an Argument failure)
  coalesce(a₁,…)  the first argument that is neither `null` nor a Binding/Attribute failure (a different
              failure included); `null` when there is none — later arguments play no role (`coalesceVal`)
  l.all(x,p)  … `exists`, `exists_one`, `filter`, `map` (two forms), `reduce`: the defining folds with
              their early exits (`allVal`, `existsVal`, `oneVal`, `filterVal`, `mapVal`, `map3Val`,
              `reduceVal`), the body evaluated with the loop variable bound in front of the
              environment; a failing body fails the macro at that element.  `filter`/`map` also range
              over the keys of a map.  The loop-variable arguments must be identifiers.

  match s { case p₁: e₁ … }   the patterns are tried in order against the value of `s`; the arm of the
              first case whose pattern yields `true` is the result (no other arm plays a role); `null` when
              none does.  `_` always matches; a comparison pattern `op e` yields `s op e` (a failing
              comparison does not match); a type pattern `T` yields `type(s) == T`.

NOT defined (the placeholder `notCovered` is returned; `Frag2` excludes these trees): a call whose callee
is not a name (`(e)(..)`, `e[i](..)`, `f(..)(..)`), a macro whose loop-variable argument is not an
identifier.  Not modelled at all: functions bound by the caller (hence no call log), identifiers naming
stored programs.  `Frag2` further excludes trees `evalSpec` does define but the compiled code does not
follow: an uncalled member access `o.f` where `f` names a function or macro (the VM leaves a bound
method, no value), and — see `methodOK` and `loopVarOK` below — `has`/`coalesce` in method position and
loop variables named like a built-in function or macro (the two places where the compile-time run of
`check_for_const` meets a name it cannot resolve; since fix 4d08d12 it does not fold then, and the model
follows, but the invariant of the proof does not see that flag); type patterns must name a type of the
type table.
`Frag` is the smaller fragment of `Theorems/C05Compile.lean`; `Frag2` the one of `Theorems/C05Compile2.lean`.
-/
namespace Rscel

/-- What popping an identifier yields when it does not name a stored program. -/
def resolveIdent (env : Env) (name : Str) : Val :=
  match env.getType name with
  | some t => t
  | none =>
    match env.getParam name with
    | some v => v
    | none => .err .binding

/-- `f` applied `n` times. -/
def applyN (f : Val → Val) : Nat → Val → Val
  | 0, v => v
  | n + 1, v => f (applyN f n v)

/-- Number of negations a `-`-run applies: the parser reads `-9223372036854775808` as the literal
    `i64::MIN`, which uses up one of the written minus signs. -/
def negCount (ops : List Span) : Ast → Nat
  | .member _ (.int _ i) _ => if i = i64Min then ops.length - 1 else ops.length
  | _ => ops.length

/-- Placeholder for the trees `evalSpec` does not define (see the header). -/
def notCovered : Val := .err .internal

/-- The comparison a `match` pattern `op e` applies to the scrutinee. -/
def CmpOp.apply : CmpOp → Val → Val → Val
  | .eq => valEq | .neq => valNe
  | .gt => rel .gt | .ge => rel .ge | .lt => rel .lt | .le => rel .le

/-! ### value-level meaning of the postfix operations, calls and macros -/

/-- The entry `name` of a map value. -/
def fieldEntry (o : Val) (name : Str) : Option Val :=
  match o with
  | .map m => Map.get m name
  | _ => none

/-- `o.name` (not a method call): the entry; an Attribute failure without one; a failing `o` stays what it is. -/
def fieldOf (o : Val) (name : Str) : Val :=
  match o with
  | .err k => .err k
  | _ => match fieldEntry o name with
    | some v => v
    | none => .err .attribute

/-- The entries of a map literal when every key is a string. -/
def strKeys : List (Val × Val) → Option (List (Str × Val))
  | [] => some []
  | (.str k, v) :: rest => (strKeys rest).map ((k, v) :: ·)
  | _ :: _ => none

/-- `{k₁: v₁, …}` from the (key, value) pairs in source order. -/
def mkMap (kvs : List (Val × Val)) : Val :=
  match strKeys kvs with
  | some es => .map (Map.ofList es)
  | none => .err .value

/-- The first failing value of a list. -/
def firstErr : List Val → Option ErrKind
  | [] => none
  | .err k :: _ => some k
  | _ :: vs => firstErr vs

/-- A function applied to evaluated arguments: the first failing argument is the result. -/
def applyArgs (f : List Val → Val) (vs : List Val) : Val :=
  match firstErr vs with
  | some k => .err k
  | none => f vs

/-- What a name in call position denotes. -/
inductive CallKind
  | func (f : Val → List Val → Val) (this : Val)   -- built-in function with its receiver
  | macro_ (this : Val)
  | ctor (tn : Str)                                 -- type constructor
  | none                                            -- nothing callable: a Runtime failure

/-- `name(..)`: a built-in function, then a macro, then a type. -/
def fnKind (B : Builtins) (env : Env) (name : Str) : CallKind :=
  match B.func name with
  | some f => .func f .null
  | none =>
    if env.isMacro name then .macro_ .null else
    match env.getType name with
    | some (.type tn) => .ctor tn
    | _ => .none

/-- `o.name(..)`: an entry `name` of a map `o` is what is called (only a type value is callable);
    otherwise a built-in function or a macro with receiver `o`. -/
def methodKind (B : Builtins) (env : Env) (o : Val) (name : Str) : CallKind :=
  match fieldEntry o name with
  | some (.type tn) => .ctor tn
  | some _ => .none
  | none =>
    match B.func name with
    | some f => .func f o
    | none => if env.isMacro name then .macro_ o else .none

/-- A function or constructor applied to values as they are (no failing-argument rule). -/
def callRaw (B : Builtins) : CallKind → List Val → Val
  | .func f this, vs => f this vs
  | .ctor tn, vs => B.ctor tn vs
  | .macro_ _, _ => notCovered
  | .none, _ => .err .runtime

/-- A function or constructor applied to evaluated argument expressions. -/
def callStrict (B : Builtins) : CallKind → List Val → Val
  | .func f this, vs => applyArgs (f this) vs
  | .ctor tn, vs => applyArgs (B.ctor tn) vs
  | .macro_ _, _ => notCovered
  | .none, _ => .err .runtime

/-- The failures that mean "absent" to `has` and `coalesce`. -/
def absentKind : ErrKind → Bool
  | .binding | .attribute => true
  | _ => false

def hasVal : Val → Val
  | .err k => if absentKind k then .bool false else .err k
  | _ => .bool true

/-- `coalesce` over the argument values in source order; the tail behind the chosen one plays no role. -/
def coalesceVal : List Val → Val
  | [] => .null
  | .null :: rest => coalesceVal rest
  | .err k :: rest => if absentKind k then coalesceVal rest else .err k
  | v :: _ => v

/-- A call, given what the name denotes (`k`), the values of the argument expressions in source order
    (`vs`) and — for the macros that work on the argument expressions — their meaning `mac` as a function
    of the receiver. -/
def callOf (B : Builtins) (k : CallKind) (name : Str) (vs : List Val) (mac : Val → Val) : Val :=
  match k with
  | .macro_ this => if name = "coalesce".toList then coalesceVal vs else mac this
  | .func f this => applyArgs (f this) vs
  | .ctor tn => applyArgs (B.ctor tn) vs
  | .none => .err .runtime

/-- A failing value stays the failure it is; any other value is passed on. -/
def Val.andThen (v : Val) (f : Val → Val) : Val :=
  match v with
  | .err k => .err k
  | r => f r

/-- `all`: the first element whose predicate fails or is falsy decides. (`g`: the body as a function of the element) -/
def allVal (g : Val → Val) : List Val → Val
  | [] => .bool true
  | v :: vs => (g v).andThen fun r => if truthy r then allVal g vs else .bool false

def existsVal (g : Val → Val) : List Val → Val
  | [] => .bool false
  | v :: vs => (g v).andThen fun r => if truthy r then .bool true else existsVal g vs

/-- `exists_one` with `n` hits so far: the second hit decides (false) at once. -/
def oneVal (g : Val → Val) : List Val → Nat → Val
  | [], n => .bool (n == 1)
  | v :: vs, n =>
    (g v).andThen fun r => if truthy r then (if n ≥ 1 then .bool false else oneVal g vs (n + 1)) else oneVal g vs n

/-- Put `x` in front of a list value (a failure stays). -/
def consVal (x : Val) : Val → Val
  | .list out => .list (x :: out)
  | e => e

def filterVal (g : Val → Val) : List Val → Val
  | [] => .list []
  | v :: vs => (g v).andThen fun r => if truthy r then consVal v (filterVal g vs) else filterVal g vs

def mapVal (g : Val → Val) : List Val → Val
  | [] => .list []
  | v :: vs => (g v).andThen fun r => consVal r (mapVal g vs)

/-- `map(x, p, e)`: the transform of the elements whose predicate is truthy. -/
def map3Val (gp ge : Val → Val) : List Val → Val
  | [] => .list []
  | v :: vs =>
    (gp v).andThen fun r =>
      if truthy r then (ge v).andThen fun r2 => consVal r2 (map3Val gp ge vs)
      else map3Val gp ge vs

def reduceVal (g : Val → Val → Val) : List Val → Val → Val
  | [], acc => acc
  | v :: vs, acc => (g acc v).andThen fun r => reduceVal g vs r

/-- `FMT` on the segment values. -/
def fmtVal (vs : List Val) : Val :=
  match concatStrs vs with
  | .ok s => .str s
  | .error k => .err k

/-- An argument that is an identifier (the loop variable of a macro). -/
def identOf : Ast → Option Str
  | .member _ (.ident _ x) [] => some x
  | _ => none

section
variable (B : Builtins)

mutual
def evalSpec : Ast → Env → Val
  | .tern _ c t f, env =>
    (match evalSpec c env with
     | .err k => .err k                                        -- a failing condition fails, no branch
     | vc => if truthy vc then evalSpec t env else evalSpec f env)   -- exactly one branch
  | .bin _ .or a b, env =>
    let va := evalSpec a env
    if truthy va then .bool true                               -- `b` is not evaluated
    else vOr va (evalSpec b env)
  | .bin _ .and a b, env =>
    (match evalSpec a env with
     | .err k => .err k                                        -- `b` is not evaluated
     | va => if truthy va then vAnd va (evalSpec b env) else .bool false)
  | .bin _ op a b, env => op.apply (evalSpec a env) (evalSpec b env)
  | .notRun _ ops m, env => applyN vNot ops.length (evalSpec m env)
  | .negRun _ ops m, env => applyN neg (negCount ops m) (evalSpec m env)
  | .member _ (.ident _ f) (.call _ args :: rest), env =>       -- `f(args)…`
    evalSpecOps (callOf B (fnKind B env f) f (evalSpecList args env).reverse
      (fun this => evalSpecMacro f this args env)) rest env
  | .member _ p chain, env => evalSpecOps (evalSpecPrim p env) chain env
  | .match_ _ s cases, env => evalSpecCases cases (evalSpec s env) env

/-- The postfix chain applied to the value `v`. -/
def evalSpecOps : Val → List MOp → Env → Val
  | v, [], _ => v
  | v, .access _ _ name :: .call _ args :: rest, env =>         -- `v.name(args)…`
    evalSpecOps (callOf B (methodKind B env v name) name (evalSpecList args env).reverse
      (fun this => evalSpecMacro name this args env)) rest env
  | v, .access _ _ name :: rest, env => evalSpecOps (fieldOf v name) rest env
  | v, .index _ e :: rest, env => evalSpecOps (index v (evalSpec e env)) rest env
  | _, .call _ _ :: _, _ => notCovered                          -- the callee is not a name

/-- The macros that work on their argument *expressions* (`args`: last argument first, as the tree stores
    them); `coalesce` works on the argument values, see `callOf`. -/
def evalSpecMacro : Str → Val → List Ast → Env → Val
  | name, this, args, env =>
    if name = "has".toList then
      (match args with
       | [a] => hasVal (evalSpec a env)
       | _ => .err .argument)
    else if name = "reduce".toList then
      (match args with
       | [seed, step, n, c] =>
         (match identOf c, identOf n with
          | some cur, some nxt =>
            (evalSpec seed env).andThen fun s0 =>        -- a failing seed fails the macro
              match this with
              | .list l => reduceVal (fun acc v => evalSpec step ((env.bind nxt v).bind cur acc)) l s0
              | _ => .err .value
          | _, _ => notCovered)
       | _ => .err .argument)
    else if name = "map".toList then
      (match args with
       | [e, xb] =>
         (match identOf xb with
          | none => notCovered
          | some x =>
            match rangeOf true this with
            | none => .err .value
            | some l => mapVal (fun v => evalSpec e (env.bind x v)) l)
       | [e, p, xb] =>
         (match identOf xb with
          | none => notCovered
          | some x =>
            match rangeOf true this with
            | none => .err .value
            | some l => map3Val (fun v => evalSpec p (env.bind x v)) (fun v => evalSpec e (env.bind x v)) l)
       | _ => .err .argument)
    else
      (match args with
       | [body, xb] =>
         (match identOf xb with
          | none => notCovered
          | some x =>
            if name = "filter".toList then
              match rangeOf true this with
              | none => .err .value
              | some l => filterVal (fun v => evalSpec body (env.bind x v)) l
            else
              match rangeOf false this with
              | none => .err .value
              | some l =>
                if name = "all".toList then allVal (fun v => evalSpec body (env.bind x v)) l
                else if name = "exists".toList then existsVal (fun v => evalSpec body (env.bind x v)) l
                else oneVal (fun v => evalSpec body (env.bind x v)) l 0)
       | _ => .err .argument)

/-- The cases of a `match` against the scrutinee value `vs`, in order. -/
def evalSpecCases : List MCase → Val → Env → Val
  | [], _, _ => .null                                           -- no case matched
  | .mk _ p b :: rest, vs, env =>
    (match evalSpecPat p vs env with
     | .bool true => evalSpec b env                             -- the first matching case: its arm only
     | _ => evalSpecCases rest vs env)

/-- What a pattern yields on the scrutinee value `vs` (it matches iff this is `true`). -/
def evalSpecPat : Pat → Val → Env → Val
  | .any _, _, _ => .bool true
  | .cmp _ _ op e, vs, env => op.apply vs (evalSpec e env)
  | .type _ _ name, vs, env =>                                  -- `type(vs) == name`
    valEq (callRaw B (fnKind B env "type".toList) [vs]) (resolveIdent env name)

def evalSpecPrim : Prim → Env → Val
  | .ident _ n, env => resolveIdent env n
  | .parens _ e, env => evalSpec e env
  | .list _ es, env => .list (evalSpecList es env)
  | .null _, _ => .null
  | .int _ i, _ => .int i
  | .uint _ n, _ => .uint n
  | .float _ b, _ => .float b
  | .str _ s, _ => .str s
  | .bytes _ b, _ => .bytes b
  | .bool _ b, _ => .bool b
  | .map _ inits, env => mkMap (evalSpecInits inits env)
  | .fstr _ segs, env => fmtVal (evalSpecSegs segs env)

def evalSpecList : List Ast → Env → List Val
  | [], _ => []
  | e :: es, env => evalSpec e env :: evalSpecList es env

/-- (key, value) pairs of a map literal in source order. -/
def evalSpecInits : List MInit → Env → List (Val × Val)
  | [], _ => []
  | .mk _ k v :: rest, env => (evalSpec k env, evalSpec v env) :: evalSpecInits rest env

/-- The segments of an f-string, each through `string(·)`; a failing expression fails its segment. -/
def evalSpecSegs : List FSegAst → Env → List Val
  | [], _ => []
  | .lit s :: rest, env => callRaw B (fnKind B env "string".toList) [.str s] :: evalSpecSegs rest env
  | .expr _ e :: rest, env => callStrict B (fnKind B env "string".toList) [evalSpec e env] :: evalSpecSegs rest env
end

end

/-- The trees `evalSpec` defines: everything built from literals, identifiers, parentheses, list
    literals, `!`/`-` runs, all fourteen binary operators, `?:` and — when `m = true` — `match` with `_`
    and comparison patterns. -/
inductive Frag (m : Bool) : Ast → Prop
  | null (sp sp' : Span) : Frag m (.member sp (.null sp') [])
  | int (sp sp' : Span) (i : Int) : Frag m (.member sp (.int sp' i) [])
  | uint (sp sp' : Span) (n : Nat) : Frag m (.member sp (.uint sp' n) [])
  | float (sp sp' : Span) (b : UInt64) : Frag m (.member sp (.float sp' b) [])
  | str (sp sp' : Span) (s : Str) : Frag m (.member sp (.str sp' s) [])
  | bytes (sp sp' : Span) (b : List UInt8) : Frag m (.member sp (.bytes sp' b) [])
  | bool (sp sp' : Span) (b : Bool) : Frag m (.member sp (.bool sp' b) [])
  | ident (sp sp' : Span) (n : Str) : Frag m (.member sp (.ident sp' n) [])
  | parens (sp sp' : Span) (e : Ast) : Frag m e → Frag m (.member sp (.parens sp' e) [])
  | list (sp sp' : Span) (es : List Ast) : (∀ e ∈ es, Frag m e) → Frag m (.member sp (.list sp' es) [])
  | notRun (sp : Span) (ops : List Span) (x : Ast) : Frag m x → Frag m (.notRun sp ops x)
  | negRun (sp : Span) (ops : List Span) (x : Ast) : Frag m x → Frag m (.negRun sp ops x)
  | bin (sp : Span) (op : BinOp) (l r : Ast) : Frag m l → Frag m r → Frag m (.bin sp op l r)
  | tern (sp : Span) (c t f : Ast) : Frag m c → Frag m t → Frag m f → Frag m (.tern sp c t f)
  | match_ (sp : Span) (s : Ast) (cases : List MCase) : m = true → Frag m s →
      (∀ sp' p b, MCase.mk sp' p b ∈ cases → Frag m b) →                             -- every arm
      (∀ sp' sp1 sp2 op e b, MCase.mk sp' (.cmp sp1 sp2 op e) b ∈ cases → Frag m e) →  -- every comparison pattern
      (∀ sp' sp1 t name b, MCase.mk sp' (.type sp1 t name) b ∉ cases) →              -- no type pattern
      Frag m (.match_ sp s cases)

/-- The fragment without `match`. -/
abbrev InFragment : Ast → Prop := Frag false
/-- The fragment with `match` (`_` and comparison patterns). -/
abbrev InFragmentM : Ast → Prop := Frag true

/-! ### the larger fragment of `Theorems/C05Compile2.lean` -/

/-- Names that can be callable: built-in functions and the default macros. -/
def callableName (B : Builtins) (name : Str) : Bool :=
  (B.func name).isSome || defaultMacros.any (·.toList = name)

/-- An argument that may serve as loop variable: an identifier that is not the name of a built-in function
    or macro.  (A loop variable named like a function is outside the fragment: `check_for_const` takes such a
    name for closed, so the compiler runs an inner call such as `dyn([size])` in `[1].map(size, dyn([size]))`
    with `size` unbound.  Before fix 4d08d12 it froze the result; now that run sets the interpreter's
    unresolved-name flag (`markUnres`) and the call is not folded — code and model.  The side condition stays
    because the proof of `fold_sound2_partial` argues "closed code has the same value in every standard
    environment" (`Irr`), which is false for such a tree and does not look at the flag; the correspondence run
    of facet C09 covers these trees instead.) -/
def loopVarOK (B : Builtins) (a : Ast) : Bool :=
  match identOf a with
  | some x => !callableName B x
  | none => false

/-- The loop-variable arguments of a comprehension macro are proper loop variables (`args`: last argument
    first).  Only the arities the macros accept are constrained; every other call is unconstrained. -/
def macroShape (B : Builtins) (name : Str) (args : List Ast) : Bool :=
  if name = "reduce".toList then
    match args with
    | [_, _, n, c] => loopVarOK B c && loopVarOK B n
    | _ => true
  else if name = "map".toList then
    match args with
    | [_, xb] => loopVarOK B xb
    | [_, _, xb] => loopVarOK B xb
    | _ => true
  else if name = "all".toList || name = "exists".toList || name = "exists_one".toList
      || name = "filter".toList then
    match args with
    | [_, xb] => loopVarOK B xb
    | _ => true
  else true

/-- `has` / `coalesce` in *method* position (`o.has(..)`) are outside the fragment: the compiler does not
    know these two macros and the name of a method is not among the identifiers `check_for_const` inspects,
    so the compile-time run of an enclosing closed call gets an Attribute / Runtime failure for them where
    the run-time bindings have a macro.  Before fix 4d08d12 that was frozen (`dyn([[1].has(1)])` was
    `[<failure>]` while `[[1].has(1)]` is `[true]`); now the run sets the unresolved-name flag (`markUnres`)
    and the call is not folded — code and model.  The side condition stays for the same reason as in
    `loopVarOK` (`AgreeOn.meth` of `Theorems/C05Compile2.lean` needs the method to mean the same at compile
    time and at run time).  In function position (`has(..)`, `coalesce(..)`) they are covered. -/
def methodOK (B : Builtins) (name : Str) : Bool :=
  (B.func name).isSome || !(name = "has".toList || name = "coalesce".toList)

/-- The shape of a postfix chain behind a value: a call occurs only directly behind a member access
    (a method call `o.f(..)`); a member access that is *not* called names neither a function nor a macro
    (the VM leaves a bound method on the stack otherwise, which is no value). -/
def opsShape (B : Builtins) : List MOp → Bool
  | [] => true
  | .access _ _ name :: .call _ args :: rest => macroShape B name args && methodOK B name && opsShape B rest
  | .access _ _ name :: rest => !callableName B name && opsShape B rest
  | .index _ _ :: rest => opsShape B rest
  | .call _ _ :: _ => false

/-- … and a call directly behind the primary needs an identifier as primary (`f(..)`). -/
def memberShape (B : Builtins) : Prim → List MOp → Bool
  | .ident _ f, .call _ args :: rest => macroShape B f args && opsShape B rest
  | _, chain => opsShape B chain

/-- The trees of the larger fragment: `Frag true` plus type patterns of `match`, map literals, f-strings
    and postfix chains of the shape `memberShape` (field access, index, calls of built-in functions, type
    constructors and macros by name). -/
inductive Frag2 (B : Builtins) : Ast → Prop
  | notRun (sp : Span) (ops : List Span) (x : Ast) : Frag2 B x → Frag2 B (.notRun sp ops x)
  | negRun (sp : Span) (ops : List Span) (x : Ast) : Frag2 B x → Frag2 B (.negRun sp ops x)
  | bin (sp : Span) (op : BinOp) (l r : Ast) : Frag2 B l → Frag2 B r → Frag2 B (.bin sp op l r)
  | tern (sp : Span) (c t f : Ast) : Frag2 B c → Frag2 B t → Frag2 B f → Frag2 B (.tern sp c t f)
  | match_ (sp : Span) (s : Ast) (cases : List MCase) : Frag2 B s →
      (∀ sp' p b, MCase.mk sp' p b ∈ cases → Frag2 B b) →                             -- every arm
      (∀ sp' sp1 sp2 op e b, MCase.mk sp' (.cmp sp1 sp2 op e) b ∈ cases → Frag2 B e) →  -- every comparison pattern
      (∀ sp' sp1 t name b, MCase.mk sp' (.type sp1 t name) b ∈ cases → (typeByName name).isSome) →
        -- a type pattern names a type of the type table (`list`, `object`, `null` do not: as identifiers
        -- they are variables, unbound unless the caller binds them)
      Frag2 B (.match_ sp s cases)
  | member (sp : Span) (p : Prim) (chain : List MOp) :
      (∀ sp' e, p = .parens sp' e → Frag2 B e) →
      (∀ sp' es, p = .list sp' es → ∀ e ∈ es, Frag2 B e) →
      (∀ sp' inits, p = .map sp' inits → ∀ sp'' k v, MInit.mk sp'' k v ∈ inits → Frag2 B k) →
      (∀ sp' inits, p = .map sp' inits → ∀ sp'' k v, MInit.mk sp'' k v ∈ inits → Frag2 B v) →
      (∀ sp' segs, p = .fstr sp' segs → ∀ src e, FSegAst.expr src e ∈ segs → Frag2 B e) →
      (∀ sp' args, MOp.call sp' args ∈ chain → ∀ a ∈ args, Frag2 B a) →      -- every argument
      (∀ sp' e, MOp.index sp' e ∈ chain → Frag2 B e) →                        -- every index
      memberShape B p chain = true →
      Frag2 B (.member sp p chain)

/-! ### nesting depth of block executions

Arguments of calls (macro bodies included) and the expression segments of an f-string are compiled to
nested blocks, which the VM runs one level deeper in its call-depth budget (`maxDepth`). -/

mutual
def depth : Ast → Nat
  | .tern _ c t f => max (depth c) (max (depth t) (depth f))
  | .match_ _ s cases => max (depth s) (depthCases cases)
  | .bin _ _ l r => max (depth l) (depth r)
  | .notRun _ _ m => depth m
  | .negRun _ _ m => depth m
  | .member _ p chain => max (depthPrim p) (depthOps chain)
def depthPrim : Prim → Nat
  | .parens _ e => depth e
  | .list _ es => depthList es
  | .map _ inits => depthInits inits
  | .fstr _ segs => depthSegs segs
  | _ => 0
def depthOps : List MOp → Nat
  | [] => 0
  | .access .. :: rest => depthOps rest
  | .call _ args :: rest => max (depthArgs args) (depthOps rest)
  | .index _ e :: rest => max (depth e) (depthOps rest)
def depthList : List Ast → Nat
  | [] => 0
  | e :: es => max (depth e) (depthList es)
/-- every argument is a nested block -/
def depthArgs : List Ast → Nat
  | [] => 0
  | a :: as => max (depth a + 1) (depthArgs as)
def depthInits : List MInit → Nat
  | [] => 0
  | .mk _ k v :: rest => max (depth k) (max (depth v) (depthInits rest))
def depthCases : List MCase → Nat
  | [] => 0
  | .mk _ p b :: rest => max (depthPat p) (max (depth b) (depthCases rest))
def depthPat : Pat → Nat
  | .cmp _ _ _ e => depth e
  | _ => 0
def depthSegs : List FSegAst → Nat
  | [] => 0
  | .lit _ :: rest => depthSegs rest
  | .expr _ e :: rest => max (depth e + 1) (depthSegs rest)
end

end Rscel
