import RscelModel.Model.Compile
/-
The declarative (big-step) semantics of the expression language: `evalSpec e env` is the value the
property text assigns to `e` in the environment `env` — no instruction sequences, no stack, no jumps.
Failures are values (`.err k`), as in the VM.

  a || b      if `a` is truthy: true, and `b` plays no role; otherwise `a` and `b` combined by `vOr`
              (a truthy `b` wins over a failing `a`, else the leftmost failure, else false)
  a && b      if `a` fails: that failure; if `a` is falsy: false — in both cases `b` plays no role;
              otherwise `vAnd a b` (the failure of `b`, else the truthiness of `b`)
  c ? x : y   if `c` fails: that failure, neither branch plays a role; otherwise exactly one branch,
              chosen by the truthiness of `c`
  a op b      every other binary operator: both operands, then `BinOp.apply op`
  !…!m, -…-m  the operator applied as many times as written (see `negCount` for `-9223372036854775808`)
  literals    themselves;  `(e)`: `e`;  `[e₁, …, eₙ]`: the list of the element values
  identifiers what `InterpStack::pop` makes of a name when no stored program has it: a type name, then a
              bound parameter, else a Binding failure (`resolveIdent`)

  match s { case p₁: e₁ … }   the patterns are tried in order against the value of `s`; the arm of the
              first case whose pattern yields `true` is the result (no other arm plays a role); `null` when
              none does.  `_` always matches; a comparison pattern `op e` yields `s op e` (a failing
              comparison does not match).

NOT covered (the placeholder `notCovered` is returned; `Frag` excludes these trees, and the
compiler-correctness theorems of `C05Compile` are stated for `Frag` only): type patterns of `match`
(`case int:` — they are compiled to a call of `type()`), map literals, f-strings, and every postfix chain
(member access `.f`, index `[i]`, calls and macros `f(..)`) — hence also no call log: nothing in the
fragment can call a bound function.
-/
namespace Rscel

/-- What popping an identifier yields when it does not name a stored program. -/
def resolveIdent (env : Env) (name : Str) : Val :=
  match env.getType name with
  | some t => t
  | none =>
    match env.getParam name with
    | some v => v
    | none => .err .binding

/-- `f` applied `n` times. -/
def applyN (f : Val → Val) : Nat → Val → Val
  | 0, v => v
  | n + 1, v => f (applyN f n v)

/-- Number of negations a `-`-run applies: the parser reads `-9223372036854775808` as the literal
    `i64::MIN`, which uses up one of the written minus signs. -/
def negCount (ops : List Span) : Ast → Nat
  | .member _ (.int _ i) _ => if i = i64Min then ops.length - 1 else ops.length
  | _ => ops.length

/-- Placeholder for the constructors `evalSpec` does not define (see the header). -/
def notCovered : Val := .err .internal

/-- The comparison a `match` pattern `op e` applies to the scrutinee. -/
def CmpOp.apply : CmpOp → Val → Val → Val
  | .eq => valEq | .neq => valNe
  | .gt => rel .gt | .ge => rel .ge | .lt => rel .lt | .le => rel .le

mutual
def evalSpec : Ast → Env → Val
  | .tern _ c t f, env =>
    (match evalSpec c env with
     | .err k => .err k                                        -- a failing condition fails, no branch
     | vc => if truthy vc then evalSpec t env else evalSpec f env)   -- exactly one branch
  | .bin _ .or a b, env =>
    let va := evalSpec a env
    if truthy va then .bool true                               -- `b` is not evaluated
    else vOr va (evalSpec b env)
  | .bin _ .and a b, env =>
    (match evalSpec a env with
     | .err k => .err k                                        -- `b` is not evaluated
     | va => if truthy va then vAnd va (evalSpec b env) else .bool false)
  | .bin _ op a b, env => op.apply (evalSpec a env) (evalSpec b env)
  | .notRun _ ops m, env => applyN vNot ops.length (evalSpec m env)
  | .negRun _ ops m, env => applyN neg (negCount ops m) (evalSpec m env)
  | .member _ p [], env => evalSpecPrim p env
  | .member _ _ (_ :: _), _ => notCovered
  | .match_ _ s cases, env => evalSpecCases cases (evalSpec s env) env

/-- The cases of a `match` against the scrutinee value `vs`, in order. -/
def evalSpecCases : List MCase → Val → Env → Val
  | [], _, _ => .null                                           -- no case matched
  | .mk _ p b :: rest, vs, env =>
    (match evalSpecPat p vs env with
     | .bool true => evalSpec b env                             -- the first matching case: its arm only
     | _ => evalSpecCases rest vs env)

/-- What a pattern yields on the scrutinee value `vs` (it matches iff this is `true`). -/
def evalSpecPat : Pat → Val → Env → Val
  | .any _, _, _ => .bool true
  | .cmp _ _ op e, vs, env => op.apply vs (evalSpec e env)
  | .type _ _ _, _, _ => notCovered

def evalSpecPrim : Prim → Env → Val
  | .ident _ n, env => resolveIdent env n
  | .parens _ e, env => evalSpec e env
  | .list _ es, env => .list (evalSpecList es env)
  | .null _, _ => .null
  | .int _ i, _ => .int i
  | .uint _ n, _ => .uint n
  | .float _ b, _ => .float b
  | .str _ s, _ => .str s
  | .bytes _ b, _ => .bytes b
  | .bool _ b, _ => .bool b
  | .map _ _, _ => notCovered
  | .fstr _ _, _ => notCovered

def evalSpecList : List Ast → Env → List Val
  | [], _ => []
  | e :: es, env => evalSpec e env :: evalSpecList es env
end

/-- The trees `evalSpec` defines: everything built from literals, identifiers, parentheses, list
    literals, `!`/`-` runs, all fourteen binary operators, `?:` and — when `m = true` — `match` with `_`
    and comparison patterns. -/
inductive Frag (m : Bool) : Ast → Prop
  | null (sp sp' : Span) : Frag m (.member sp (.null sp') [])
  | int (sp sp' : Span) (i : Int) : Frag m (.member sp (.int sp' i) [])
  | uint (sp sp' : Span) (n : Nat) : Frag m (.member sp (.uint sp' n) [])
  | float (sp sp' : Span) (b : UInt64) : Frag m (.member sp (.float sp' b) [])
  | str (sp sp' : Span) (s : Str) : Frag m (.member sp (.str sp' s) [])
  | bytes (sp sp' : Span) (b : List UInt8) : Frag m (.member sp (.bytes sp' b) [])
  | bool (sp sp' : Span) (b : Bool) : Frag m (.member sp (.bool sp' b) [])
  | ident (sp sp' : Span) (n : Str) : Frag m (.member sp (.ident sp' n) [])
  | parens (sp sp' : Span) (e : Ast) : Frag m e → Frag m (.member sp (.parens sp' e) [])
  | list (sp sp' : Span) (es : List Ast) : (∀ e ∈ es, Frag m e) → Frag m (.member sp (.list sp' es) [])
  | notRun (sp : Span) (ops : List Span) (x : Ast) : Frag m x → Frag m (.notRun sp ops x)
  | negRun (sp : Span) (ops : List Span) (x : Ast) : Frag m x → Frag m (.negRun sp ops x)
  | bin (sp : Span) (op : BinOp) (l r : Ast) : Frag m l → Frag m r → Frag m (.bin sp op l r)
  | tern (sp : Span) (c t f : Ast) : Frag m c → Frag m t → Frag m f → Frag m (.tern sp c t f)
  | match_ (sp : Span) (s : Ast) (cases : List MCase) : m = true → Frag m s →
      (∀ sp' p b, MCase.mk sp' p b ∈ cases → Frag m b) →                             -- every arm
      (∀ sp' sp1 sp2 op e b, MCase.mk sp' (.cmp sp1 sp2 op e) b ∈ cases → Frag m e) →  -- every comparison pattern
      (∀ sp' sp1 t name b, MCase.mk sp' (.type sp1 t name) b ∉ cases) →              -- no type pattern
      Frag m (.match_ sp s cases)

/-- The fragment without `match`. -/
abbrev InFragment : Ast → Prop := Frag false
/-- The fragment with `match` (`_` and comparison patterns). -/
abbrev InFragmentM : Ast → Prop := Frag true

end Rscel
