import RscelModel.Model.Lex
/-
The syntax tree (`compiler/grammar.rs`).  One inductive for all precedence levels: `grammar.rs` has one
type per level and wraps a lower-level node in single-child `Unary(..)` nodes; here a node records its
own level and the wrappers are re-created by the printer (`toJson`) when the tree is compared with the
real `Program::ast()`.
-/
namespace Rscel

inductive BinOp
  | or | and
  | lt | le | ge | gt | eq | ne | in_
  | add | sub
  | mul | div | mod
  deriving DecidableEq, Repr

/-- Grammar level: 0 Expr, 1 ConditionalOr, 2 ConditionalAnd, 3 Relation, 4 Addition,
    5 Multiplication, 6 Unary, 7 Member. -/
def BinOp.level : BinOp → Nat
  | .or => 1 | .and => 2
  | .lt | .le | .ge | .gt | .eq | .ne | .in_ => 3
  | .add | .sub => 4
  | .mul | .div | .mod => 5

inductive CmpOp | eq | neq | gt | ge | lt | le
  deriving DecidableEq, Repr

inductive TypePat | int | uint | float | string | bool | bytes | list | object | null | timestamp | duration
  deriving DecidableEq, Repr

mutual
inductive Ast
  | tern (sp : Span) (c t f : Ast)
  | match_ (sp : Span) (scrut : Ast) (cases : List MCase)
  | bin (sp : Span) (op : BinOp) (l r : Ast)
  | notRun (sp : Span) (ops : List Span) (m : Ast)     -- `!`-run: spans of the operators, then a Member
  | negRun (sp : Span) (ops : List Span) (m : Ast)
  | member (sp : Span) (p : Prim) (chain : List MOp)
inductive Prim
  | ident (sp : Span) (name : Str)
  | parens (sp : Span) (e : Ast)
  | list (sp : Span) (es : List Ast)
  | map (sp : Span) (inits : List MInit)
  | null (sp : Span)
  | int (sp : Span) (i : Int)
  | uint (sp : Span) (n : Nat)
  | float (sp : Span) (bits : UInt64)
  | str (sp : Span) (s : Str)
  | bytes (sp : Span) (b : List UInt8)
  | bool (sp : Span) (b : Bool)
  | fstr (sp : Span) (segs : List FSegAst)
inductive MOp
  | access (sp : Span) (identSp : Span) (name : Str)
  | call (sp : Span) (args : List Ast)      -- in the order the real AST stores them (reversed)
  | index (sp : Span) (e : Ast)
inductive MCase
  | mk (sp : Span) (pat : Pat) (body : Ast)
inductive Pat
  | cmp (sp : Span) (opSp : Span) (op : CmpOp) (e : Ast)
  | type (sp : Span) (t : TypePat) (name : Str)
  | any (sp : Span)
inductive MInit
  | mk (sp : Span) (key value : Ast)
inductive FSegAst
  | lit (s : Str)
  | expr (src : Str) (e : Ast)     -- the segment text and its parse
end

instance : Inhabited Ast := ⟨.member default (.null default) []⟩

def Ast.span : Ast → Span
  | .tern sp .. | .match_ sp .. | .bin sp .. | .notRun sp .. | .negRun sp .. | .member sp .. => sp

def Prim.span : Prim → Span
  | .ident sp _ | .parens sp _ | .list sp _ | .map sp _ | .null sp | .int sp _ | .uint sp _
  | .float sp _ | .str sp _ | .bytes sp _ | .bool sp _ | .fstr sp _ => sp

def MOp.span : MOp → Span
  | .access sp .. => sp | .call sp _ => sp | .index sp _ => sp

def Pat.span : Pat → Span
  | .cmp sp .. => sp | .type sp .. => sp | .any sp => sp

/-- Level of a node in the grammar. -/
def Ast.level : Ast → Nat
  | .tern .. | .match_ .. => 0
  | .bin _ op _ _ => op.level
  | .notRun .. | .negRun .. => 6
  | .member .. => 7

end Rscel
