import RscelModel.Model.Basic
/-
`CelValue` (`types/cel_value.rs:40`) and `ByteCode` (`interp/types/bytecode.rs:29`).
Maps are association lists kept sorted by key with unique keys (`Map.insert`);
doubles are IEEE-754 bit patterns; timestamps / durations are nanoseconds.
`Dyn`, `Message`, `Enum` are not modelled (they cannot be written in source text).
-/
namespace Rscel

mutual
inductive Val
  | int (i : Int)
  | uint (n : Nat)
  | float (bits : UInt64)
  | bool (b : Bool)
  | str (s : Str)
  | bytes (b : List UInt8)
  | list (l : List Val)
  | map (m : List (Str × Val))
  | null
  | ident (s : Str)
  | type (s : Str)
  | ts (nanos : Int)
  | dur (nanos : Int)
  | code (c : List Instr)
  | err (k : ErrKind)
inductive Instr
  | push (v : Val)
  | pop | test | dup | or | and | not | neg
  | add | sub | mul | div | mod
  | lt | le | eq | ne | ge | gt | in_
  | jmp (d : Int)
  | jmpCond (when : Bool) (d : Int)
  | mkList (n : Nat)
  | mkDict (n : Nat)
  | index | access
  | call (n : Nat)
  | fmt (n : Nat)
end

instance : Inhabited Val := ⟨.null⟩
instance : Inhabited Instr := ⟨.pop⟩

abbrev VMap := List (Str × Val)

def Val.isErr : Val → Bool
  | .err _ => true
  | _ => false

/-- `as_type()` names. -/
def Val.typeName : Val → Str
  | .int _ => "int".toList | .uint _ => "uint".toList | .float _ => "float".toList
  | .bool _ => "bool".toList | .str _ => "string".toList | .bytes _ => "bytes".toList
  | .list _ => "list".toList | .map _ => "map".toList | .null => "null".toList
  | .ident _ => "ident".toList | .type _ => "type".toList | .ts _ => "timestamp".toList
  | .dur _ => "duration".toList | .code _ => "bytecode".toList | .err _ => "err".toList

def Val.asType (v : Val) : Val := .type v.typeName

namespace Map

/-- Insert into a key-sorted association list, replacing an existing key (HashMap::insert). -/
def insert : VMap → Str → Val → VMap
  | [], k, v => [(k, v)]
  | (k', v') :: rest, k, v =>
    if strLt k k' then (k, v) :: (k', v') :: rest
    else if strLt k' k then (k', v') :: insert rest k v
    else (k, v) :: rest

def get : VMap → Str → Option Val
  | [], _ => none
  | (k', v') :: rest, k => if k' = k then some v' else get rest k

def contains (m : VMap) (k : Str) : Bool := (get m k).isSome

def keys (m : VMap) : List Str := m.map (·.1)

/-- Build from entries in order: later entries win. -/
def ofList (es : List (Str × Val)) : VMap := es.foldl (fun m e => insert m e.1 e.2) []

end Map

end Rscel
