import RscelModel.Model.Coll
/-
The stack VM: `Interpreter::run_raw` (`interp/interp.rs`) with `InterpStack::pop` name resolution,
the `Call` protocol, `Access`, `FmtString`, the call-depth budget, and the eight default macros
(`context/default_macros/*.rs`).

Recursion structure: `run` is structurally recursive on the depth budget (32 at the top; every nested
block execution — program reference, call argument, macro body, has/coalesce argument — runs on
`budget - 1`); the instruction loop inside one block takes fuel (`|code| + 1` suffices for forward-only
code, theorem `C10.wf_sound`).  Built-in *functions* and type constructors are a parameter
(`Builtins`), macros are defined here because they call back into the VM.
-/
namespace Rscel

/-- How a failed block execution ended (finer than `CelError`, which the observation maps to). -/
inductive Abort
  | underflow            -- "No value on stack!"
  | badJump              -- "Jump target out of range"
  | depth                -- "Max call depth excceded"
  | fuel                 -- model artefact: instruction budget exhausted (backward jumps only)
  | err (k : ErrKind)    -- every other early return / final error value
  deriving DecidableEq, Repr

def Abort.kind : Abort → ErrKind
  | .underflow | .badJump | .depth | .fuel => .runtime
  | .err k => k

/-- A function bound by the caller with `bind_func`; every call is logged. -/
inductive UserFn
  | arg0                  -- returns its first argument (null if none)
  | const (v : Val)
  | fail (k : ErrKind)

def UserFn.apply : UserFn → List Val → Val
  | .arg0, a :: _ => a
  | .arg0, [] => .null
  | .const v, _ => v
  | .fail k, _ => .err k

structure LogEntry where
  name : Str
  this : Val
  args : List Val

abbrev Log := List LogEntry

/-- Built-in functions and type constructors (defined in `Builtins.lean`). -/
structure Builtins where
  func : Str → Option (Val → List Val → Val)
  ctor : Str → List Val → Val

/-- `CelContext` + `BindContext` as seen by one interpreter. -/
structure Env where
  params : List (Str × Val) := []
  progs : List (Str × List Instr) := []
  userFns : List (Str × UserFn) := []
  hasCtx : Bool := true
  hasBinds : Bool := true
  compileMode : Bool := false   -- `BindContext::for_compile()`: no has/coalesce
  trackUnres : Bool := false    -- the interpreter whose `met_unresolved_name()` is read (`check_for_const`)

/-- The reserved log entry that stands for `Interpreter::unresolved` (the shared flag "this run met a name
    it could not resolve").  No function can have this name (the lexer produces no identifier with a NUL). -/
def unresMarker : LogEntry := { name := "\x00unresolved".toList, this := .null, args := [] }

/-- Is this log entry the reserved marker (decided by the name alone). -/
def LogEntry.isMarker (e : LogEntry) : Bool := e.name == unresMarker.name

/-- `met_unresolved_name()` read off a log. -/
def Log.metUnres (l : Log) : Bool := l.any LogEntry.isMarker

def lookup {α} (l : List (Str × α)) (k : Str) : Option α :=
  match l with
  | [] => none
  | (k', v) :: rest => if k' = k then some v else lookup rest k

/-- `bind_param`: later bindings replace earlier ones. -/
def Env.bind (e : Env) (k : Str) (v : Val) : Env := { e with params := (k, v) :: e.params }

/-- `self.unresolved.set(true)`: the interpreter's shared flag "this run met a name it could not resolve",
    recorded as the reserved entry at the end of the log (the log is threaded through every nested run —
    program references, arguments, macro bodies — exactly like the shared `Rc<Cell<bool>>`; the fresh
    interpreter of `eval_ident` has its own flag, and its own environment here).  Only `check_for_const`
    reads the flag, so only its interpreter records it (`trackUnres`, kept by `Env.bind`): in every other
    environment the log is the list of calls of bound functions and nothing else. -/
def markUnres (env : Env) (log : Log) : Log := if env.trackUnres then log ++ [unresMarker] else log

@[simp] theorem markUnres_untracked {env : Env} (h : env.trackUnres = false) (l : Log) : markUnres env l = l := by
  simp [markUnres, h]

@[simp] theorem markUnres_tracked {env : Env} (h : env.trackUnres = true) (l : Log) :
    markUnres env l = l ++ [unresMarker] := by
  simp [markUnres, h]

@[simp] theorem Env.bind_trackUnres (e : Env) (k : Str) (v : Val) : (e.bind k v).trackUnres = e.trackUnres := rfl

/-- `load_default_types`. -/
def typeTable : List (String × String) :=
  [("bool", "bool"), ("int", "int"), ("uint", "uint"), ("float", "float"), ("double", "float"),
   ("string", "string"), ("bytes", "bytes"), ("type", "type"), ("timestamp", "timestamp"),
   ("duration", "duration"), ("null_type", "null"), ("dyn", "dyn")]

def typeByName (name : Str) : Option Val :=
  (typeTable.find? (fun p => p.1.toList = name)).map (fun p => .type p.2.toList)

def Env.getType (e : Env) (name : Str) : Option Val := if e.hasBinds then typeByName name else none
def Env.getParam (e : Env) (name : Str) : Option Val := if e.hasBinds then lookup e.params name else none
def Env.getProg (e : Env) (name : Str) : Option (List Instr) := if e.hasCtx then lookup e.progs name else none

def defaultMacros : List String := ["has", "all", "exists", "exists_one", "filter", "map", "reduce", "coalesce"]
def compileMacros : List String := ["all", "exists", "exists_one", "filter", "map", "reduce"]

def Env.isMacro (e : Env) (name : Str) : Bool :=
  e.hasBinds && ((if e.compileMode then compileMacros else defaultMacros).any (·.toList = name))

inductive Callee
  | user (name : Str) (f : UserFn)
  | builtin (name : Str)
  | macro_ (name : Str)

def Env.getFunc (B : Builtins) (e : Env) (name : Str) : Option Callee :=
  if !e.hasBinds then none else
  match lookup e.userFns name with
  | some f => some (.user name f)
  | none => if (B.func name).isSome then some (.builtin name) else none

/-- `callable_by_name`: function first, then macro. -/
def Env.callable (B : Builtins) (e : Env) (name : Str) : Option Callee :=
  match e.getFunc B name with
  | some c => some c
  | none => if e.isMacro name then some (.macro_ name) else none

/-- `CelStackValue`. -/
inductive SVal
  | val (v : Val)
  | bound (c : Callee) (this : Val)

structure St where
  stack : List SVal
  log : Log

/-- Result of an operation on the machine state: a payload and the new state, or an abort. -/
inductive R (α : Type)
  | ok (a : α) (s : St)
  | fail (e : Abort) (log : Log)

/-- Result of running one block. -/
structure Out where
  res : Except Abort Val
  log : Log

/-- The recursive callback: run a nested block at the next depth level. -/
abbrev Rec := Env → List Instr → Bool → Log → Out

section
variable (B : Builtins) (rec : Rec)

/-- `InterpStack::pop`: identifiers resolve to a type, a parameter, another program (run now), else a
    Binding error *value* (and the interpreter's `unresolved` flag is set). -/
def popS (env : Env) (s : St) : R SVal :=
  match s.stack with
  | [] => .fail .underflow s.log
  | .val (.ident name) :: rest =>
    (match env.getType name with
     | some t => .ok (.val t) { s with stack := rest }
     | none =>
       match env.getParam name with
       | some v => .ok (.val v) { s with stack := rest }
       | none =>
         match env.getProg name with
         | some code =>
           let o := rec env code true s.log
           (match o.res with
            | .ok v => .ok (.val v) { stack := rest, log := o.log }
            | .error a => .ok (.val (.err a.kind)) { stack := rest, log := o.log })
         | none => .ok (.val (.err .binding)) { stack := rest, log := markUnres env s.log })
  | x :: rest => .ok x { s with stack := rest }

/-- `pop()?.into_value()?` -/
def popV (env : Env) (s : St) : R Val :=
  match popS rec env s with
  | .ok (.val v) s' => .ok v s'
  | .ok (.bound _ _) s' => .fail (.err .internal) s'.log
  | .fail a l => .fail a l

/-- `pop_noresolve`. -/
def popRaw (s : St) : R SVal :=
  match s.stack with
  | [] => .fail .underflow s.log
  | x :: rest => .ok x { s with stack := rest }

def pushV (v : Val) (s : St) : St := { s with stack := .val v :: s.stack }

/-- pop `n` values (resolving), first popped first. -/
def popN (env : Env) : Nat → St → R (List Val)
  | 0, s => .ok [] s
  | n + 1, s =>
    match popV rec env s with
    | .fail a l => .fail a l
    | .ok v s' =>
      match popN env n s' with
      | .fail a l => .fail a l
      | .ok vs s'' => .ok (v :: vs) s''

/-- `resolve_args`: code blocks are run now, anything else is passed as it is. -/
def resolveArgs (env : Env) : List Val → Log → Except (Abort × Log) (List Val × Log)
  | [], log => .ok ([], log)
  | .code c :: rest, log =>
    let o := rec env c true log
    (match o.res with
     | .error a => .error (a, o.log)
     | .ok v =>
       match resolveArgs env rest o.log with
       | .error e => .error e
       | .ok (vs, l) => .ok (v :: vs, l))
  | v :: rest, log =>
    match resolveArgs env rest log with
    | .error e => .error e
    | .ok (vs, l) => .ok (v :: vs, l)

/-- all macro arguments must be code blocks -/
def codeArgs : List Val → Option (List (List Instr))
  | [] => some []
  | .code c :: rest => (codeArgs rest).map (c :: ·)
  | _ :: _ => none

/-- `eval_ident`: run the block in an empty interpreter without resolving; it must yield an identifier. -/
def evalIdent (recTop : Rec) (block : List Instr) : Except ErrKind Str :=
  let o := recTop { hasCtx := false, hasBinds := false } block false []
  match o.res with
  | .ok (.ident s) => .ok s
  | .ok _ => .error .misc
  | .error a => .error a.kind

/-- Result of running a macro body for one element. -/
def runBody (env : Env) (x : Str) (v : Val) (body : List Instr) (log : Log) : Out :=
  rec (env.bind x v) body true log

/-- The list loops of all / exists / exists_one / filter / map: a fold with early exit.
    `k` = what to do with one element's body result, `acc` threaded. -/
def loopList {σ : Type} (env : Env) (x : Str) (body : List Instr)
    (k : σ → Val → Val → Sum Val σ) (fin : σ → Val) : List Val → σ → Log → Val × Log
  | [], acc, log => (fin acc, log)
  | v :: vs, acc, log =>
    let o := runBody rec env x v body log
    match o.res with
    | .error a => (.err a.kind, o.log)
    | .ok r =>
      match k acc v r with
      | .inl result => (result, o.log)
      | .inr acc' => loopList env x body k fin vs acc' o.log

/-- `map(x, p, e)`: predicate then transform. -/
def loopMap3 (env : Env) (x : Str) (p e : List Instr) : List Val → List Val → Log → Val × Log
  | [], acc, log => (.list acc.reverse, log)
  | v :: vs, acc, log =>
    let o := runBody rec env x v p log
    match o.res with
    | .error a => (.err a.kind, o.log)
    | .ok r =>
      if truthy r then
        let o2 := runBody rec env x v e o.log
        match o2.res with
        | .error a => (.err a.kind, o2.log)
        | .ok r2 => loopMap3 env x p e vs (r2 :: acc) o2.log
      else loopMap3 env x p e vs acc o.log

def loopReduce (env : Env) (cur nxt : Str) (step : List Instr) : List Val → Val → Log → Val × Log
  | [], acc, log => (acc, log)
  | v :: vs, acc, log =>
    let o := rec ((env.bind nxt v).bind cur acc) step true log
    match o.res with
    | .error a => (.err a.kind, o.log)
    | .ok r => loopReduce env cur nxt step vs r o.log

def coalesceLoop (env : Env) : List (List Instr) → Log → Val × Log
  | [], log => (.null, log)
  | a :: as, log =>
    let o := rec env a true log
    match o.res with
    | .ok .null => coalesceLoop env as o.log
    | .ok v => (v, o.log)
    | .error (.err .binding) => coalesceLoop env as o.log
    | .error (.err .attribute) => coalesceLoop env as o.log
    | .error a => (.err a.kind, o.log)

/-- Elements a macro ranges over: list elements, or the keys of a map in sorted order (filter/map only). -/
def rangeOf (allowMap : Bool) : Val → Option (List Val)
  | .list l => some l
  | .map m => if allowMap then some (m.map (fun p => .str p.1)) else none
  | _ => none

/-- The eight default macros. `recTop` runs a block at the top of a *fresh* interpreter (eval_ident). -/
def callMacro (recTop : Rec) (env : Env) (name : Str) (this : Val) (args : List (List Instr))
    (log : Log) : Val × Log :=
  if name = "has".toList then
    match args with
    | [a] =>
      let o := rec env a true log
      (match o.res with
       | .ok _ => (.bool true, o.log)
       | .error (.err .binding) => (.bool false, o.log)
       | .error (.err .attribute) => (.bool false, o.log)
       | .error a => (.err a.kind, o.log))
    | _ => (.err .argument, log)
  else if name = "coalesce".toList then coalesceLoop rec env args log
  else if name = "reduce".toList then
    match args with
    | [c, n, step, seed] =>
      (match evalIdent recTop c with
       | .error k => (.err k, log)
       | .ok cur =>
         match evalIdent recTop n with
         | .error k => (.err k, log)
         | .ok nxt =>
           let o := rec env seed true log
           match o.res with
           | .error a => (.err a.kind, o.log)
           | .ok s0 =>
             match this with
             | .list l => loopReduce rec env cur nxt step l s0 o.log
             | _ => (.err .value, o.log))
    | _ => (.err .argument, log)
  else if name = "map".toList then
    match args with
    | [xb, e] =>
      (match evalIdent recTop xb with
       | .error k => (.err k, log)
       | .ok x =>
         match rangeOf true this with
         | none => (.err .value, log)
         | some l =>
           loopList rec env x e (fun (acc : List Val) _ r => .inr (r :: acc)) (fun acc => .list acc.reverse) l [] log)
    | [xb, p, e] =>
      (match evalIdent recTop xb with
       | .error k => (.err k, log)
       | .ok x =>
         match rangeOf true this with
         | none => (.err .value, log)
         | some l => loopMap3 rec env x p e l [] log)
    | _ => (.err .argument, log)
  else
    match args with
    | [xb, body] =>
      (match evalIdent recTop xb with
       | .error k => (.err k, log)
       | .ok x =>
         if name = "filter".toList then
           match rangeOf true this with
           | none => (.err .value, log)
           | some l =>
             loopList rec env x body (fun (acc : List Val) v r => .inr (if truthy r then v :: acc else acc))
               (fun acc => .list acc.reverse) l [] log
         else
           match rangeOf false this with
           | none => (.err .value, log)
           | some l =>
             if name = "all".toList then
               loopList rec env x body (fun (_ : Unit) _ r => if truthy r then .inr () else .inl (.bool false))
                 (fun _ => .bool true) l () log
             else if name = "exists".toList then
               loopList rec env x body (fun (_ : Unit) _ r => if truthy r then .inl (.bool true) else .inr ())
                 (fun _ => .bool false) l () log
             else
               loopList rec env x body
                 (fun (n : Nat) _ r => if truthy r then (if n ≥ 1 then .inl (.bool false) else .inr (n + 1)) else .inr n)
                 (fun n => .bool (n == 1)) l 0 log)
    | _ => (.err .argument, log)

/-- Invoke a callee with already popped arguments. -/
def invoke (recTop : Rec) (env : Env) (c : Callee) (this : Val) (args : List Val) (s : St) : R Unit :=
  match c with
  | .macro_ name =>
    (match codeArgs args with
     | none => .fail (.err .internal) s.log
     | some blocks =>
       let (v, log) := callMacro rec recTop env name this blocks s.log
       .ok () (pushV v { s with log := log }))
  | .user name f =>
    (match resolveArgs rec env args s.log with
     | .error (a, l) => .ok () (pushV (.err a.kind) { s with log := l })
     | .ok (vs, l) => .ok () (pushV (f.apply vs) { s with log := l ++ [{ name := name, this := this, args := vs }] }))
  | .builtin name =>
    (match resolveArgs rec env args s.log with
     | .error (a, l) => .ok () (pushV (.err a.kind) { s with log := l })
     | .ok (vs, l) =>
       match B.func name with
       | some f => .ok () (pushV (f this vs) { s with log := l })
       | none => .fail (.err .internal) l)

/-- `checked_jump_target`. -/
def jumpTarget (pc : Nat) (d : Int) (len : Nat) : Option Nat :=
  let t : Int := (pc : Int) + d
  if t < 0 || t > (len : Int) then none else some t.toNat

def binop (f : Val → Val → Val) (env : Env) (s : St) : R Unit :=
  match popV rec env s with
  | .fail a l => .fail a l
  | .ok v2 s1 =>
    match popV rec env s1 with
    | .fail a l => .fail a l
    | .ok v1 s2 => .ok () (pushV (f v1 v2) s2)

def unop (f : Val → Val) (env : Env) (s : St) : R Unit :=
  match popV rec env s with
  | .fail a l => .fail a l
  | .ok v s1 => .ok () (pushV (f v) s1)

/-- Collect `n` (key, value) pairs for MKDICT: key popped first. All operands are taken; a key that is
    not a string makes the result `none` (an error value is pushed instead of a map). -/
def popEntries (env : Env) : Nat → St → R (Option (List (Str × Val)))
  | 0, s => .ok (some []) s
  | n + 1, s =>
    match popV rec env s with
    | .fail a l => .fail a l
    | .ok k s1 =>
      match popV rec env s1 with
      | .fail a l => .fail a l
      | .ok v s2 =>
        match popEntries env n s2 with
        | .fail a l => .fail a l
        | .ok es s3 =>
          match k, es with
          | .str key, some es' => .ok (some ((key, v) :: es')) s3
          | _, _ => .ok none s3

/-- `FMT`: concatenation of string segments; the first segment (in source order) that is an error value
    fails the string with that error, any other non-string with a Runtime error. -/
def concatStrs : List Val → Except ErrKind Str
  | [] => .ok []
  | .str s :: rest => (match concatStrs rest with | .ok r => .ok (s ++ r) | .error k => .error k)
  | .err k :: _ => .error k
  | _ :: _ => .error .runtime

/-- Continue at `pc` after a stack-only operation. -/
def liftNext (pc : Nat) (r : R Unit) : R Nat :=
  match r with
  | .ok _ s' => .ok pc s'
  | .fail a l => .fail a l

/-- One instruction. `pc` is already advanced past it; returns the next `pc`. -/
def step (recTop : Rec) (env : Env) (len : Nat) (i : Instr) (pc : Nat) (s : St) : R Nat :=
  let next := liftNext pc
  match i with
  | .push v => .ok pc (pushV v s)
  | .pop => next (match popV rec env s with | .ok _ s' => .ok () s' | .fail a l => .fail a l)
  | .test => next (unop rec vTest env s)
  | .dup =>
    (match popV rec env s with
     | .fail a l => .fail a l
     | .ok v s1 => .ok pc (pushV v (pushV v s1)))
  | .or => next (binop rec vOr env s)
  | .and => next (binop rec vAnd env s)
  | .not => next (unop rec vNot env s)
  | .neg => next (unop rec neg env s)
  | .add => next (binop rec (arith .add) env s)
  | .sub => next (binop rec (arith .sub) env s)
  | .mul => next (binop rec (arith .mul) env s)
  | .div => next (binop rec (arith .div) env s)
  | .mod => next (binop rec (arith .rem) env s)
  | .lt => next (binop rec (rel .lt) env s)
  | .le => next (binop rec (rel .le) env s)
  | .eq => next (binop rec valEq env s)
  | .ne => next (binop rec valNe env s)
  | .ge => next (binop rec (rel .ge) env s)
  | .gt => next (binop rec (rel .gt) env s)
  | .in_ => next (binop rec inOp env s)
  | .jmp d =>
    (match jumpTarget pc d len with
     | some t => .ok t s
     | none => .fail .badJump s.log)
  | .jmpCond w d =>
    (match popV rec env s with
     | .fail a l => .fail a l
     | .ok (.bool b) s1 =>
       if b == w then
         (match jumpTarget pc d len with
          | some t => .ok t s1
          | none => .fail .badJump s1.log)
       else .ok pc s1
     | .ok (.err _) s1 =>
       if w == false then
         (match jumpTarget pc d len with
          | some t => .ok t s1
          | none => .fail .badJump s1.log)
       else .ok pc s1
     | .ok _ s1 => .fail (.err .invalidOp) s1.log)
  | .mkList n =>
    (match popN rec env n s with
     | .fail a l => .fail a l
     | .ok vs s1 => .ok pc (pushV (.list vs.reverse) s1))
  | .mkDict n =>
    (match popEntries rec env n s with
     | .fail a l => .fail a l
     | .ok (some es) s1 => .ok pc (pushV (.map (Map.ofList es.reverse)) s1)
     | .ok none s1 => .ok pc (pushV (.err .value) s1))
  | .index => next (binop rec index env s)
  | .access =>
    (match popRaw s with
     | .fail a l => .fail a l
     | .ok (.bound _ _) s1 => .fail (.err .internal) s1.log
     | .ok (.val (.ident name)) s1 =>
       (match popV rec env s1 with
        | .fail a l => .fail a l
        | .ok obj s2 =>
          match obj with
          | .map m =>
            (match Map.get m name with
             | some v => .ok pc (pushV v s2)
             | none =>
               match env.callable B name with
               | some c => .ok pc { s2 with stack := .bound c obj :: s2.stack }
               | none => .ok pc (pushV (.err .attribute) { s2 with log := markUnres env s2.log }))
          | _ =>
            if !env.hasBinds then .fail (.err .runtime) s2.log else
            match env.callable B name with
            | some c => .ok pc { s2 with stack := .bound c obj :: s2.stack }
            | none =>
              -- a failed operand stays the failure it is (it is not a missing field)
              if obj.isErr then .ok pc (pushV obj s2)
              else .ok pc (pushV (.err .attribute) { s2 with log := markUnres env s2.log }))
     | .ok (.val _) s1 =>
       (match popV rec env s1 with
        | .fail a l => .fail a l
        | .ok _ s2 => .ok pc (pushV (.err .value) s2)))
  | .call n =>
    (match popRaw s with
     | .fail a l => .fail a l
     | .ok (.bound c this) s1 =>
       (match popN rec env n s1 with
        | .fail a l => .fail a l
        | .ok args s2 => next (invoke B rec recTop env c this args s2))
     | .ok (.val callee) s1 =>
       (match popN rec env n s1 with
        | .fail a l => .fail a l
        | .ok args s2 =>
          match callee with
          | .ident fname =>
            (match env.getFunc B fname with
             | some c => next (invoke B rec recTop env c .null args s2)
             | none =>
               if env.isMacro fname then next (invoke B rec recTop env (.macro_ fname) .null args s2)
               else match env.getType fname with
                 | some (.type tn) =>
                   (match resolveArgs rec env args s2.log with
                    | .error (a, l) => .ok pc (pushV (.err a.kind) { s2 with log := l })
                    | .ok (vs, l) => .ok pc (pushV (B.ctor tn vs) { s2 with log := l }))
                 | _ => .ok pc (pushV (.err .runtime) { s2 with log := markUnres env s2.log }))  -- "… is not callable"
          | .type tn =>
            (match resolveArgs rec env args s2.log with
             | .error (a, l) => .ok pc (pushV (.err a.kind) { s2 with log := l })
             | .ok (vs, l) => .ok pc (pushV (B.ctor tn vs) { s2 with log := l }))
          | _ => .ok pc (pushV (.err .runtime) s2)))  -- "… cannot be called": no name involved, no flag
  | .fmt n =>
    (match popN rec env n s with
     | .fail a l => .fail a l
     | .ok segs s1 =>
       match concatStrs segs.reverse with
       | .ok str => .ok pc (pushV (.str str) s1)
       | .error k => .ok pc (pushV (.err k) s1))

/-- The instruction loop of one block. -/
def loop (recTop : Rec) (env : Env) (code : List Instr) : Nat → Nat → St → R Unit
  | 0, pc, s => if pc < code.length then .fail .fuel s.log else .ok () s
  | fuel + 1, pc, s =>
    match code[pc]? with
    | none => .ok () s
    | some i =>
      match step B rec recTop env code.length i (pc + 1) s with
      | .fail a l => .fail a l
      | .ok pc' s' => loop recTop env code fuel pc' s'

/-- What `run_raw` does after the loop: pop the result (resolving or `pop_tryresolve`), unwrap errors. -/
def finish (env : Env) (resolve : Bool) (s : St) : Out :=
  if resolve then
    match popS rec env s with
    | .fail a l => { res := .error a, log := l }
    | .ok (.bound _ _) s' => { res := .error (.err .internal), log := s'.log }
    | .ok (.val (.err k)) s' => { res := .error (.err k), log := s'.log }
    | .ok (.val v) s' => { res := .ok v, log := s'.log }
  else
    match s.stack with
    | [] => { res := .error .underflow, log := s.log }
    | .bound _ _ :: _ => { res := .error (.err .internal), log := s.log }
    | .val (.ident name) :: _ =>
      (match env.getParam name with
       | some (.err k) => { res := .error (.err k), log := s.log }
       | some v => { res := .ok v, log := s.log }
       | none => { res := .ok (.ident name), log := s.log })
    | .val (.err k) :: _ => { res := .error (.err k), log := s.log }
    | .val v :: _ => { res := .ok v, log := s.log }

end

/-- The call-depth limit of `run_raw`. -/
def maxDepth : Nat := 32

/-- Instruction budget for one block; `|code| + 1` is enough for forward-only code, arbitrary
    (injected) bytecode gets a generous fixed allowance. -/
def blockFuel (code : List Instr) : Nat := code.length * 64 + 64

/-- A nested-run callback that is never reached: in an interpreter without context and bindings
    (`Interpreter::empty()`) no identifier names a program, nothing is callable and no macro exists. -/
def noRec : Rec := fun _ _ _ log => { res := .error .depth, log := log }

/-- `run_raw` at the top of a *fresh* interpreter (`eval_ident`: `Interpreter::empty().run_raw(..)`):
    its depth counter starts again at zero, whatever the depth of the caller. -/
def runFresh (B : Builtins) : Rec := fun env code resolve log =>
  match loop B noRec noRec env code (blockFuel code) 0 { stack := [], log := log } with
  | .fail a l => { res := .error a, log := l }
  | .ok _ s => finish noRec env resolve s

/-- `run_raw` at a given remaining depth budget. -/
def runAt (B : Builtins) : Nat → Rec
  | 0 => fun _ _ _ log => { res := .error .depth, log := log }
  | b + 1 => fun env code resolve log =>
    let rec_ : Rec := runAt B b
    match loop B rec_ (runFresh B) env code (blockFuel code) 0 { stack := [], log := log } with
    | .fail a l => { res := .error a, log := l }
    | .ok _ s => finish rec_ env resolve s

/-- Run a program the way `CelContext::exec` does. -/
def execProg (B : Builtins) (env : Env) (code : List Instr) : Out :=
  runAt B maxDepth env code true []

end Rscel
