import RscelModel.Model.WF
/-
Stack-height behaviour of the VM's helper operations: with enough values on the stack they never
report `underflow`, and they leave the documented number of values.  `rec` (nested block execution) is
arbitrary, only assumed not to report a structural abort itself.
-/
namespace Rscel

/-- The aborts a well-formed block must never produce by itself. -/
def Abort.structural : Abort → Bool
  | .underflow | .badJump | .fuel => true
  | _ => false

/-- Nested executions do not report structural aborts. -/
def RecClean (rec : Rec) : Prop :=
  ∀ env code r log a, (rec env code r log).res = .error a → a.structural = false

variable {B : Builtins} {rec recTop : Rec}

theorem popS_ok {env : Env} {s s' : St} {x : SVal} (h : popS rec env s = .ok x s') :
    s'.stack.length + 1 = s.stack.length := by
  unfold popS at h
  split at h
  · cases h
  · rename_i name rest hs
    rw [hs]
    split at h
    · cases h; simp
    · split at h
      · cases h; simp
      · split at h
        · dsimp only at h
          split at h
          · cases h; simp
          · cases h; simp
        · cases h; simp
  · rename_i x' rest hx hs
    cases h; rw [hs]; simp

theorem popS_fail (hrec : RecClean rec) {env : Env} {s : St} {a : Abort} {l : Log}
    (hne : s.stack ≠ []) (h : popS rec env s = .fail a l) : a.structural = false := by
  unfold popS at h
  split at h
  · rename_i hs; exact absurd hs hne
  · split at h
    · cases h
    · split at h
      · cases h
      · split at h
        · dsimp only at h
          split at h
          · cases h
          · cases h
        · cases h
  · cases h

theorem popV_ok {env : Env} {s s' : St} {v : Val} (h : popV rec env s = .ok v s') :
    s'.stack.length + 1 = s.stack.length := by
  unfold popV at h
  split at h
  · rename_i hp; cases h; exact popS_ok hp
  · cases h
  · cases h

theorem popV_fail (hrec : RecClean rec) {env : Env} {s : St} {a : Abort} {l : Log}
    (hne : s.stack ≠ []) (h : popV rec env s = .fail a l) : a.structural = false := by
  unfold popV at h
  split at h
  · cases h
  · cases h; rfl
  · rename_i hp; cases h; exact popS_fail hrec hne hp

theorem popRaw_ok {s s' : St} {x : SVal} (h : popRaw s = .ok x s') :
    s'.stack.length + 1 = s.stack.length := by
  unfold popRaw at h
  split at h
  · cases h
  · rename_i hs; cases h; rw [hs]; simp

theorem popRaw_fail {s : St} {a : Abort} {l : Log} (hne : s.stack ≠ []) (h : popRaw s = .fail a l) :
    a.structural = false := by
  unfold popRaw at h
  split at h
  · rename_i hs; exact absurd hs hne
  · cases h

theorem ne_nil_of_length {α} {l : List α} {n : Nat} (h : l.length = n + 1) : l ≠ [] := by
  intro e; subst e; simp at h

theorem popN_ok {env : Env} : ∀ {k : Nat} {s s' : St} {vs : List Val},
    popN rec env k s = .ok vs s' → s'.stack.length + k = s.stack.length ∧ vs.length = k
  | 0, s, s', vs, h => by simp [popN] at h; obtain ⟨rfl, rfl⟩ := h; simp
  | k + 1, s, s', vs, h => by
    unfold popN at h
    split at h
    · cases h
    · rename_i v s1 h1
      split at h
      · cases h
      · rename_i vs' s2 h2
        cases h
        have := popV_ok h1
        have := popN_ok h2
        simp; omega

theorem popN_fail (hrec : RecClean rec) {env : Env} : ∀ {k : Nat} {s : St} {a : Abort} {l : Log},
    k ≤ s.stack.length → popN rec env k s = .fail a l → a.structural = false
  | 0, s, a, l, _, h => by simp [popN] at h
  | k + 1, s, a, l, hk, h => by
    unfold popN at h
    split at h
    · rename_i h1; cases h
      exact popV_fail hrec (ne_nil_of_length (n := s.stack.length - 1) (by omega)) h1
    · rename_i v s1 h1
      split at h
      · rename_i h2; cases h
        have := popV_ok h1
        exact popN_fail hrec (by omega) h2
      · cases h

theorem popEntries_ok {env : Env} : ∀ {k : Nat} {s s' : St} {es : Option (List (Str × Val))},
    popEntries rec env k s = .ok es s' → s'.stack.length + 2 * k = s.stack.length
  | 0, s, s', es, h => by simp [popEntries] at h; obtain ⟨_, rfl⟩ := h; simp
  | k + 1, s, s', es, h => by
    unfold popEntries at h
    split at h
    · cases h
    · rename_i key s1 h1
      split at h
      · cases h
      · rename_i v s2 h2
        split at h
        · cases h
        · rename_i es' s3 h3
          have l1 := popV_ok h1
          have l2 := popV_ok h2
          have l3 := popEntries_ok h3
          split at h <;> (cases h; omega)

theorem popEntries_fail (hrec : RecClean rec) {env : Env} : ∀ {k : Nat} {s : St} {a : Abort} {l : Log},
    2 * k ≤ s.stack.length → popEntries rec env k s = .fail a l → a.structural = false
  | 0, s, a, l, _, h => by simp [popEntries] at h
  | k + 1, s, a, l, hk, h => by
    unfold popEntries at h
    split at h
    · rename_i h1; cases h
      exact popV_fail hrec (ne_nil_of_length (n := s.stack.length - 1) (by omega)) h1
    · rename_i key s1 h1
      have l1 := popV_ok h1
      split at h
      · rename_i h2; cases h
        exact popV_fail hrec (ne_nil_of_length (n := s1.stack.length - 1) (by omega)) h2
      · rename_i v s2 h2
        have l2 := popV_ok h2
        split at h
        · rename_i h3; cases h
          exact popEntries_fail hrec (by omega) h3
        · split at h <;> cases h

theorem binop_ok {f : Val → Val → Val} {env : Env} {s s' : St} (h : binop rec f env s = .ok () s') :
    s'.stack.length + 1 = s.stack.length := by
  unfold binop at h
  split at h
  · cases h
  · rename_i v2 s1 h1
    split at h
    · cases h
    · rename_i v1 s2 h2
      cases h
      have := popV_ok h1
      have := popV_ok h2
      simp [pushV]; omega

theorem binop_fail (hrec : RecClean rec) {f : Val → Val → Val} {env : Env} {s : St} {a : Abort} {l : Log}
    (hk : 2 ≤ s.stack.length) (h : binop rec f env s = .fail a l) : a.structural = false := by
  unfold binop at h
  split at h
  · rename_i h1; cases h
    exact popV_fail hrec (ne_nil_of_length (n := s.stack.length - 1) (by omega)) h1
  · rename_i v2 s1 h1
    have := popV_ok h1
    split at h
    · rename_i h2; cases h
      exact popV_fail hrec (ne_nil_of_length (n := s1.stack.length - 1) (by omega)) h2
    · cases h

theorem unop_ok {f : Val → Val} {env : Env} {s s' : St} (h : unop rec f env s = .ok () s') :
    s'.stack.length = s.stack.length := by
  unfold unop at h
  split at h
  · cases h
  · rename_i v s1 h1
    cases h
    have := popV_ok h1
    simp [pushV]; omega

theorem unop_fail (hrec : RecClean rec) {f : Val → Val} {env : Env} {s : St} {a : Abort} {l : Log}
    (hk : 1 ≤ s.stack.length) (h : unop rec f env s = .fail a l) : a.structural = false := by
  unfold unop at h
  split at h
  · rename_i h1; cases h
    exact popV_fail hrec (ne_nil_of_length (n := s.stack.length - 1) (by omega)) h1
  · cases h

theorem resolveArgs_clean (hrec : RecClean rec) (env : Env) (args : List Val) :
    ∀ (log : Log) (a : Abort) (l : Log),
      resolveArgs rec env args log = .error (a, l) → a.structural = false := by
  induction args with
  | nil => intro log a l h; simp [resolveArgs] at h
  | cons v rest ih =>
    intro log a l h
    cases v
    case code c =>
      simp only [resolveArgs] at h
      split at h
      · rename_i hres; cases h; exact hrec _ _ _ _ _ hres
      · split at h
        · rename_i e he; cases h; exact ih _ _ _ he
        · cases h
    all_goals
      simp only [resolveArgs] at h
      split at h
      · rename_i e he; cases h; exact ih _ _ _ he
      · cases h

theorem invoke_ok {env : Env} {c : Callee} {this : Val} {args : List Val} {s s' : St}
    (h : invoke B rec recTop env c this args s = .ok () s') : s'.stack.length = s.stack.length + 1 := by
  unfold invoke at h
  split at h
  · split at h
    · cases h
    · cases h; simp only [pushV, List.length_cons]
  · split at h
    · cases h; simp only [pushV, List.length_cons]
    · cases h; simp only [pushV, List.length_cons]
  · split at h
    · cases h; simp only [pushV, List.length_cons]
    · split at h
      · cases h; simp only [pushV, List.length_cons]
      · cases h

theorem invoke_fail (hrec : RecClean rec) {env : Env} {c : Callee} {this : Val} {args : List Val}
    {s : St} {a : Abort} {l : Log} (h : invoke B rec recTop env c this args s = .fail a l) :
    a.structural = false := by
  unfold invoke at h
  split at h
  · split at h
    · cases h; rfl
    · cases h
  · split at h
    · cases h
    · cases h
  · split at h
    · cases h
    · split at h
      · cases h
      · cases h; rfl

end Rscel
