import RscelModel.Model.Parse
import RscelModel.Lemmas.LexLoc
/-
Every syntax error of the parser model carries a location handed out by its token source
(`Theorems/C18.lean: syntax_error_in_source`).

`SrcOK T I P`: the token source `T` keeps an invariant `I` on its state and only ever reports locations
satisfying `P` (token span ends, error locations, its current location).  `Post` is the post-condition
of every `parse*` function: an error is located at a `P`-location, a success leaves the token source in a
state satisfying `I`.  The claim for all 22 mutually recursive functions is proved by induction on their
common fuel argument (`Claims`).
-/
namespace Rscel

section
variable {σ : Type}

structure SrcOK (T : TokSrc σ) (I : σ → Prop) (P : Loc → Prop) : Prop where
  peek_ok : ∀ {s s' : σ} {t : Option (Tok × Span)}, I s → T.peek s = .ok (t, s') → I s'
  peek_tok : ∀ {s s' : σ} {tk : Tok} {sp : Span}, I s → T.peek s = .ok (some (tk, sp), s') → P sp.s ∧ P sp.e
  peek_err : ∀ {s : σ} {e : LexErr}, I s → T.peek s = .error e → P e.loc
  next_ok : ∀ {s s' : σ} {t : Option (Tok × Span)}, I s → T.next s = .ok (t, s') → I s'
  next_tok : ∀ {s s' : σ} {tk : Tok} {sp : Span}, I s → T.next s = .ok (some (tk, sp), s') → P sp.s ∧ P sp.e
  next_err : ∀ {s : σ} {e : LexErr}, I s → T.next s = .error e → P e.loc
  loc : ∀ {s : σ}, I s → P (T.loc s)

variable {T : TokSrc σ} {I : σ → Prop} {P : Loc → Prop}

/-- Post-condition of a parse function. -/
def Post (I : σ → Prop) (P : Loc → Prop) {α : Type} : PRes σ α → Prop
  | .error e => P e.loc
  | .ok (_, ps) => I ps.ts

theorem Post.ok_inv {α : Type} {r : PRes σ α} {a : α} {ps : PS σ} (h : Post I P r) (e : r = .ok (a, ps)) :
    I ps.ts := by subst e; exact h

theorem Post.err_inv {α : Type} {r : PRes σ α} {er : PErr} (h : Post I P r) (e : r = .error er) :
    P er.loc := by subst e; exact h

theorem pPeek_ok (H : SrcOK T I P) {ps ps1 : PS σ} {t : Option (Tok × Span)} (hi : I ps.ts)
    (e : pPeek T ps = .ok (t, ps1)) : I ps1.ts := by
  unfold pPeek at e
  split at e
  · cases e
  · rename_i t' ts he
    cases e
    exact H.peek_ok hi he

theorem pPeek_tok (H : SrcOK T I P) {ps ps1 : PS σ} {tk : Tok} {sp : Span} (hi : I ps.ts)
    (e : pPeek T ps = .ok (some (tk, sp), ps1)) : P sp.s ∧ P sp.e := by
  unfold pPeek at e
  split at e
  · cases e
  · rename_i t' ts he
    cases e
    exact H.peek_tok hi he

theorem pPeek_err (H : SrcOK T I P) {ps : PS σ} {er : PErr} (hi : I ps.ts)
    (e : pPeek T ps = .error er) : P er.loc := by
  unfold pPeek at e
  split at e
  · rename_i le he
    cases e
    exact H.peek_err hi he
  · cases e

theorem pNext_ok (H : SrcOK T I P) {ps ps1 : PS σ} {t : Option (Tok × Span)} (hi : I ps.ts)
    (e : pNext T ps = .ok (t, ps1)) : I ps1.ts := by
  unfold pNext at e
  split at e
  · cases e
  · rename_i t' ts he
    cases e
    exact H.next_ok hi he

theorem pNext_tok (H : SrcOK T I P) {ps ps1 : PS σ} {tk : Tok} {sp : Span} (hi : I ps.ts)
    (e : pNext T ps = .ok (some (tk, sp), ps1)) : P sp.s ∧ P sp.e := by
  unfold pNext at e
  split at e
  · cases e
  · rename_i t' ts he
    cases e
    exact H.next_tok hi he

theorem pNext_err (H : SrcOK T I P) {ps : PS σ} {er : PErr} (hi : I ps.ts)
    (e : pNext T ps = .error er) : P er.loc := by
  unfold pNext at e
  split at e
  · rename_i le he
    cases e
    exact H.next_err hi he
  · cases e

theorem pFail_post (H : SrcOK T I P) {α : Type} {ps : PS σ} (hi : I ps.ts) :
    Post I P (pFail T ps : PRes σ α) := H.loc hi

theorem enter_post (H : SrcOK T I P) {α : Type} {ps : PS σ} {k : PS σ → PRes σ α} (hi : I ps.ts)
    (hk : ∀ ps1 : PS σ, I ps1.ts → Post I P (k ps1)) : Post I P (enter T ps k) := by
  unfold enter
  split
  · exact H.loc hi
  · have := hk { ps with depth := ps.depth + 1 } hi
    split
    · rename_i e he; rw [he] at this; exact this
    · rename_i a ps' he; rw [he] at this; exact this

@[simp] theorem Post_ok {α : Type} (a : α) (ps : PS σ) : Post I P (.ok (a, ps) : PRes σ α) = I ps.ts := rfl
@[simp] theorem Post_err {α : Type} (e : PErr) : Post I P (.error e : PRes σ α) = P e.loc := rfl

/-- The claim for all parse functions at one fuel value. -/
structure Claims (T : TokSrc σ) (I : σ → Prop) (P : Loc → Prop) (f : Nat) : Prop where
  expr : ∀ ps : PS σ, I ps.ts → Post I P (parseExpr T f ps)
  exprUng : ∀ ps : PS σ, I ps.ts → Post I P (parseExprUng T f ps)
  match_ : ∀ (m : Span) (ps : PS σ), I ps.ts → Post I P (parseMatch T f m ps)
  cases : ∀ (c : Bool) (acc : List MCase) (ps : PS σ), I ps.ts → Post I P (parseCases T f c acc ps)
  pattern : ∀ ps : PS σ, I ps.ts → Post I P (parsePattern T f ps)
  or : ∀ ps : PS σ, I ps.ts → Post I P (parseOr T f ps)
  orLoop : ∀ (l : Ast) (ps : PS σ), I ps.ts → Post I P (parseOrLoop T f l ps)
  and_ : ∀ ps : PS σ, I ps.ts → Post I P (parseAnd T f ps)
  andLoop : ∀ (l : Ast) (ps : PS σ), I ps.ts → Post I P (parseAndLoop T f l ps)
  rel : ∀ ps : PS σ, I ps.ts → Post I P (parseRel T f ps)
  relLoop : ∀ (l : Ast) (ps : PS σ), I ps.ts → Post I P (parseRelLoop T f l ps)
  add : ∀ ps : PS σ, I ps.ts → Post I P (parseAdd T f ps)
  addLoop : ∀ (l : Ast) (ps : PS σ), I ps.ts → Post I P (parseAddLoop T f l ps)
  mul : ∀ ps : PS σ, I ps.ts → Post I P (parseMul T f ps)
  mulLoop : ∀ (l : Ast) (ps : PS σ), I ps.ts → Post I P (parseMulLoop T f l ps)
  unary : ∀ ps : PS σ, I ps.ts → Post I P (parseUnary T f ps)
  opRun : ∀ (op : Tok) (acc : List Span) (ps : PS σ), I ps.ts → Post I P (parseOpRun T f op acc ps)
  member : ∀ ps : PS σ, I ps.ts → Post I P (parseMember T f ps)
  memberLoop : ∀ (p : Prim) (acc : List MOp) (ps : PS σ), I ps.ts → Post I P (parseMemberLoop T f p acc ps)
  exprList : ∀ (e : Tok) (acc : List Ast) (ps : PS σ), I ps.ts → Post I P (parseExprList T f e acc ps)
  objInits : ∀ (acc : List MInit) (ps : PS σ), I ps.ts → Post I P (parseObjInits T f acc ps)
  primary : ∀ ps : PS σ, I ps.ts → Post I P (parsePrimary T f ps)

theorem patPrefix_post (H : SrcOK T I P) {t : Option (Tok × Span)} {ps1 : PS σ} (hi : I ps1.ts) :
    Post I P (patPrefix T t ps1) := by
  unfold patPrefix
  split
  · split
    · split
      · rename_i e he; exact pNext_err H hi he
      · rename_i x p he; exact pNext_ok H hi he
    · exact hi
  · exact hi

theorem ite_minLit_ts (c : Prop) [Decidable c] (ps : PS σ) :
    (if c then { ps with minLit := true } else ps).ts = ps.ts := by split <;> rfl

/-- Proves `I ps.ts` for a parser state `ps` introduced by one of the equations in the context. -/
syntax "pinv" : tactic
macro_rules
  | `(tactic| pinv) => `(tactic|
      first
      | assumption
      | (rw [ite_minLit_ts]; pinv)
      | (dsimp only at ⊢; pinv)
      | (refine Post.ok_inv (patPrefix_post (by assumption) ?_) (by assumption); pinv)
      | (refine pPeek_ok (by assumption) ?_ (by assumption); pinv)
      | (refine pNext_ok (by assumption) ?_ (by assumption); pinv)
      | (refine Post.ok_inv (Claims.or (by assumption) _ ?_) (by assumption); pinv)
      | (refine Post.ok_inv (Claims.and_ (by assumption) _ ?_) (by assumption); pinv)
      | (refine Post.ok_inv (Claims.rel (by assumption) _ ?_) (by assumption); pinv)
      | (refine Post.ok_inv (Claims.add (by assumption) _ ?_) (by assumption); pinv)
      | (refine Post.ok_inv (Claims.mul (by assumption) _ ?_) (by assumption); pinv)
      | (refine Post.ok_inv (Claims.unary (by assumption) _ ?_) (by assumption); pinv)
      | (refine Post.ok_inv (Claims.member (by assumption) _ ?_) (by assumption); pinv)
      | (refine Post.ok_inv (Claims.primary (by assumption) _ ?_) (by assumption); pinv)
      | (refine Post.ok_inv (Claims.expr (by assumption) _ ?_) (by assumption); pinv)
      | (refine Post.ok_inv (Claims.exprUng (by assumption) _ ?_) (by assumption); pinv)
      | (refine Post.ok_inv (Claims.pattern (by assumption) _ ?_) (by assumption); pinv)
      | (refine Post.ok_inv (Claims.opRun (by assumption) _ _ _ ?_) (by assumption); pinv)
      | (refine Post.ok_inv (Claims.exprList (by assumption) _ _ _ ?_) (by assumption); pinv)
      | (refine Post.ok_inv (Claims.objInits (by assumption) _ _ ?_) (by assumption); pinv)
      | (refine Post.ok_inv (Claims.cases (by assumption) _ _ _ ?_) (by assumption); pinv)
      | (refine Post.ok_inv (Claims.match_ (by assumption) _ _ ?_) (by assumption); pinv))

/-- Closes a leaf of the symbolic execution of a parse function. -/
syntax "pclose" : tactic
macro_rules
  | `(tactic| pclose) => `(tactic|
      first
      | pinv
      | (refine pFail_post (by assumption) ?_; pinv)
      | (refine SrcOK.loc (by assumption) ?_; pinv)
      | (refine pPeek_err (by assumption) ?_ (by assumption); pinv)
      | (refine pNext_err (by assumption) ?_ (by assumption); pinv)
      | (refine Post.err_inv (patPrefix_post (by assumption) ?_) (by assumption); pinv)
      | (refine (pPeek_tok (by assumption) ?_ (by assumption)).1; pinv)
      | (refine (pNext_tok (by assumption) ?_ (by assumption)).1; pinv)
      | (refine Post.err_inv (Claims.or (by assumption) _ ?_) (by assumption); pinv)
      | (refine Post.err_inv (Claims.and_ (by assumption) _ ?_) (by assumption); pinv)
      | (refine Post.err_inv (Claims.rel (by assumption) _ ?_) (by assumption); pinv)
      | (refine Post.err_inv (Claims.add (by assumption) _ ?_) (by assumption); pinv)
      | (refine Post.err_inv (Claims.mul (by assumption) _ ?_) (by assumption); pinv)
      | (refine Post.err_inv (Claims.unary (by assumption) _ ?_) (by assumption); pinv)
      | (refine Post.err_inv (Claims.member (by assumption) _ ?_) (by assumption); pinv)
      | (refine Post.err_inv (Claims.primary (by assumption) _ ?_) (by assumption); pinv)
      | (refine Post.err_inv (Claims.expr (by assumption) _ ?_) (by assumption); pinv)
      | (refine Post.err_inv (Claims.exprUng (by assumption) _ ?_) (by assumption); pinv)
      | (refine Post.err_inv (Claims.pattern (by assumption) _ ?_) (by assumption); pinv)
      | (refine Post.err_inv (Claims.opRun (by assumption) _ _ _ ?_) (by assumption); pinv)
      | (refine Post.err_inv (Claims.exprList (by assumption) _ _ _ ?_) (by assumption); pinv)
      | (refine Post.err_inv (Claims.objInits (by assumption) _ _ ?_) (by assumption); pinv)
      | (refine Post.err_inv (Claims.cases (by assumption) _ _ _ ?_) (by assumption); pinv)
      | (refine Post.err_inv (Claims.match_ (by assumption) _ _ ?_) (by assumption); pinv)
      | (refine Claims.orLoop (by assumption) _ _ ?_; pinv)
      | (refine Claims.andLoop (by assumption) _ _ ?_; pinv)
      | (refine Claims.relLoop (by assumption) _ _ ?_; pinv)
      | (refine Claims.addLoop (by assumption) _ _ ?_; pinv)
      | (refine Claims.mulLoop (by assumption) _ _ ?_; pinv)
      | (refine Claims.memberLoop (by assumption) _ _ _ ?_; pinv)
      | (refine Claims.member (by assumption) _ ?_; pinv)
      | (refine Claims.match_ (by assumption) _ _ ?_; pinv)
      | (refine Claims.cases (by assumption) _ _ _ ?_; pinv)
      | (refine Claims.exprList (by assumption) _ _ _ ?_; pinv)
      | (refine Claims.objInits (by assumption) _ _ ?_; pinv))

variable (H : SrcOK T I P) {f : Nat} (C : Claims T I P f)
include H C

/-- Symbolic execution of one unfolding of a parse function: split every match, close every leaf. -/
syntax "psym" : tactic
macro_rules
  | `(tactic| psym) => `(tactic|
      ((repeat' split) <;> (try simp only [Post_ok, Post_err]) <;> first | pclose | trace_state))

set_option linter.unusedSectionVars false
set_option linter.unusedSimpArgs false

theorem step_or : ∀ ps, I ps.ts → Post I P (parseOr T (f + 1) ps) := by
  intro ps hi
  simp only [parseOr]
  psym

theorem step_orLoop : ∀ l ps, I ps.ts → Post I P (parseOrLoop T (f + 1) l ps) := by
  intro l ps hi
  simp only [parseOrLoop]
  psym

theorem step_and_ : ∀ ps, I ps.ts → Post I P (parseAnd T (f + 1) ps) := by
  intro ps hi
  simp only [parseAnd]
  psym

theorem step_andLoop : ∀ l ps, I ps.ts → Post I P (parseAndLoop T (f + 1) l ps) := by
  intro l ps hi
  simp only [parseAndLoop]
  psym

theorem step_rel : ∀ ps, I ps.ts → Post I P (parseRel T (f + 1) ps) := by
  intro ps hi
  simp only [parseRel]
  psym

theorem step_relLoop : ∀ l ps, I ps.ts → Post I P (parseRelLoop T (f + 1) l ps) := by
  intro l ps hi
  simp only [parseRelLoop]
  psym

theorem step_add : ∀ ps, I ps.ts → Post I P (parseAdd T (f + 1) ps) := by
  intro ps hi
  simp only [parseAdd]
  psym

theorem step_addLoop : ∀ l ps, I ps.ts → Post I P (parseAddLoop T (f + 1) l ps) := by
  intro l ps hi
  simp only [parseAddLoop]
  psym

theorem step_mul : ∀ ps, I ps.ts → Post I P (parseMul T (f + 1) ps) := by
  intro ps hi
  simp only [parseMul]
  psym

theorem step_mulLoop : ∀ l ps, I ps.ts → Post I P (parseMulLoop T (f + 1) l ps) := by
  intro l ps hi
  simp only [parseMulLoop]
  psym

theorem step_member : ∀ ps, I ps.ts → Post I P (parseMember T (f + 1) ps) := by
  intro ps hi
  simp only [parseMember]
  psym

theorem step_exprUng : ∀ ps, I ps.ts → Post I P (parseExprUng T (f + 1) ps) := by
  intro ps hi
  simp only [parseExprUng]
  psym

theorem step_match_ : ∀ m ps, I ps.ts → Post I P (parseMatch T (f + 1) m ps) := by
  intro m ps hi
  simp only [parseMatch]
  psym

theorem step_cases : ∀ c acc ps, I ps.ts → Post I P (parseCases T (f + 1) c acc ps) := by
  intro c acc ps hi
  simp only [parseCases]
  psym

theorem step_exprList : ∀ e acc ps, I ps.ts → Post I P (parseExprList T (f + 1) e acc ps) := by
  intro e acc ps hi
  simp only [parseExprList]
  psym

theorem step_objInits : ∀ acc ps, I ps.ts → Post I P (parseObjInits T (f + 1) acc ps) := by
  intro acc ps hi
  simp only [parseObjInits]
  psym

theorem step_memberLoop : ∀ p acc ps, I ps.ts → Post I P (parseMemberLoop T (f + 1) p acc ps) := by
  intro p acc ps hi
  simp only [parseMemberLoop]
  psym

theorem step_unary : ∀ ps, I ps.ts → Post I P (parseUnary T (f + 1) ps) := by
  intro ps hi
  simp only [parseUnary]
  psym

theorem step_opRun : ∀ op acc ps, I ps.ts → Post I P (parseOpRun T (f + 1) op acc ps) := by
  intro op acc ps hi
  simp only [parseOpRun]
  psym

theorem step_pattern : ∀ ps, I ps.ts → Post I P (parsePattern T (f + 1) ps) := by
  intro ps hi
  simp only [parsePattern]
  psym

theorem step_primary : ∀ ps, I ps.ts → Post I P (parsePrimary T (f + 1) ps) := by
  intro ps hi
  simp only [parsePrimary]
  psym


theorem step_expr : ∀ ps, I ps.ts → Post I P (parseExpr T (f + 1) ps) := by
  intro ps hi
  simp only [parseExpr]
  exact enter_post H hi (fun ps1 h1 => C.exprUng ps1 h1)

omit C in
theorem claims_zero : Claims T I P 0 := by
  constructor <;> intros <;> simp only [parseExpr, parseExprUng, parseMatch, parseCases, parsePattern, parseOr,
    parseOrLoop, parseAnd, parseAndLoop, parseRel, parseRelLoop, parseAdd, parseAddLoop, parseMul,
    parseMulLoop, parseUnary, parseOpRun, parseMember, parseMemberLoop, parseExprList, parseObjInits,
    parsePrimary] <;> exact pFail_post H (by assumption)

theorem claims_succ : Claims T I P (f + 1) where
  expr := step_expr H C
  exprUng := step_exprUng H C
  match_ := step_match_ H C
  cases := step_cases H C
  pattern := step_pattern H C
  or := step_or H C
  orLoop := step_orLoop H C
  and_ := step_and_ H C
  andLoop := step_andLoop H C
  rel := step_rel H C
  relLoop := step_relLoop H C
  add := step_add H C
  addLoop := step_addLoop H C
  mul := step_mul H C
  mulLoop := step_mulLoop H C
  unary := step_unary H C
  opRun := step_opRun H C
  member := step_member H C
  memberLoop := step_memberLoop H C
  exprList := step_exprList H C
  objInits := step_objInits H C
  primary := step_primary H C

omit C in
theorem claims_all : ∀ n, Claims T I P n
  | 0 => claims_zero H
  | n + 1 => claims_succ H (claims_all n)

omit C in
/-- **Every syntax error of `parseProgram` is located at a location of the token source** (any token
    source satisfying `SrcOK`). -/
theorem parseProgram_err (src : Str) (h0 : I (T.ofText src)) {e : PErr}
    (he : parseProgram T src = .error e) : P e.loc := by
  have C := claims_all H (I := I) (P := P) (T := T) (parseFuel src.length)
  unfold parseProgram parseFrom at he
  have hp := C.expr { ts := T.ofText src, depth := 0, minLit := false } h0
  split at he
  · rename_i e' he'
    cases he
    exact Post.err_inv hp he'
  · rename_i a ps he'
    have hi : I ps.ts := Post.ok_inv hp he'
    split at he
    · rename_i e' hpk; cases he; exact pPeek_err H hi hpk
    · cases he
    · rename_i tok ps' hpk
      cases he
      exact H.loc (pPeek_ok H hi hpk)

end

/-! ### the lazy string tokenizer is such a token source -/

/-- A location of `src`: the location of a scanner state reached from the start of `src`. -/
def PosSrc (src : List Char) (l : Loc) : Prop := PosFrom ⟨src, ⟨0, 0⟩⟩ l

/-- Invariant of the lazy tokenizer on `src`: the scanner has been reached from the start, and the token
    of lookahead (if any) has a span made of locations of `src`. -/
def LazyInv (src : List Char) (s : LazyTok) : Prop :=
  Reach src s.scan ∧ ∀ tk sp, s.cur = some (tk, sp) → PosSrc src sp.s ∧ PosSrc src sp.e

theorem lexToken_inv {src : List Char} {sc : Scan} (hr : Reach src sc) :
    match lexToken sc with
    | .error e => PosSrc src e.loc
    | .ok (t, sc') => Reach src sc' ∧ ∀ tk sp, t = some (tk, sp) → PosSrc src sp.s ∧ PosSrc src sp.e := by
  have hp := lexToken_post sc
  rcases hlt : lexToken sc with e | ⟨_ | ⟨tk, sp⟩, sc'⟩
  · rw [hlt] at hp
    exact PosFrom.mono hr hp
  · rw [hlt] at hp
    exact ⟨Steps.trans hr hp, by intro tk sp h; cases h⟩
  · rw [hlt] at hp
    obtain ⟨sa, h0, hs, h1, hE⟩ := hp
    refine ⟨Steps.trans hr (h0.trans h1.steps), ?_⟩
    intro tk' sp' h
    cases h
    exact ⟨⟨sa, Steps.trans hr h0, hs⟩, ⟨sc', Steps.trans hr (h0.trans h1.steps), hE⟩⟩

theorem lazySrc_ok (src : List Char) : SrcOK lazySrc (LazyInv src) (PosSrc src) where
  peek_ok := by
    intro s s' t hi h
    simp only [lazySrc] at h
    split at h
    · cases h; exact hi
    · have := lexToken_inv hi.1
      split at h
      · cases h
      · rename_i t' sc he
        rw [he] at this
        cases h
        exact ⟨this.1, this.2⟩
  peek_tok := by
    intro s s' tk sp hi h
    simp only [lazySrc] at h
    split at h
    · rename_i t hc
      cases h
      exact hi.2 tk sp hc
    · have := lexToken_inv hi.1
      split at h
      · cases h
      · rename_i t' sc he
        rw [he] at this
        cases h
        exact this.2 tk sp rfl
  peek_err := by
    intro s e hi h
    simp only [lazySrc] at h
    split at h
    · cases h
    · have := lexToken_inv hi.1
      split at h
      · rename_i e' he
        rw [he] at this
        cases h
        exact this
      · cases h
  next_ok := by
    intro s s' t hi h
    simp only [lazySrc] at h
    split at h
    · cases h; exact ⟨hi.1, by intro tk sp hc; cases hc⟩
    · have := lexToken_inv hi.1
      split at h
      · cases h
      · rename_i t' sc he
        rw [he] at this
        cases h
        exact ⟨this.1, by intro tk sp hc; cases hc⟩
  next_tok := by
    intro s s' tk sp hi h
    simp only [lazySrc] at h
    split at h
    · rename_i t hc
      cases h
      exact hi.2 tk sp hc
    · have := lexToken_inv hi.1
      split at h
      · cases h
      · rename_i t' sc he
        rw [he] at this
        cases h
        exact this.2 tk sp rfl
  next_err := by
    intro s e hi h
    simp only [lazySrc] at h
    split at h
    · cases h
    · have := lexToken_inv hi.1
      split at h
      · rename_i e' he
        rw [he] at this
        cases h
        exact this
      · cases h
  loc := by
    intro s hi
    exact ⟨s.scan, hi.1, rfl⟩

theorem lazySrc_init (src : List Char) : LazyInv src (lazySrc.ofText src) :=
  ⟨Steps.refl _, by intro tk sp h; cases h⟩

end Rscel
