import RscelModel.Model.Spec
/-
Sequencing lemmas for the VM's instruction loop.

`Go code k a sin b sout`: inside any larger block `pre ++ code ++ post`, from the instruction at offset
`a` of `code` with the stack `sin ++ st`, the loop reaches offset `b` of `code` with the stack
`sout ++ st` after exactly `k` instructions — for every `pre`, `post`, rest of the stack `st` (which is
never touched), log (unchanged) and remaining fuel.

`Runs code env v`: `code` runs from its first instruction to its end in at most `code.length` steps and
leaves one new stack entry that denotes `v` (an identifier entry is resolved when it is popped, so the
entry `w` satisfies `resolve env w = v`).

The environment has no stored programs and is not the interpreter whose unresolved-name flag is read
(`NoProgs`): popping an identifier never starts a nested run and leaves no marker, so `rec`/`top` are
arbitrary and the log never changes.  (The compile-time run of `check_for_const`, which does record the
flag, is related to such an environment by `Lemmas/Unres.lean`.)
-/
namespace Rscel
namespace Seq

/-- No name resolves to a stored program, and the environment is not the one interpreter whose
    unresolved-name flag is recorded (`check_for_const`'s): every run-time environment. -/
structure NoProgs (env : Env) : Prop where
  prog : ∀ n, env.getProg n = none
  untracked : env.trackUnres = false

theorem noProgs_of_nil {env : Env} (h : env.progs = []) (ht : env.trackUnres = false := by rfl) : NoProgs env :=
  ⟨fun n => by simp [Env.getProg, h, lookup], ht⟩

/-- The value `pop` returns for the stack entry `.val w`. -/
def resolve (env : Env) : Val → Val
  | .ident n => resolveIdent env n
  | v => v

/-- Values that `pop` returns unchanged. -/
def Plain (v : Val) : Prop := ∀ n, v ≠ .ident n

theorem resolve_plain {env : Env} {v : Val} (h : Plain v) : resolve env v = v := by
  cases v <;> first | rfl | exact absurd rfl (h _)

theorem plain_bool (b : Bool) : Plain (.bool b) := fun _ h => by cases h
theorem plain_err (k : ErrKind) : Plain (.err k) := fun _ h => by cases h

theorem plain_vTest (v : Val) : Plain (vTest v) := by
  cases v <;> simp [vTest, Plain]
theorem plain_vNot (v : Val) : Plain (vNot v) := by
  cases v <;> simp [vNot, Plain]
theorem plain_neg (v : Val) : Plain (neg v) := by
  cases v <;> simp [neg, Plain, narrowI] <;> split <;> simp
theorem plain_errProp {f : Val → Val → Val} (hf : ∀ a b, Plain (f a b)) (a b : Val) :
    Plain (errProp a b f) := by
  unfold errProp
  split
  · exact plain_err _
  · split
    · exact plain_err _
    · exact hf _ _
theorem plain_vAnd (a b : Val) : Plain (vAnd a b) :=
  plain_errProp (fun _ _ => plain_bool _) a b
theorem plain_vOr (a b : Val) : Plain (vOr a b) := by
  unfold vOr
  split
  · split <;> first | exact plain_bool _ | exact plain_err _
  · split <;> first | exact plain_bool _ | exact plain_err _
  · exact plain_bool _

section
variable {B : Builtins} {rec top : Rec} {env : Env}

theorem popV_resolve (h : NoProgs env) (w : Val) (st : List SVal) (log : Log) :
    popV rec env { stack := .val w :: st, log := log } = .ok (resolve env w) { stack := st, log := log } := by
  cases w
  case ident n =>
    simp only [popV, popS, resolve, resolveIdent, h.prog n, markUnres_untracked h.untracked]
    cases env.getType n <;> simp
    cases env.getParam n <;> simp
  all_goals simp [popV, popS, resolve]

theorem loop_step (code : List Instr) (fuel pc : Nat) (s : St) (i : Instr) (h : code[pc]? = some i) :
    loop B rec top env code (fuel + 1) pc s =
      match step B rec top env code.length i (pc + 1) s with
      | .fail a l => .fail a l
      | .ok pc' s' => loop B rec top env code fuel pc' s' := by
  rw [loop]; simp only [h]; rfl

end

section
variable (B : Builtins) (rec top : Rec) (env : Env)

def Go (code : List Instr) (k a : Nat) (sin : List SVal) (b : Nat) (sout : List SVal) : Prop :=
  ∀ (pre post : List Instr) (st : List SVal) (log : Log) (fuel : Nat),
    loop B rec top env (pre ++ code ++ post) (fuel + k) (pre.length + a) { stack := sin ++ st, log := log } =
    loop B rec top env (pre ++ code ++ post) fuel (pre.length + b) { stack := sout ++ st, log := log }

/-- `code` pushes one entry denoting `v`, running from its start to its end in at most `code.length` steps. -/
def Runs (code : List Instr) (v : Val) : Prop :=
  ∃ w k, resolve env w = v ∧ k ≤ code.length ∧ Go B rec top env code k 0 [] code.length [.val w]

end

section
variable {B : Builtins} {rec top : Rec} {env : Env}

theorem Go.refl (code : List Instr) (a : Nat) (s : List SVal) : Go B rec top env code 0 a s a s := by
  intro pre post st log fuel; rfl

theorem Go.cast {code : List Instr} {k k' a a' b b' : Nat} {s0 s1 : List SVal}
    (h : Go B rec top env code k a s0 b s1) (hk : k = k') (ha : a = a') (hb : b = b') :
    Go B rec top env code k' a' s0 b' s1 := by
  subst hk ha hb; exact h

theorem Go.trans {code : List Instr} {k1 k2 a b c : Nat} {s0 s1 s2 : List SVal}
    (h1 : Go B rec top env code k1 a s0 b s1) (h2 : Go B rec top env code k2 b s1 c s2) :
    Go B rec top env code (k1 + k2) a s0 c s2 := by
  intro pre post st log fuel
  have e : fuel + (k1 + k2) = (fuel + k2) + k1 := by omega
  rw [e, h1 pre post st log (fuel + k2), h2 pre post st log fuel]

theorem Go.frame {code : List Instr} {k a b : Nat} {s0 s1 : List SVal} (fr : List SVal)
    (h : Go B rec top env code k a s0 b s1) : Go B rec top env code k a (s0 ++ fr) b (s1 ++ fr) := by
  intro pre post st log fuel
  have := h pre post (fr ++ st) log fuel
  simpa only [List.append_assoc] using this

theorem Go.skip_app {r : List Instr} {k a b : Nat} {s0 s1 : List SVal} (l : List Instr)
    (h : Go B rec top env r k a s0 b s1) :
    Go B rec top env (l ++ r) k (l.length + a) s0 (l.length + b) s1 := by
  intro pre post st log fuel
  have := h (pre ++ l) post st log fuel
  simpa only [List.append_assoc, List.length_append, Nat.add_assoc] using this

theorem Go.skip_cons {r : List Instr} {k a b : Nat} {s0 s1 : List SVal} (i : Instr)
    (h : Go B rec top env r k a s0 b s1) :
    Go B rec top env (i :: r) k (a + 1) s0 (b + 1) s1 := by
  have := Go.skip_app [i] h
  exact this.cast rfl (by simp <;> omega) (by simp <;> omega)

theorem Go.head_app {c : List Instr} {k a b : Nat} {s0 s1 : List SVal} (r : List Instr)
    (h : Go B rec top env c k a s0 b s1) : Go B rec top env (c ++ r) k a s0 b s1 := by
  intro pre post st log fuel
  have := h pre (r ++ post) st log fuel
  simpa only [List.append_assoc] using this

/-- One instruction at the head of `i :: r`; the step function is given the real block length and `pc`. -/
theorem Go.instr {i : Instr} {r : List Instr} {sin sout : List SVal} {b : Nat}
    (hs : ∀ (pre post : List Instr) (st : List SVal) (log : Log),
      step B rec top env (pre ++ (i :: r) ++ post).length i (pre.length + 0 + 1) { stack := sin ++ st, log := log } =
        .ok (pre.length + b) { stack := sout ++ st, log := log }) :
    Go B rec top env (i :: r) 1 0 sin b sout := by
  intro pre post st log fuel
  have hget : (pre ++ (i :: r) ++ post)[pre.length + 0]? = some i := by simp
  rw [loop_step _ _ _ _ _ hget, hs]


/-! ### single instructions -/

theorem jumpTarget_eq {pc len n t : Nat} {d : Int} (hd : d = n) (ht : t = pc + n) (h : pc + n ≤ len) :
    jumpTarget pc d len = some t := by
  subst hd ht
  simp only [jumpTarget]
  have h1 : ¬ ((pc : Int) + (n : Int) < 0) := by omega
  have h2 : ¬ ((pc : Int) + (n : Int) > (len : Int)) := by omega
  simp [h1, h2]
  omega

theorem go_push (v : Val) (r : List Instr) : Go B rec top env (.push v :: r) 1 0 [] 1 [.val v] :=
  Go.instr (fun pre post st log => by simp [step, pushV])

theorem go_unop (hnp : NoProgs env) {i : Instr} {f : Val → Val}
    (hi : ∀ len pc s, step B rec top env len i pc s = liftNext pc (unop rec f env s))
    (w : Val) (r : List Instr) :
    Go B rec top env (i :: r) 1 0 [.val w] 1 [.val (f (resolve env w))] :=
  Go.instr (fun pre post st log => by simp [hi, unop, popV_resolve hnp, liftNext, pushV])

theorem go_binop (hnp : NoProgs env) {i : Instr} {f : Val → Val → Val}
    (hi : ∀ len pc s, step B rec top env len i pc s = liftNext pc (binop rec f env s))
    (w1 w2 : Val) (r : List Instr) :
    Go B rec top env (i :: r) 1 0 [.val w2, .val w1] 1 [.val (f (resolve env w1) (resolve env w2))] :=
  Go.instr (fun pre post st log => by simp [hi, binop, popV_resolve hnp, liftNext, pushV])

theorem go_pop (hnp : NoProgs env) (w : Val) (r : List Instr) :
    Go B rec top env (.pop :: r) 1 0 [.val w] 1 [] :=
  Go.instr (fun pre post st log => by simp [step, popV_resolve hnp, liftNext])

theorem go_dup (hnp : NoProgs env) (w : Val) (r : List Instr) :
    Go B rec top env (.dup :: r) 1 0 [.val w] 1 [.val (resolve env w), .val (resolve env w)] :=
  Go.instr (fun pre post st log => by simp [step, popV_resolve hnp, pushV])

theorem go_jmp {d : Int} {n : Nat} (hd : d = n) {r : List Instr} (hn : n ≤ r.length) :
    Go B rec top env (.jmp d :: r) 1 0 [] (1 + n) [] :=
  Go.instr (fun pre post st log => by
    have : jumpTarget (pre.length + 0 + 1) d (pre ++ (.jmp d :: r) ++ post).length = some (pre.length + (1 + n)) :=
      jumpTarget_eq hd (by omega) (by simp <;> omega)
    simp only [step, List.nil_append, this])

/-- The values a conditional jump accepts. -/
def BoolOrErr (v : Val) : Prop := (∃ b, v = .bool b) ∨ (∃ k, v = .err k)

theorem boolOrErr_vTest (v : Val) : BoolOrErr (vTest v) := by
  cases v <;> simp [vTest, BoolOrErr]
theorem boolOrErr_vNot (v : Val) : BoolOrErr (vNot v) := by
  cases v <;> simp [vNot, BoolOrErr]

theorem plain_of_boe {v : Val} (h : BoolOrErr v) : Plain v := by
  rcases h with ⟨b, rfl⟩ | ⟨k, rfl⟩
  · exact plain_bool _
  · exact plain_err _

/-- Does `JMPCOND wf` jump on the popped value. -/
def jumps (wf : Bool) : Val → Bool
  | .bool b => b == wf
  | .err _ => wf == false
  | _ => false

theorem go_jmpCond (hnp : NoProgs env) {wf : Bool} {d : Int} {n : Nat} (hd : d = n) {r : List Instr}
    (hn : n ≤ r.length) (x : Val) (hv : BoolOrErr (resolve env x)) :
    Go B rec top env (.jmpCond wf d :: r) 1 0 [.val x] (if jumps wf (resolve env x) then 1 + n else 1) [] :=
  Go.instr (fun pre post st log => by
    have hj : jumpTarget (pre.length + 0 + 1) d (pre ++ (.jmpCond wf d :: r) ++ post).length = some (pre.length + (1 + n)) :=
      jumpTarget_eq hd (by omega) (by simp <;> omega)
    rcases hv with ⟨b, hb⟩ | ⟨k, hk⟩
    · simp only [step, List.cons_append, List.nil_append, popV_resolve hnp, hb, jumps, hj]
      by_cases h : (b == wf) = true <;> simp [h]
    · simp only [step, List.cons_append, List.nil_append, popV_resolve hnp, hk, jumps, hj]
      by_cases h : (wf == false) = true <;> simp [h])

theorem popN_resolve (hnp : NoProgs env) (ws : List Val) (st : List SVal) (log : Log) :
    popN rec env ws.length { stack := ws.map .val ++ st, log := log } =
      .ok (ws.map (resolve env)) { stack := st, log := log } := by
  induction ws with
  | nil => simp [popN]
  | cons w ws ih => simp [popN, popV_resolve hnp, ih]

theorem go_mkList (hnp : NoProgs env) (ws : List Val) (r : List Instr) :
    Go B rec top env (.mkList ws.length :: r) 1 0 (ws.map .val) 1 [.val (.list (ws.map (resolve env)).reverse)] :=
  Go.instr (fun pre post st log => by simp [step, popN_resolve hnp, pushV])

/-! ### `Runs`: composition -/

theorem runs_push_any (w : Val) : Runs B rec top env [.push w] (resolve env w) :=
  ⟨w, 1, rfl, by simp, go_push w []⟩

theorem runs_push {v : Val} (hv : Plain v) : Runs B rec top env [.push v] v := by
  have := runs_push_any (B := B) (rec := rec) (top := top) (env := env) v
  rwa [resolve_plain hv] at this

theorem runs_ident (n : Str) : Runs B rec top env [.push (.ident n)] (resolveIdent env n) :=
  runs_push_any (.ident n)

/-- `c; OP` for a one-operand instruction. -/
theorem runs_unop (hnp : NoProgs env) {i : Instr} {f : Val → Val}
    (hi : ∀ len pc s, step B rec top env len i pc s = liftNext pc (unop rec f env s))
    (hf : ∀ a, Plain (f a)) {c : List Instr} {v : Val} (hc : Runs B rec top env c v) :
    Runs B rec top env (c ++ [i]) (f v) := by
  obtain ⟨w, k, rfl, hk, g⟩ := hc
  refine ⟨f (resolve env w), k + 1, resolve_plain (hf _), by simp <;> omega, ?_⟩
  have g1 := g.head_app [i]
  have g2 := (go_unop hnp hi w []).skip_app c
  exact (g1.trans (g2.cast rfl (by omega) rfl)).cast rfl rfl (by simp)

/-- `c; OP; …; OP` (a `!`- or `-`-run). -/
theorem runs_unrun (hnp : NoProgs env) {i : Instr} {f : Val → Val}
    (hi : ∀ len pc s, step B rec top env len i pc s = liftNext pc (unop rec f env s))
    (hf : ∀ a, Plain (f a)) {c : List Instr} {v : Val} (hc : Runs B rec top env c v) (n : Nat) :
    Runs B rec top env (c ++ List.replicate n i) (applyN f n v) := by
  induction n with
  | zero => simpa [applyN] using hc
  | succ n ih =>
    have := runs_unop hnp hi hf ih
    rw [List.append_assoc, ← List.replicate_succ'] at this
    exact this

/-- `l; r; OP` for a two-operand instruction (both operands are always evaluated). -/
theorem runs_binop (hnp : NoProgs env) {i : Instr} {f : Val → Val → Val}
    (hi : ∀ len pc s, step B rec top env len i pc s = liftNext pc (binop rec f env s))
    (hf : ∀ a b, Plain (f a b)) {l r : List Instr} {a b : Val}
    (hl : Runs B rec top env l a) (hr : Runs B rec top env r b) :
    Runs B rec top env (l ++ r ++ [i]) (f a b) := by
  obtain ⟨wl, kl, rfl, hkl, gl⟩ := hl
  obtain ⟨wr, kr, rfl, hkr, gr⟩ := hr
  refine ⟨f (resolve env wl) (resolve env wr), kl + kr + 1, resolve_plain (hf _ _), by simp <;> omega, ?_⟩
  rw [List.append_assoc]
  have g1 := gl.head_app (r ++ [i])
  have g2 := (((gr.head_app [i]).skip_app l).frame [.val wl])
  have g3 := ((go_binop hnp hi wl wr []).skip_app r).skip_app l
  exact ((g1.trans (g2.cast rfl (by omega) rfl)).trans (g3.cast rfl (by omega) rfl)).cast rfl rfl (by simp <;> omega)


/-! ### `||` / `&&` chains -/

/-- Value of `x` followed by the chain tail over operands with values `vs`: before each further operand
    the accumulated value is tested; if the conditional jump fires the tested value is the result of the
    whole chain (every jump goes to the end), otherwise the operator combines it with the next operand. -/
def chainVal (wf : Bool) (f : Val → Val → Val) : Val → List Val → Val
  | x, [] => x
  | x, v :: vs => if jumps wf (vTest x) then vTest x else chainVal wf f (f (vTest x) v) vs

theorem step_test (len pc : Nat) (s : St) :
    step B rec top env len .test pc s = liftNext pc (unop rec vTest env s) := rfl

/-- The chain tail: started with one entry on the stack it ends at its own end, whichever jump fires. -/
theorem go_chainTail (hnp : NoProgs env) {wf : Bool} {opi : Instr} {f : Val → Val → Val}
    (hi : ∀ len pc s, step B rec top env len opi pc s = liftNext pc (binop rec f env s))
    (hf : ∀ a b, Plain (f a b))
    (cvs : List (List Instr × Val)) (hcv : ∀ p ∈ cvs, Runs B rec top env p.1 p.2) :
    ∀ w0 : Val, ∃ w' k, resolve env w' = chainVal wf f (resolve env w0) (cvs.map (·.2)) ∧
      k ≤ (chainTail wf opi (cvs.map (·.1))).length ∧
      Go B rec top env (chainTail wf opi (cvs.map (·.1))) k 0 [.val w0]
        (chainTail wf opi (cvs.map (·.1))).length [.val w'] := by
  induction cvs with
  | nil => intro w0; exact ⟨w0, 0, rfl, by simp, by simpa [chainTail] using Go.refl [] 0 [.val w0]⟩
  | cons p cvs ih =>
    obtain ⟨c, v⟩ := p
    intro w0
    have ih' := ih (fun q hq => hcv q (List.mem_cons_of_mem _ hq))
    obtain ⟨wc, kc, hwc, hkc, gc⟩ := hcv (c, v) (List.mem_cons_self ..)
    dsimp only at hwc hkc gc
    simp only [List.map_cons, chainTail]
    generalize chainTail wf opi (cvs.map (·.1)) = T at ih' ⊢
    have hcode : [Instr.test, .dup, .jmpCond wf (↑c.length + 1 + ↑T.length)] ++ c ++ [opi] ++ T =
        .test :: .dup :: .jmpCond wf (↑c.length + 1 + ↑T.length) :: (c ++ opi :: T) := by simp
    rw [hcode]
    have ht := resolve_plain (env := env) (plain_vTest (resolve env w0))
    generalize htdef : vTest (resolve env w0) = t at ht
    have g1 := go_unop (B := B) (rec := rec) (top := top) hnp step_test w0 (.dup :: .jmpCond wf (↑c.length + 1 + ↑T.length) :: (c ++ opi :: T))
    rw [htdef] at g1
    have g2 := (go_dup (B := B) (rec := rec) (top := top) hnp t (.jmpCond wf (↑c.length + 1 + ↑T.length) :: (c ++ opi :: T))).skip_cons .test
    rw [ht] at g2
    have hv : BoolOrErr (resolve env t) := by rw [ht, ← htdef]; exact boolOrErr_vTest _
    have g3 := ((((go_jmpCond (B := B) (rec := rec) (top := top) hnp (wf := wf) (d := ↑c.length + 1 + ↑T.length) (n := c.length + 1 + T.length)
      (by omega) (r := c ++ opi :: T) (by simp <;> omega) t hv).skip_cons .dup).skip_cons .test).frame [.val t])
    rw [ht] at g3
    have g123 := (g1.trans g2).trans g3
    by_cases hj : jumps wf t = true
    · refine ⟨t, 3, ?_, by simp, ?_⟩
      · simp [chainVal, htdef, hj, ht]
      · rw [if_pos hj] at g123
        exact g123.cast rfl rfl (by simp <;> omega)
    · obtain ⟨w', k', hw', hk', gT⟩ := ih' (f t v)
      rw [resolve_plain (hf _ _)] at hw'
      refine ⟨w', 3 + kc + 1 + k', ?_, by simp <;> omega, ?_⟩
      · simp [chainVal, htdef, hj, hw']
      · rw [if_neg hj] at g123
        have g4 := ((((gc.head_app (opi :: T)).skip_cons (.jmpCond wf (↑c.length + 1 + ↑T.length))).skip_cons
          .dup).skip_cons .test).frame [.val t]
        have g5 := ((((go_binop (B := B) (rec := rec) (top := top) hnp hi t wc T).skip_app c).skip_cons (.jmpCond wf (↑c.length + 1 + ↑T.length))).skip_cons
          .dup).skip_cons .test
        rw [ht, hwc] at g5
        have g6 := (((((gT.skip_cons opi).skip_app c).skip_cons (.jmpCond wf (↑c.length + 1 + ↑T.length))).skip_cons
          .dup).skip_cons .test)
        exact (((g123.trans (g4.cast rfl (by omega) rfl)).trans (g5.cast rfl (by omega) rfl)).trans
          (g6.cast rfl (by omega) rfl)).cast (by omega) rfl (by simp <;> omega)

/-- `first; chainTail rest`: the code of an `||` (`wf = true`) / `&&` (`wf = false`) chain. -/
theorem runs_chain (hnp : NoProgs env) {wf : Bool} {opi : Instr} {f : Val → Val → Val}
    (hi : ∀ len pc s, step B rec top env len opi pc s = liftNext pc (binop rec f env s))
    (hf : ∀ a b, Plain (f a b)) {first : List Instr} {v0 : Val} (h0 : Runs B rec top env first v0)
    (cvs : List (List Instr × Val)) (hcv : ∀ p ∈ cvs, Runs B rec top env p.1 p.2) :
    Runs B rec top env (first ++ chainTail wf opi (cvs.map (·.1))) (chainVal wf f v0 (cvs.map (·.2))) := by
  obtain ⟨w0, k0, rfl, hk0, g0⟩ := h0
  obtain ⟨w', k', hw', hk', gT⟩ := go_chainTail hnp (wf := wf) hi hf cvs hcv w0
  refine ⟨w', k0 + k', hw', by simp <;> omega, ?_⟩
  have g1 := g0.head_app (chainTail wf opi (cvs.map (·.1)))
  have g2 := gT.skip_app first
  exact (g1.trans (g2.cast rfl (by omega) rfl)).cast rfl rfl (by simp)


/-! ### `?:` -/

/-- A failing condition fails; otherwise the truthiness of the condition selects one branch. -/
def ternVal (vc vt vf : Val) : Val :=
  match vc with
  | .err k => .err k
  | _ => if truthy vc then vt else vf

theorem vTest_cases (v : Val) :
    (∃ k, v = .err k ∧ vTest v = .err k) ∨ ((∀ k, v ≠ .err k) ∧ vTest v = .bool (truthy v)) := by
  cases v <;> simp [vTest]

theorem ternVal_nonerr {v x y : Val} (h : ∀ k, v ≠ .err k) :
    ternVal v x y = if truthy v then x else y := by
  cases v <;> first | rfl | exact absurd rfl (h _)

theorem step_not (len pc : Nat) (s : St) :
    step B rec top env len .not pc s = liftNext pc (unop rec vNot env s) := rfl

theorem runs_tern (hnp : NoProgs env) {c t f : List Instr} {vc vt vf : Val}
    (hc : Runs B rec top env c vc) (ht : Runs B rec top env t vt) (hf : Runs B rec top env f vf) :
    Runs B rec top env (ternCode c t f) (ternVal vc vt vf) := by
  obtain ⟨wc, kc, rfl, hkc, gc⟩ := hc
  obtain ⟨wt, kt, rfl, hkt, gt⟩ := ht
  obtain ⟨wf, kf, rfl, hkf, gf⟩ := hf
  suffices h : ∃ w' k, resolve env w' = ternVal (resolve env wc) (resolve env wt) (resolve env wf) ∧
      k ≤ t.length + f.length + 9 ∧
      Go B rec top env (.test :: .dup :: .jmpCond false (↑t.length + 2) :: .pop ::
        (t ++ (.jmp (↑f.length + 4) :: .dup :: .not :: .jmpCond false (↑f.length + 1) :: .pop :: f)))
        k 0 [.val wc] (t.length + f.length + 9) [.val w'] by
    obtain ⟨w', k, hw', hk, g⟩ := h
    have hcode : ternCode c t f = c ++ (.test :: .dup :: .jmpCond false (↑t.length + 2) :: .pop ::
        (t ++ (.jmp (↑f.length + 4) :: .dup :: .not :: .jmpCond false (↑f.length + 1) :: .pop :: f))) := by
      simp [ternCode]
    rw [hcode]
    refine ⟨w', kc + k, hw', by simp <;> omega, ?_⟩
    exact ((gc.head_app _).trans ((g.skip_app c).cast rfl (by omega) rfl)).cast rfl rfl (by simp <;> omega)
  generalize hd1 : ((↑t.length + 2 : Int)) = d1
  generalize hd2 : ((↑f.length + 4 : Int)) = d2
  generalize hd3 : ((↑f.length + 1 : Int)) = d3
  have htc := resolve_plain (env := env) (plain_vTest (resolve env wc))
  have hbe := boolOrErr_vTest (resolve env wc)
  have hcases := vTest_cases (resolve env wc)
  generalize htcdef : vTest (resolve env wc) = tc at htc hbe hcases
  have lift3 : ∀ {r : List Instr} {k a b : Nat} {s0 s1 : List SVal}, Go B rec top env r k a s0 b s1 →
      Go B rec top env (.test :: .dup :: .jmpCond false d1 :: r) k (a + 1 + 1 + 1) s0 (b + 1 + 1 + 1) s1 :=
    fun g => (((g.skip_cons (.jmpCond false d1)).skip_cons .dup).skip_cons .test)
  have lift4 : ∀ {r : List Instr} {k a b : Nat} {s0 s1 : List SVal}, Go B rec top env r k a s0 b s1 →
      Go B rec top env (.test :: .dup :: .jmpCond false d1 :: .pop :: r) k (a + 1 + 1 + 1 + 1) s0 (b + 1 + 1 + 1 + 1) s1 :=
    fun g => lift3 (g.skip_cons .pop)
  -- TEST; DUP; JMPCOND
  have g1 := go_unop (B := B) (rec := rec) (top := top) hnp step_test wc (.dup :: .jmpCond false d1 :: .pop :: (t ++ (.jmp d2 :: .dup :: .not :: .jmpCond false d3 :: .pop :: f)))
  rw [htcdef] at g1
  have g2 := (go_dup (B := B) (rec := rec) (top := top) hnp tc (.jmpCond false d1 :: .pop :: (t ++ (.jmp d2 :: .dup :: .not :: .jmpCond false d3 :: .pop :: f)))).skip_cons .test
  rw [htc] at g2
  have g3 := (((go_jmpCond (B := B) (rec := rec) (top := top) hnp (wf := false) (d := d1) (n := t.length + 2)
    (by omega) (r := .pop :: (t ++ (.jmp d2 :: .dup :: .not :: .jmpCond false d3 :: .pop :: f)))
    (by simp <;> omega) tc (by rw [htc]; exact hbe)).skip_cons .dup).skip_cons .test).frame [.val tc]
  rw [htc] at g3
  have g123 := (g1.trans g2).trans g3
  -- the path taken when the condition is false or failing: DUP; NOT; JMPCOND
  have hnt := resolve_plain (env := env) (plain_vNot tc)
  have h4 := go_dup (B := B) (rec := rec) (top := top) hnp tc (.not :: .jmpCond false d3 :: .pop :: f)
  rw [htc] at h4
  have h5 := ((go_unop (B := B) (rec := rec) (top := top) hnp step_not tc (.jmpCond false d3 :: .pop :: f)).skip_cons .dup).frame [.val tc]
  rw [htc] at h5
  have h6 := (((go_jmpCond (B := B) (rec := rec) (top := top) hnp (wf := false) (d := d3) (n := f.length + 1)
    (by omega) (r := .pop :: f) (by simp) (vNot tc) (by rw [hnt]; exact boolOrErr_vNot _)).skip_cons .not).skip_cons
    .dup).frame [.val tc]
  rw [hnt] at h6
  have h456 := (h4.trans h5).trans h6
  have liftD : ∀ {k a b : Nat} {s0 s1 : List SVal}, Go B rec top env (.dup :: .not :: .jmpCond false d3 :: .pop :: f) k a s0 b s1 →
      Go B rec top env (.test :: .dup :: .jmpCond false d1 :: .pop :: (t ++ (.jmp d2 :: .dup :: .not :: .jmpCond false d3 :: .pop :: f))) k
        (t.length + (a + 1) + 1 + 1 + 1 + 1) s0 (t.length + (b + 1) + 1 + 1 + 1 + 1) s1 :=
    fun g => lift4 ((g.skip_cons (.jmp d2)).skip_app t)
  rcases hcases with ⟨e, hve, hte⟩ | ⟨hne, htb⟩
  · -- failing condition
    subst hte
    have hj : jumps false (Val.err e) = true := rfl
    rw [if_pos hj] at g123
    have hj' : jumps false (vNot (Val.err e)) = true := rfl
    rw [if_pos hj'] at h456
    refine ⟨.err e, 3 + 3, ?_, by omega, ?_⟩
    · rw [hve]; rfl
    · exact (g123.trans ((liftD h456).cast rfl (by omega) rfl)).cast (by omega) rfl (by omega)
  · rw [ternVal_nonerr hne]
    subst htb
    cases htr : truthy (resolve env wc)
    · -- falsy condition: the else branch
      rw [htr] at g123 h456
      have hj : jumps false (Val.bool false) = true := rfl
      rw [if_pos hj] at g123
      have hj' : jumps false (vNot (Val.bool false)) = false := rfl
      rw [hj'] at h456
      have h7 := (((go_pop (B := B) (rec := rec) (top := top) hnp (.bool false) f).skip_cons (.jmpCond false d3)).skip_cons .not).skip_cons .dup
      have h8 := ((((gf.skip_cons .pop).skip_cons (.jmpCond false d3)).skip_cons .not).skip_cons .dup)
      have hD := (h456.trans (h7.cast rfl (by simp) rfl)).trans (h8.cast rfl (by omega) rfl)
      refine ⟨wf, 3 + (3 + 1 + kf), by simp, by omega, ?_⟩
      exact (g123.trans ((liftD hD).cast rfl (by omega) rfl)).cast (by omega) rfl (by omega)
    · -- truthy condition: the then branch
      rw [htr] at g123
      have hj : jumps false (Val.bool true) = false := rfl
      rw [hj] at g123
      have p4 := lift3 (go_pop (B := B) (rec := rec) (top := top) hnp (.bool true) (t ++ (.jmp d2 :: .dup :: .not :: .jmpCond false d3 :: .pop :: f)))
      have p5 := lift4 (gt.head_app (.jmp d2 :: .dup :: .not :: .jmpCond false d3 :: .pop :: f))
      have p6 := (lift4 ((go_jmp (B := B) (rec := rec) (top := top) (env := env) (d := d2) (n := f.length + 4) (by omega)
        (r := (.dup :: .not :: .jmpCond false d3 :: .pop :: f)) (by simp)).skip_app t)).frame [.val wt]
      refine ⟨wt, 3 + 1 + kt + 1, by simp, by omega, ?_⟩
      exact (((g123.trans (p4.cast rfl (by simp) rfl)).trans (p5.cast rfl (by omega) rfl)).trans
        (p6.cast rfl (by omega) rfl)).cast (by omega) rfl (by omega)

/-! ### list literals -/

/-- `c₁; …; cₙ` leaves `n` entries, the last one on top. -/
theorem go_seq (cvs : List (List Instr × Val)) (hcv : ∀ p ∈ cvs, Runs B rec top env p.1 p.2) :
    ∃ (ws : List Val) (k : Nat), ws.map (resolve env) = cvs.map (·.2) ∧ k ≤ (cvs.map (·.1)).flatten.length ∧
      Go B rec top env (cvs.map (·.1)).flatten k 0 [] (cvs.map (·.1)).flatten.length (ws.reverse.map .val) := by
  induction cvs with
  | nil => exact ⟨[], 0, rfl, by simp, by simpa using Go.refl [] 0 []⟩
  | cons p cvs ih =>
    obtain ⟨c, v⟩ := p
    obtain ⟨ws, k, hws, hk, g⟩ := ih (fun q hq => hcv q (List.mem_cons_of_mem _ hq))
    obtain ⟨wc, kc, hwc, hkc, gc⟩ := hcv (c, v) (List.mem_cons_self ..)
    dsimp only at hwc hkc gc
    refine ⟨wc :: ws, kc + k, by simp [hwc, hws],
      by simp only [List.map_cons, List.flatten_cons, List.length_append]; omega, ?_⟩
    simp only [List.map_cons, List.flatten_cons]
    have g1 := gc.head_app (cvs.map (·.1)).flatten
    have g2 := (g.skip_app c).frame [.val wc]
    have hst : (wc :: ws).reverse.map SVal.val = ws.reverse.map SVal.val ++ [.val wc] := by simp
    rw [hst]
    exact (g1.trans (g2.cast rfl (by omega) rfl)).cast rfl rfl (by simp)

/-- `c₁; …; cₙ; MKLIST n`: the list of the element values, in source order. -/
theorem runs_mkList (hnp : NoProgs env) (cvs : List (List Instr × Val))
    (hcv : ∀ p ∈ cvs, Runs B rec top env p.1 p.2) :
    Runs B rec top env ((cvs.map (·.1)).flatten ++ [.mkList cvs.length]) (.list (cvs.map (·.2))) := by
  obtain ⟨ws, k, hws, hk, g⟩ := go_seq cvs hcv
  have hlen : ws.reverse.length = cvs.length := by
    have := congrArg List.length hws
    simpa using this
  refine ⟨.list (cvs.map (·.2)), k + 1, rfl,
    by simp only [List.length_append, List.length_cons, List.length_nil]; omega, ?_⟩
  have g1 := g.head_app [.mkList cvs.length]
  have g2 := (go_mkList (B := B) (rec := rec) (top := top) hnp ws.reverse []).skip_app (cvs.map (·.1)).flatten
  rw [hlen] at g2
  have hv : (ws.reverse.map (resolve env)).reverse = cvs.map (·.2) := by
    rw [List.map_reverse, List.reverse_reverse, hws]
  rw [hv] at g2
  exact (g1.trans (g2.cast rfl (by omega) rfl)).cast rfl rfl (by simp)

/-! ### running a whole block -/

/-- The outcome of a block whose result value is `v`: a failure value is reported as a failure. -/
def outOf (v : Val) (log : Log) : Out :=
  match v with
  | .err k => { res := .error (.err k), log := log }
  | v => { res := .ok v, log := log }

theorem loop_end (code : List Instr) (fuel : Nat) (s : St) :
    loop B rec top env code fuel code.length s = .ok () s := by
  cases fuel with
  | zero => simp [loop]
  | succ n => rw [loop]; simp

theorem finish_resolve (hnp : NoProgs env) (w : Val) (log : Log) :
    finish rec env true { stack := [.val w], log := log } = outOf (resolve env w) log := by
  have hp : popS rec env { stack := [.val w], log := log } = .ok (.val (resolve env w)) { stack := [], log := log } := by
    cases w
    case ident n =>
      simp only [popS, resolve, resolveIdent, hnp.prog n, markUnres_untracked hnp.untracked]
      cases env.getType n <;> simp
      cases env.getParam n <;> simp
    all_goals simp [popS, resolve]
  simp only [finish, hp, if_true]
  cases resolve env w <;> rfl

/-- A block that `Runs` to `v`, executed by `run_raw` (any remaining depth budget ≥ 1, any log). -/
theorem runAt_of_runs (hnp : NoProgs env) (b : Nat) {code : List Instr} {v : Val}
    (h : Runs B (runAt B b) (runFresh B) env code v) (log : Log) :
    runAt B (b + 1) env code true log = outOf v log := by
  obtain ⟨w, k, rfl, hk, g⟩ := h
  have hg := g [] [] [] log (blockFuel code - k)
  have hf : blockFuel code - k + k = blockFuel code := by unfold blockFuel; omega
  simp only [List.nil_append, List.append_nil, List.length_nil, Nat.zero_add, hf] at hg
  simp only [runAt, hg, loop_end]
  exact finish_resolve hnp w log

/-! ### `match` -/

/-- No parameter is bound to an identifier value (so a popped value is never resolved a second time). -/
def PlainParams (env : Env) : Prop := ∀ n v, env.getParam n = some v → Plain v

theorem plain_getType {n : Str} {t : Val} (h : env.getType n = some t) : Plain t := by
  unfold Env.getType typeByName at h
  split at h
  · rw [Option.map_eq_some_iff] at h
    obtain ⟨_, _, rfl⟩ := h
    intro _ hh; cases hh
  · cases h

theorem plain_resolve (hpp : PlainParams env) (w : Val) : Plain (resolve env w) := by
  cases w
  case ident n =>
    simp only [resolve, resolveIdent]
    split
    · rename_i t ht; exact plain_getType ht
    · split
      · rename_i v hv; exact hpp n v hv
      · exact plain_err _
  all_goals (intro _ hh; cases hh)

/-- Is a pattern result "matched". -/
def matched : Val → Bool
  | .bool true => true
  | _ => false

/-- Value of a `match` given, per case, the pattern result and the value of the arm. -/
def matchVal : List (Val × Val) → Val
  | [] => .null
  | (r, a) :: rest => if matched r then a else matchVal rest

theorem jumps_false_iff {r : Val} (h : BoolOrErr r) : jumps false r = !matched r := by
  rcases h with ⟨b, rfl⟩ | ⟨k, rfl⟩
  · cases b <;> rfl
  · rfl

/-- The cases after the scrutinee: started with the scrutinee on the stack, exactly the arm of the first
    case whose pattern yields `true` runs; with no such case the result is `null`. -/
theorem go_matchTail (hnp : NoProgs env) {v : Val} (hv : Plain v)
    (cs : List ((List Instr × List Instr) × (Val × Val)))
    (hcs : ∀ c ∈ cs, BoolOrErr c.2.1 ∧
      (∃ k, k ≤ c.1.1.length ∧ Go B rec top env c.1.1 k 0 [.val v] c.1.1.length [.val c.2.1]) ∧
      Runs B rec top env c.1.2 c.2.2) :
    ∀ w0, resolve env w0 = v → ∃ w' k, resolve env w' = matchVal (cs.map (·.2)) ∧
      k ≤ (matchTail (cs.map (·.1))).length ∧
      Go B rec top env (matchTail (cs.map (·.1))) k 0 [.val w0] (matchTail (cs.map (·.1))).length [.val w'] := by
  induction cs with
  | nil =>
    intro w0 _
    refine ⟨.null, 2, rfl, by simp [matchTail], ?_⟩
    have g1 := go_pop (B := B) (rec := rec) (top := top) hnp w0 [.push .null]
    have g2 := (go_push (B := B) (rec := rec) (top := top) (env := env) .null []).skip_cons .pop
    simpa [matchTail] using g1.trans g2
  | cons c cs ih =>
    obtain ⟨⟨p, e⟩, ⟨r, a⟩⟩ := c
    intro w0 hw0
    have ih' := ih (fun q hq => hcs q (List.mem_cons_of_mem _ hq))
    obtain ⟨hr, ⟨kp, hkp, gp⟩, ⟨wa, ka, hwa, hka, ga⟩⟩ := hcs ((p, e), (r, a)) (List.mem_cons_self ..)
    dsimp only at hr hkp gp hwa hka ga
    simp only [List.map_cons, matchTail, matchVal]
    generalize matchTail (cs.map (·.1)) = T at ih' ⊢
    have hcode : [Instr.dup] ++ p ++ [.jmpCond false (↑e.length + 2), .pop] ++ e ++ [.jmp ↑T.length] ++ T =
        .dup :: (p ++ (.jmpCond false (↑e.length + 2) :: .pop :: (e ++ (.jmp ↑T.length :: T)))) := by simp
    rw [hcode]
    generalize hd1 : ((↑e.length + 2 : Int)) = d1
    generalize hd2 : ((↑T.length : Int)) = d2
    have hrr := resolve_plain (env := env) (plain_of_boe hr)
    have g1 := go_dup (B := B) (rec := rec) (top := top) hnp w0 (p ++ (.jmpCond false d1 :: .pop :: (e ++ (.jmp d2 :: T))))
    rw [hw0] at g1
    have g2 := ((gp.head_app (.jmpCond false d1 :: .pop :: (e ++ (.jmp d2 :: T)))).skip_cons .dup).frame [.val v]
    have g3 := (((go_jmpCond (B := B) (rec := rec) (top := top) hnp (wf := false) (d := d1) (n := e.length + 2) (by omega)
      (r := .pop :: (e ++ (.jmp d2 :: T))) (by simp <;> omega) r (by rw [hrr]; exact hr)).skip_app p).skip_cons
      .dup).frame [.val v]
    rw [hrr, jumps_false_iff hr] at g3
    have g123 := (g1.trans g2).trans (g3.cast rfl (by omega) rfl)
    cases hm : matched r
    · -- no match: on to the next case with the scrutinee still on the stack
      obtain ⟨w', k', hw', hk', gT⟩ := ih' v (resolve_plain hv)
      rw [hm] at g123
      simp only [Bool.not_false, if_true] at g123
      refine ⟨w', 1 + kp + 1 + k', by simpa using hw', by simp <;> omega, ?_⟩
      have g4 := ((((gT.skip_cons (.jmp d2)).skip_app e).skip_cons .pop).skip_cons (.jmpCond false d1)).skip_app p
        |>.skip_cons .dup
      exact (g123.trans (g4.cast rfl (by omega) rfl)).cast rfl rfl (by simp <;> omega)
    · -- match: POP the scrutinee, run the arm, jump over the remaining cases
      rw [hm] at g123
      simp only [Bool.not_true] at g123
      refine ⟨wa, 1 + kp + 1 + 1 + ka + 1, by simpa using hwa, by simp <;> omega, ?_⟩
      have g4 := (((go_pop (B := B) (rec := rec) (top := top) hnp v (e ++ (.jmp d2 :: T))).skip_cons (.jmpCond false d1)).skip_app p).skip_cons .dup
      have g5 := ((((ga.head_app (.jmp d2 :: T)).skip_cons .pop).skip_cons (.jmpCond false d1)).skip_app p).skip_cons .dup
      have g6 := ((((((go_jmp (B := B) (rec := rec) (top := top) (env := env) (d := d2) (n := T.length) (by omega)
        (r := T) (Nat.le_refl _)).skip_app e).skip_cons .pop).skip_cons (.jmpCond false d1)).skip_app p).skip_cons
        .dup).frame [.val wa]
      exact (((g123.trans (g4.cast rfl (by simp <;> omega) rfl)).trans (g5.cast rfl (by omega) rfl)).trans
        (g6.cast rfl (by omega) rfl)).cast (by omega) rfl (by simp <;> omega)

/-- `s; matchTail cases`. -/
theorem runs_match (hnp : NoProgs env) {s : List Instr} {v : Val} (hs : Runs B rec top env s v) (hv : Plain v)
    (cs : List ((List Instr × List Instr) × (Val × Val)))
    (hcs : ∀ c ∈ cs, BoolOrErr c.2.1 ∧
      (∃ k, k ≤ c.1.1.length ∧ Go B rec top env c.1.1 k 0 [.val v] c.1.1.length [.val c.2.1]) ∧
      Runs B rec top env c.1.2 c.2.2) :
    Runs B rec top env (s ++ matchTail (cs.map (·.1))) (matchVal (cs.map (·.2))) := by
  obtain ⟨w0, k0, hw0, hk0, g0⟩ := hs
  obtain ⟨w', k', hw', hk', gT⟩ := go_matchTail hnp hv cs hcs w0 hw0
  refine ⟨w', k0 + k', hw', by simp <;> omega, ?_⟩
  have g1 := g0.head_app (matchTail (cs.map (·.1)))
  have g2 := gT.skip_app s
  exact (g1.trans (g2.cast rfl (by omega) rfl)).cast rfl rfl (by simp)

/-- The pattern `_`: `POP; PUSH true`. -/
theorem go_pat_any (hnp : NoProgs env) (v : Val) :
    ∃ k, k ≤ [Instr.pop, .push (.bool true)].length ∧
      Go B rec top env [.pop, .push (.bool true)] k 0 [.val v] [Instr.pop, .push (.bool true)].length [.val (.bool true)] :=
  ⟨2, by simp, (go_pop (B := B) (rec := rec) (top := top) hnp v [.push (.bool true)]).trans
    ((go_push (B := B) (rec := rec) (top := top) (env := env) (.bool true) []).skip_cons .pop)⟩

/-- A comparison pattern `op e`: `e; OP` on top of the copy of the scrutinee. -/
theorem go_pat_cmp (hnp : NoProgs env) {i : Instr} {f : Val → Val → Val}
    (hi : ∀ len pc s, step B rec top env len i pc s = liftNext pc (binop rec f env s))
    {v : Val} (hv : Plain v) {e : List Instr} {ve : Val} (he : Runs B rec top env e ve) :
    ∃ k, k ≤ (e ++ [i]).length ∧ Go B rec top env (e ++ [i]) k 0 [.val v] (e ++ [i]).length [.val (f v ve)] := by
  obtain ⟨we, ke, rfl, hke, ge⟩ := he
  refine ⟨ke + 1, by simp <;> omega, ?_⟩
  have g1 := (ge.head_app [i]).frame [.val v]
  have g2 := (go_binop (B := B) (rec := rec) (top := top) hnp hi v we []).skip_app e
  rw [resolve_plain hv] at g2
  exact (g1.trans (g2.cast rfl (by omega) rfl)).cast rfl rfl (by simp)

end

/-! ### results of the binary operators are never identifiers -/

theorem boe_eqList : ∀ (a b : List Val), BoolOrErr (eqList a b)
  | [], _ => by simp [eqList, BoolOrErr]
  | _ :: _, [] => by simp [eqList, BoolOrErr]
  | x :: xs, y :: ys => by
    rw [eqList]
    split
    · exact Or.inr ⟨_, rfl⟩
    · exact boe_eqList xs ys
    · exact Or.inl ⟨_, rfl⟩

theorem boe_eqScalar (a b : Val) : BoolOrErr (eqScalar a b) := by
  unfold eqScalar
  split <;> exact Or.inl ⟨_, rfl⟩

theorem boe_valEq (a b : Val) : BoolOrErr (valEq a b) := by
  unfold valEq
  split
  · exact Or.inr ⟨_, rfl⟩
  · split
    · exact Or.inl ⟨_, rfl⟩
    · exact boe_eqList _ _
  · exact Or.inl ⟨_, rfl⟩
  · exact Or.inr ⟨_, rfl⟩
  · exact boe_eqScalar _ _

theorem plain_valNe (a b : Val) : Plain (valNe a b) := by
  unfold valNe
  apply plain_errProp
  intro a b
  rcases boe_valEq a b with ⟨x, hx⟩ | ⟨k, hk⟩
  · rw [hx]; exact plain_bool _
  · rw [hk]; exact plain_err _

theorem plain_rel (op : RelOp) (a b : Val) : Plain (rel op a b) := by
  unfold rel
  apply plain_errProp
  intro a b
  split
  · exact plain_bool _
  · exact plain_err _

theorem boe_errProp {f : Val → Val → Val} (hf : ∀ a b, BoolOrErr (f a b)) (a b : Val) :
    BoolOrErr (errProp a b f) := by
  unfold errProp
  split
  · exact Or.inr ⟨_, rfl⟩
  · split
    · exact Or.inr ⟨_, rfl⟩
    · exact hf _ _

theorem boe_valNe (a b : Val) : BoolOrErr (valNe a b) := by
  unfold valNe
  apply boe_errProp
  intro a b
  rcases boe_valEq a b with ⟨x, hx⟩ | ⟨k, hk⟩
  · rw [hx]; exact Or.inl ⟨_, rfl⟩
  · rw [hk]; exact Or.inr ⟨_, rfl⟩

theorem boe_rel (op : RelOp) (a b : Val) : BoolOrErr (rel op a b) := by
  unfold rel
  apply boe_errProp
  intro a b
  split
  · exact Or.inl ⟨_, rfl⟩
  · exact Or.inr ⟨_, rfl⟩

theorem boe_cmp (op : CmpOp) (a b : Val) : BoolOrErr (op.apply a b) := by
  cases op <;> simp only [CmpOp.apply]
  · exact boe_valEq _ _
  · exact boe_valNe _ _
  all_goals exact boe_rel _ _ _

theorem plain_inOp (a b : Val) : Plain (inOp a b) := by
  unfold inOp
  apply plain_errProp
  intro a b
  split <;> first | exact plain_bool _ | exact plain_err _

theorem plain_narrowI (r : Int) : Plain (narrowI r) := by
  unfold narrowI; split <;> simp [Plain]
theorem plain_narrowU (r : Int) : Plain (narrowU r) := by
  unfold narrowU; split <;> simp [Plain]
theorem plain_narrowTs (r : Int) : Plain (narrowTs r) := by
  unfold narrowTs; split <;> simp [Plain]
theorem plain_narrowDur (r : Int) : Plain (narrowDur r) := by
  unfold narrowDur; split <;> simp [Plain]

theorem plain_arith (op : ArithOp) (a b : Val) : Plain (arith op a b) := by
  unfold arith
  apply plain_errProp
  intro a b
  unfold arithCore
  split
  · unfold intArm; split <;> first | exact plain_err _ | exact plain_narrowI _
  · unfold intArm; split <;> first | exact plain_err _ | exact plain_narrowI _
  · unfold intArm; split <;> first | exact plain_err _ | exact plain_narrowI _
  · unfold uintArm; split <;> first | exact plain_err _ | exact plain_narrowU _
  · split <;> simp [Plain]
  · unfold otherArm
    split <;> first | exact plain_err _ | exact plain_narrowTs _ | exact plain_narrowDur _ | simp [Plain]

theorem plain_apply (op : BinOp) (a b : Val) : Plain (op.apply a b) := by
  cases op <;> simp only [BinOp.apply]
  · exact plain_vOr _ _
  · exact plain_vAnd _ _
  · exact plain_rel _ _ _
  · exact plain_rel _ _ _
  · exact plain_rel _ _ _
  · exact plain_rel _ _ _
  · exact plain_of_boe (boe_valEq _ _)
  · exact plain_valNe _ _
  · exact plain_inOp _ _
  · exact plain_arith _ _ _
  · exact plain_arith _ _ _
  · exact plain_arith _ _ _
  · exact plain_arith _ _ _
  · exact plain_arith _ _ _

end Seq
end Rscel
