import RscelModel.Model.Spec
/-
Sequencing lemmas for the VM's instruction loop.

`Go code k a sin b sout`: inside any larger block `pre ++ code ++ post`, from the instruction at offset
`a` of `code` with the stack `sin ++ st`, the loop reaches offset `b` of `code` with the stack
`sout ++ st` after exactly `k` instructions — for every `pre`, `post`, rest of the stack `st` (which is
never touched), log (unchanged) and remaining fuel.

`Runs code env v`: `code` runs from its first instruction to its end in at most `code.length` steps and
leaves one new stack entry that denotes `v` (an identifier entry is resolved when it is popped, so the
entry `w` satisfies `resolve env w = v`).

The environment has no stored programs (`NoProgs`): popping an identifier never starts a nested run, so
`rec`/`top` are arbitrary and the log never changes.
-/
namespace Rscel
namespace Seq

/-- No name resolves to a stored program. -/
def NoProgs (env : Env) : Prop := ∀ n, env.getProg n = none

theorem noProgs_of_nil {env : Env} (h : env.progs = []) : NoProgs env := by
  intro n; simp [Env.getProg, h, lookup]

/-- The value `pop` returns for the stack entry `.val w`. -/
def resolve (env : Env) : Val → Val
  | .ident n => resolveIdent env n
  | v => v

/-- Values that `pop` returns unchanged. -/
def Plain (v : Val) : Prop := ∀ n, v ≠ .ident n

theorem resolve_plain {env : Env} {v : Val} (h : Plain v) : resolve env v = v := by
  cases v <;> first | rfl | exact absurd rfl (h _)

theorem plain_bool (b : Bool) : Plain (.bool b) := fun _ h => by cases h
theorem plain_err (k : ErrKind) : Plain (.err k) := fun _ h => by cases h

theorem plain_vTest (v : Val) : Plain (vTest v) := by
  cases v <;> simp [vTest, Plain]
theorem plain_vNot (v : Val) : Plain (vNot v) := by
  cases v <;> simp [vNot, Plain]
theorem plain_neg (v : Val) : Plain (neg v) := by
  cases v <;> simp [neg, Plain, narrowI] <;> split <;> simp
theorem plain_errProp {f : Val → Val → Val} (hf : ∀ a b, Plain (f a b)) (a b : Val) :
    Plain (errProp a b f) := by
  unfold errProp
  split
  · exact plain_err _
  · split
    · exact plain_err _
    · exact hf _ _
theorem plain_vAnd (a b : Val) : Plain (vAnd a b) :=
  plain_errProp (fun _ _ => plain_bool _) a b
theorem plain_vOr (a b : Val) : Plain (vOr a b) := by
  unfold vOr
  split
  · split <;> first | exact plain_bool _ | exact plain_err _
  · split <;> first | exact plain_bool _ | exact plain_err _
  · exact plain_bool _

section
variable {B : Builtins} {rec top : Rec} {env : Env}

theorem popV_resolve (h : NoProgs env) (w : Val) (st : List SVal) (log : Log) :
    popV rec env { stack := .val w :: st, log := log } = .ok (resolve env w) { stack := st, log := log } := by
  cases w
  case ident n =>
    simp only [popV, popS, resolve, resolveIdent, h n]
    cases env.getType n <;> simp
    cases env.getParam n <;> simp
  all_goals simp [popV, popS, resolve]

theorem loop_step (code : List Instr) (fuel pc : Nat) (s : St) (i : Instr) (h : code[pc]? = some i) :
    loop B rec top env code (fuel + 1) pc s =
      match step B rec top env code.length i (pc + 1) s with
      | .fail a l => .fail a l
      | .ok pc' s' => loop B rec top env code fuel pc' s' := by
  rw [loop]; simp only [h]; rfl

end

section
variable (B : Builtins) (rec top : Rec) (env : Env)

def Go (code : List Instr) (k a : Nat) (sin : List SVal) (b : Nat) (sout : List SVal) : Prop :=
  ∀ (pre post : List Instr) (st : List SVal) (log : Log) (fuel : Nat),
    loop B rec top env (pre ++ code ++ post) (fuel + k) (pre.length + a) { stack := sin ++ st, log := log } =
    loop B rec top env (pre ++ code ++ post) fuel (pre.length + b) { stack := sout ++ st, log := log }

/-- `code` pushes one entry denoting `v`, running from its start to its end in at most `code.length` steps. -/
def Runs (code : List Instr) (v : Val) : Prop :=
  ∃ w k, resolve env w = v ∧ k ≤ code.length ∧ Go B rec top env code k 0 [] code.length [.val w]

end

section
variable {B : Builtins} {rec top : Rec} {env : Env}

theorem Go.refl (code : List Instr) (a : Nat) (s : List SVal) : Go B rec top env code 0 a s a s := by
  intro pre post st log fuel; rfl

theorem Go.cast {code : List Instr} {k k' a a' b b' : Nat} {s0 s1 : List SVal}
    (h : Go B rec top env code k a s0 b s1) (hk : k = k') (ha : a = a') (hb : b = b') :
    Go B rec top env code k' a' s0 b' s1 := by
  subst hk ha hb; exact h

theorem Go.trans {code : List Instr} {k1 k2 a b c : Nat} {s0 s1 s2 : List SVal}
    (h1 : Go B rec top env code k1 a s0 b s1) (h2 : Go B rec top env code k2 b s1 c s2) :
    Go B rec top env code (k1 + k2) a s0 c s2 := by
  intro pre post st log fuel
  have e : fuel + (k1 + k2) = (fuel + k2) + k1 := by omega
  rw [e, h1 pre post st log (fuel + k2), h2 pre post st log fuel]

theorem Go.frame {code : List Instr} {k a b : Nat} {s0 s1 : List SVal} (fr : List SVal)
    (h : Go B rec top env code k a s0 b s1) : Go B rec top env code k a (s0 ++ fr) b (s1 ++ fr) := by
  intro pre post st log fuel
  have := h pre post (fr ++ st) log fuel
  simpa only [List.append_assoc] using this

theorem Go.skip_app {r : List Instr} {k a b : Nat} {s0 s1 : List SVal} (l : List Instr)
    (h : Go B rec top env r k a s0 b s1) :
    Go B rec top env (l ++ r) k (l.length + a) s0 (l.length + b) s1 := by
  intro pre post st log fuel
  have := h (pre ++ l) post st log fuel
  simpa only [List.append_assoc, List.length_append, Nat.add_assoc] using this

theorem Go.skip_cons {r : List Instr} {k a b : Nat} {s0 s1 : List SVal} (i : Instr)
    (h : Go B rec top env r k a s0 b s1) :
    Go B rec top env (i :: r) k (a + 1) s0 (b + 1) s1 := by
  have := Go.skip_app [i] h
  exact this.cast rfl (by simp <;> omega) (by simp <;> omega)

theorem Go.head_app {c : List Instr} {k a b : Nat} {s0 s1 : List SVal} (r : List Instr)
    (h : Go B rec top env c k a s0 b s1) : Go B rec top env (c ++ r) k a s0 b s1 := by
  intro pre post st log fuel
  have := h pre (r ++ post) st log fuel
  simpa only [List.append_assoc] using this

/-- One instruction at the head of `i :: r`; the step function is given the real block length and `pc`. -/
theorem Go.instr {i : Instr} {r : List Instr} {sin sout : List SVal} {b : Nat}
    (hs : ∀ (pre post : List Instr) (st : List SVal) (log : Log),
      step B rec top env (pre ++ (i :: r) ++ post).length i (pre.length + 0 + 1) { stack := sin ++ st, log := log } =
        .ok (pre.length + b) { stack := sout ++ st, log := log }) :
    Go B rec top env (i :: r) 1 0 sin b sout := by
  intro pre post st log fuel
  have hget : (pre ++ (i :: r) ++ post)[pre.length + 0]? = some i := by simp
  rw [loop_step _ _ _ _ _ hget, hs]


/-! ### single instructions -/

theorem jumpTarget_eq {pc len n t : Nat} {d : Int} (hd : d = n) (ht : t = pc + n) (h : pc + n ≤ len) :
    jumpTarget pc d len = some t := by
  subst hd ht
  simp only [jumpTarget]
  have h1 : ¬ ((pc : Int) + (n : Int) < 0) := by omega
  have h2 : ¬ ((pc : Int) + (n : Int) > (len : Int)) := by omega
  simp [h1, h2]
  omega

theorem go_push (v : Val) (r : List Instr) : Go B rec top env (.push v :: r) 1 0 [] 1 [.val v] :=
  Go.instr (fun pre post st log => by simp [step, pushV])

theorem go_unop (hnp : NoProgs env) {i : Instr} {f : Val → Val}
    (hi : ∀ len pc s, step B rec top env len i pc s = liftNext pc (unop rec f env s))
    (w : Val) (r : List Instr) :
    Go B rec top env (i :: r) 1 0 [.val w] 1 [.val (f (resolve env w))] :=
  Go.instr (fun pre post st log => by simp [hi, unop, popV_resolve hnp, liftNext, pushV])

theorem go_binop (hnp : NoProgs env) {i : Instr} {f : Val → Val → Val}
    (hi : ∀ len pc s, step B rec top env len i pc s = liftNext pc (binop rec f env s))
    (w1 w2 : Val) (r : List Instr) :
    Go B rec top env (i :: r) 1 0 [.val w2, .val w1] 1 [.val (f (resolve env w1) (resolve env w2))] :=
  Go.instr (fun pre post st log => by simp [hi, binop, popV_resolve hnp, liftNext, pushV])

theorem go_pop (hnp : NoProgs env) (w : Val) (r : List Instr) :
    Go B rec top env (.pop :: r) 1 0 [.val w] 1 [] :=
  Go.instr (fun pre post st log => by simp [step, popV_resolve hnp, liftNext])

theorem go_dup (hnp : NoProgs env) (w : Val) (r : List Instr) :
    Go B rec top env (.dup :: r) 1 0 [.val w] 1 [.val (resolve env w), .val (resolve env w)] :=
  Go.instr (fun pre post st log => by simp [step, popV_resolve hnp, pushV])

theorem go_jmp {d : Int} {n : Nat} (hd : d = n) {r : List Instr} (hn : n ≤ r.length) :
    Go B rec top env (.jmp d :: r) 1 0 [] (1 + n) [] :=
  Go.instr (fun pre post st log => by
    have : jumpTarget (pre.length + 0 + 1) d (pre ++ (.jmp d :: r) ++ post).length = some (pre.length + (1 + n)) :=
      jumpTarget_eq hd (by omega) (by simp <;> omega)
    simp only [step, List.nil_append, this])

/-- The values a conditional jump accepts. -/
def BoolOrErr (v : Val) : Prop := (∃ b, v = .bool b) ∨ (∃ k, v = .err k)

theorem boolOrErr_vTest (v : Val) : BoolOrErr (vTest v) := by
  cases v <;> simp [vTest, BoolOrErr]
theorem boolOrErr_vNot (v : Val) : BoolOrErr (vNot v) := by
  cases v <;> simp [vNot, BoolOrErr]

/-- Does `JMPCOND wf` jump on the popped value. -/
def jumps (wf : Bool) : Val → Bool
  | .bool b => b == wf
  | .err _ => wf == false
  | _ => false

theorem go_jmpCond (hnp : NoProgs env) {wf : Bool} {d : Int} {n : Nat} (hd : d = n) {r : List Instr}
    (hn : n ≤ r.length) (x : Val) (hv : BoolOrErr (resolve env x)) :
    Go B rec top env (.jmpCond wf d :: r) 1 0 [.val x] (if jumps wf (resolve env x) then 1 + n else 1) [] :=
  Go.instr (fun pre post st log => by
    have hj : jumpTarget (pre.length + 0 + 1) d (pre ++ (.jmpCond wf d :: r) ++ post).length = some (pre.length + (1 + n)) :=
      jumpTarget_eq hd (by omega) (by simp <;> omega)
    rcases hv with ⟨b, hb⟩ | ⟨k, hk⟩
    · simp only [step, List.cons_append, List.nil_append, popV_resolve hnp, hb, jumps, hj]
      by_cases h : (b == wf) = true <;> simp [h]
    · simp only [step, List.cons_append, List.nil_append, popV_resolve hnp, hk, jumps, hj]
      by_cases h : (wf == false) = true <;> simp [h])

theorem popN_resolve (hnp : NoProgs env) (ws : List Val) (st : List SVal) (log : Log) :
    popN rec env ws.length { stack := ws.map .val ++ st, log := log } =
      .ok (ws.map (resolve env)) { stack := st, log := log } := by
  induction ws with
  | nil => simp [popN]
  | cons w ws ih => simp [popN, popV_resolve hnp, ih]

theorem go_mkList (hnp : NoProgs env) (ws : List Val) (r : List Instr) :
    Go B rec top env (.mkList ws.length :: r) 1 0 (ws.map .val) 1 [.val (.list (ws.map (resolve env)).reverse)] :=
  Go.instr (fun pre post st log => by simp [step, popN_resolve hnp, pushV])

/-! ### `Runs`: composition -/

theorem runs_push_any (w : Val) : Runs B rec top env [.push w] (resolve env w) :=
  ⟨w, 1, rfl, by simp, go_push w []⟩

theorem runs_push {v : Val} (hv : Plain v) : Runs B rec top env [.push v] v := by
  have := runs_push_any (B := B) (rec := rec) (top := top) (env := env) v
  rwa [resolve_plain hv] at this

theorem runs_ident (n : Str) : Runs B rec top env [.push (.ident n)] (resolveIdent env n) :=
  runs_push_any (.ident n)

/-- `c; OP` for a one-operand instruction. -/
theorem runs_unop (hnp : NoProgs env) {i : Instr} {f : Val → Val}
    (hi : ∀ len pc s, step B rec top env len i pc s = liftNext pc (unop rec f env s))
    (hf : ∀ a, Plain (f a)) {c : List Instr} {v : Val} (hc : Runs B rec top env c v) :
    Runs B rec top env (c ++ [i]) (f v) := by
  obtain ⟨w, k, rfl, hk, g⟩ := hc
  refine ⟨f (resolve env w), k + 1, resolve_plain (hf _), by simp <;> omega, ?_⟩
  have g1 := g.head_app [i]
  have g2 := (go_unop hnp hi w []).skip_app c
  exact (g1.trans (g2.cast rfl (by omega) rfl)).cast rfl rfl (by simp)

/-- `c; OP; …; OP` (a `!`- or `-`-run). -/
theorem runs_unrun (hnp : NoProgs env) {i : Instr} {f : Val → Val}
    (hi : ∀ len pc s, step B rec top env len i pc s = liftNext pc (unop rec f env s))
    (hf : ∀ a, Plain (f a)) {c : List Instr} {v : Val} (hc : Runs B rec top env c v) (n : Nat) :
    Runs B rec top env (c ++ List.replicate n i) (applyN f n v) := by
  induction n with
  | zero => simpa [applyN] using hc
  | succ n ih =>
    have := runs_unop hnp hi hf ih
    rw [List.append_assoc, ← List.replicate_succ'] at this
    exact this

/-- `l; r; OP` for a two-operand instruction (both operands are always evaluated). -/
theorem runs_binop (hnp : NoProgs env) {i : Instr} {f : Val → Val → Val}
    (hi : ∀ len pc s, step B rec top env len i pc s = liftNext pc (binop rec f env s))
    (hf : ∀ a b, Plain (f a b)) {l r : List Instr} {a b : Val}
    (hl : Runs B rec top env l a) (hr : Runs B rec top env r b) :
    Runs B rec top env (l ++ r ++ [i]) (f a b) := by
  obtain ⟨wl, kl, rfl, hkl, gl⟩ := hl
  obtain ⟨wr, kr, rfl, hkr, gr⟩ := hr
  refine ⟨f (resolve env wl) (resolve env wr), kl + kr + 1, resolve_plain (hf _ _), by simp <;> omega, ?_⟩
  rw [List.append_assoc]
  have g1 := gl.head_app (r ++ [i])
  have g2 := (((gr.head_app [i]).skip_app l).frame [.val wl])
  have g3 := ((go_binop hnp hi wl wr []).skip_app r).skip_app l
  exact ((g1.trans (g2.cast rfl (by omega) rfl)).trans (g3.cast rfl (by omega) rfl)).cast rfl rfl (by simp <;> omega)

end

end Seq
end Rscel
