import RscelModel.Lemmas.Seq2
import RscelModel.Model.Conv
/-
`BuiltinsOK` for the model's table of built-in functions and type constructors (`tableBuiltins t now`, hence
`stdBuiltins now`): given data (no identifier, no code block at any depth) every function and constructor
returns data.  This discharges the hypothesis `BuiltinsOK B` of `Theorems/C05Compile2.lean` for the tables
the check runs against.
-/
set_option autoImplicit false
namespace Rscel
namespace Seq

/-- An overload returns data on data. -/
def OvOK (o : Overload) : Prop :=
  ∀ this args, Data this → (∀ a ∈ args, Data a) → Data (o.run this args)

/-- A plain function returns data on data. -/
def FnOK (f : Val → List Val → Val) : Prop :=
  ∀ this args, Data this → (∀ a ∈ args, Data a) → Data (f this args)

theorem fnOK_dispatch {os : List Overload} (h : ∀ o ∈ os, OvOK o) : FnOK (dispatch os) := by
  intro this args ht ha
  unfold dispatch
  split
  · rename_i o ho
    exact h o (List.mem_of_find?_eq_some ho) this args ht ha
  · rfl

/-! ### sort, min, max, zip -/

theorem mergeRuns_mem : ∀ (n : Nat) (l r out : List Val), mergeRuns n l r = .ok out → ∀ x ∈ out, x ∈ l ∨ x ∈ r := by
  intro n
  induction n with
  | zero =>
    intro l r out h x hx
    simp only [mergeRuns, Except.ok.injEq] at h
    subst h
    exact List.mem_append.mp hx
  | succ n ih =>
    intro l r out h x hx
    cases l with
    | nil =>
      simp only [mergeRuns, Except.ok.injEq] at h
      subst h; exact Or.inr hx
    | cons a as =>
      cases r with
      | nil =>
        simp only [mergeRuns, Except.ok.injEq] at h
        subst h; exact Or.inl hx
      | cons b bs =>
        rw [mergeRuns] at h
        split at h
        · split at h
          · rename_i t ht
            cases h
            rcases List.mem_cons.mp hx with rfl | hx
            · exact Or.inr (List.mem_cons_self ..)
            · rcases ih _ _ _ ht x hx with h' | h'
              · exact Or.inl h'
              · exact Or.inr (List.mem_cons_of_mem _ h')
          · cases h
        · split at h
          · rename_i t ht
            cases h
            rcases List.mem_cons.mp hx with rfl | hx
            · exact Or.inl (List.mem_cons_self ..)
            · rcases ih _ _ _ ht x hx with h' | h'
              · exact Or.inl (List.mem_cons_of_mem _ h')
              · exact Or.inr h'
          · cases h
        · cases h
        · cases h

theorem mergeSortFuel_mem : ∀ (n : Nat) (l out : List Val), mergeSortFuel n l = .ok out → ∀ x ∈ out, x ∈ l := by
  intro n
  induction n with
  | zero => intro l out h x hx; simp only [mergeSortFuel, Except.ok.injEq] at h; subst h; exact hx
  | succ n ih =>
    intro l out h x hx
    rw [mergeSortFuel] at h
    split at h
    · cases h; exact hx
    · dsimp only at h
      split at h
      · cases h
      · rename_i a ha
        split at h
        · cases h
        · rename_i b hb
          rcases mergeRuns_mem _ _ _ _ h x hx with h' | h'
          · exact List.mem_of_mem_take (ih _ _ ha x h')
          · exact List.mem_of_mem_drop (ih _ _ hb x h')

theorem data_sortList {l : List Val} (hl : ∀ x ∈ l, Data x) : Data (sortList l) := by
  unfold sortList
  split
  · rename_i r hr
    rw [data_list]
    exact fun x hx => hl x (mergeSortFuel_mem _ _ _ hr x hx)
  · rfl

theorem data_foldl_pick (f : Val → Val → Bool) : ∀ (xs : List Val) (x : Val), Data x → (∀ v ∈ xs, Data v) →
    Data (xs.foldl (fun cur v => if f v cur then v else cur) x) := by
  intro xs
  induction xs with
  | nil => intro x hx _; exact hx
  | cons v vs ih =>
    intro x hx h
    simp only [List.foldl_cons]
    apply ih
    · split
      · exact h v (List.mem_cons_self ..)
      · exact hx
    · exact fun w hw => h w (List.mem_cons_of_mem _ hw)

theorem data_minOf {a : List Val} (ha : ∀ v ∈ a, Data v) : Data (minOf a) := by
  cases a with
  | nil => rfl
  | cons x xs =>
    have : minOf (x :: xs) = xs.foldl (fun cur v => if (match rel .lt v cur with | .bool true => true | _ => false)
        then v else cur) x := by
      simp only [minOf]
      congr 1
      funext cur v
      split <;> simp_all
    rw [this]
    exact data_foldl_pick _ xs x (ha x (List.mem_cons_self ..)) (fun w hw => ha w (List.mem_cons_of_mem _ hw))

theorem data_maxOf {a : List Val} (ha : ∀ v ∈ a, Data v) : Data (maxOf a) := by
  cases a with
  | nil => rfl
  | cons x xs =>
    have : maxOf (x :: xs) = xs.foldl (fun cur v => if (match rel .gt v cur with | .bool true => true | _ => false)
        then v else cur) x := by
      simp only [maxOf]
      congr 1
      funext cur v
      split <;> simp_all
    rw [this]
    exact data_foldl_pick _ xs x (ha x (List.mem_cons_self ..)) (fun w hw => ha w (List.mem_cons_of_mem _ hw))

theorem allLists_data : ∀ (args : List Val) (ls : List (List Val)), allLists args = some ls → (∀ a ∈ args, Data a) →
    ∀ l ∈ ls, ∀ x ∈ l, Data x := by
  intro args
  induction args with
  | nil => intro ls h _ l hl; simp only [allLists, Option.some.injEq] at h; subst h; cases hl
  | cons a as ih =>
    intro ls h ha l hl
    cases a <;> simp only [allLists] at h <;> try cases h
    rename_i l0
    cases hr : allLists as with
    | none => simp [hr] at h
    | some ls' =>
      simp only [hr, Option.map_some, Option.some.injEq] at h
      subst h
      rcases List.mem_cons.mp hl with rfl | hl
      · exact data_list.mp (ha _ (List.mem_cons_self ..))
      · exact ih ls' hr (fun w hw => ha w (List.mem_cons_of_mem _ hw)) l hl

theorem data_zipImpl {a : List Val} (ha : ∀ v ∈ a, Data v) : Data (zipImpl a) := by
  unfold zipImpl
  split
  · rfl
  · rename_i ls hls
    have hd := allLists_data a ls hls ha
    rw [data_list]
    intro x hx
    cases ls with
    | nil => simp [zipLists] at hx
    | cons l0 ls' =>
      simp only [zipLists, List.mem_map] at hx
      obtain ⟨i, _, rfl⟩ := hx
      rw [data_list]
      intro y hy
      obtain ⟨l, hl, rfl⟩ := List.mem_map.mp hy
      exact data_getD (hd l hl) i

/-! ### the overload tables -/

/-- closes the goal `OvOK o` for an overload whose body is one `match` over scalars -/
macro "ov_tac" : tactic => `(tactic| (
  intro this args ht ha
  dsimp only
  repeat' split
  all_goals first
    | rfl
    | exact ht
    | exact ha _ (List.mem_cons_self ..)
    | exact ha _ (by simp)
    | exact data_narrowI _ | exact data_narrowU _ | exact data_narrowTs _ | exact data_narrowDur _))

theorem ok_size : ∀ o ∈ sizeOverloads, OvOK o := by
  intro o ho
  simp only [sizeOverloads, List.mem_cons, List.mem_nil_iff, or_false] at ho
  rcases ho with rfl | rfl | rfl | rfl | rfl | rfl <;> ov_tac

theorem ok_sort : ∀ o ∈ sortOverloads, OvOK o := by
  intro o ho
  simp only [sortOverloads, List.mem_cons, List.mem_nil_iff, or_false] at ho
  subst ho
  intro this args ht ha
  dsimp only
  split
  · exact data_sortList (data_list.mp ht)
  · rfl

theorem ok_type : ∀ o ∈ typeOverloads, OvOK o := by
  intro o ho
  simp only [typeOverloads, List.mem_cons, List.mem_nil_iff, or_false] at ho
  subst ho; ov_tac

theorem ok_dyn : ∀ o ∈ dynOverloads, OvOK o := by
  intro o ho
  simp only [dynOverloads, List.mem_cons, List.mem_nil_iff, or_false] at ho
  subst ho; ov_tac

theorem data_boolOfString (s : Str) : Data (boolOfString s) := by
  unfold boolOfString
  dsimp only
  split
  · rfl
  · split <;> rfl

theorem ok_bool : ∀ o ∈ boolOverloads, OvOK o := by
  intro o ho
  simp only [boolOverloads, List.mem_cons, List.mem_nil_iff, or_false] at ho
  rcases ho with rfl | rfl | rfl
  · ov_tac
  · intro this args ht ha
    dsimp only
    split
    · exact data_boolOfString _
    · rfl
  · ov_tac

theorem ok_int : ∀ o ∈ intOverloads, OvOK o := by
  intro o ho
  simp only [intOverloads, List.mem_cons, List.mem_nil_iff, or_false] at ho
  rcases ho with rfl | rfl | rfl | rfl | rfl | rfl <;> ov_tac

theorem ok_uint : ∀ o ∈ uintOverloads, OvOK o := by
  intro o ho
  simp only [uintOverloads, List.mem_cons, List.mem_nil_iff, or_false] at ho
  rcases ho with rfl | rfl | rfl | rfl | rfl <;> ov_tac

theorem ok_bytes : ∀ o ∈ bytesOverloads, OvOK o := by
  intro o ho
  simp only [bytesOverloads, List.mem_cons, List.mem_nil_iff, or_false] at ho
  rcases ho with rfl | rfl <;> ov_tac

theorem ok_string (X : ConvExt) : ∀ o ∈ stringOverloads X, OvOK o := by
  intro o ho
  simp only [stringOverloads, stringOverloadsBasic, stringOverloadsRest, List.cons_append, List.nil_append,
    List.mem_cons, List.mem_nil_iff, or_false] at ho
  rcases ho with rfl | rfl | rfl | rfl | rfl | rfl | rfl | rfl <;> ov_tac

theorem ok_double (X : ConvExt) : ∀ o ∈ doubleOverloads X, OvOK o := by
  intro o ho
  simp only [doubleOverloads, List.mem_cons, List.mem_nil_iff, or_false] at ho
  rcases ho with rfl | rfl | rfl | rfl | rfl <;> ov_tac

theorem data_tsOfSecs (s : Int) : Data (tsOfSecs s) := data_narrowTs _

theorem data_durNew (s n : Int) : Data (durNew s n) := by
  unfold durNew
  split
  · rfl
  · exact data_narrowDur _

theorem ok_timestamp (X : ConvExt) (now : Int) : ∀ o ∈ timestampOverloads X now, OvOK o := by
  intro o ho
  simp only [timestampOverloads, List.mem_cons, List.mem_nil_iff, or_false] at ho
  rcases ho with rfl | rfl | rfl | rfl | rfl
  · ov_tac
  · ov_tac
  · intro this args ht ha; dsimp only; split
    · exact data_tsOfSecs _
    · rfl
  · intro this args ht ha; dsimp only; split
    · split
      · exact data_tsOfSecs _
      · rfl
    · rfl
  · ov_tac

theorem ok_duration (X : ConvExt) : ∀ o ∈ durationOverloads X, OvOK o := by
  intro o ho
  simp only [durationOverloads, List.mem_cons, List.mem_nil_iff, or_false] at ho
  rcases ho with rfl | rfl | rfl | rfl
  · ov_tac
  · intro this args ht ha; dsimp only; split
    · exact data_durNew _ _
    · rfl
  · ov_tac
  · intro this args ht ha; dsimp only; split
    · split
      · rfl
      · exact data_durNew _ _
    · rfl

theorem ctorOK (X : ConvExt) (now : Int) (tn : Str) (args : List Val) (ha : ∀ a ∈ args, Data a) :
    Data (constructType X now tn args) := by
  unfold constructType
  dsimp only
  repeat' split
  all_goals first
    | rfl
    | exact fnOK_dispatch ok_bool _ _ data_null ha
    | exact fnOK_dispatch ok_int _ _ data_null ha
    | exact fnOK_dispatch ok_uint _ _ data_null ha
    | exact fnOK_dispatch (ok_double X) _ _ data_null ha
    | exact fnOK_dispatch ok_bytes _ _ data_null ha
    | exact fnOK_dispatch (ok_string X) _ _ data_null ha
    | exact fnOK_dispatch ok_type _ _ data_null ha
    | exact fnOK_dispatch (ok_timestamp X now) _ _ data_null ha
    | exact fnOK_dispatch (ok_duration X) _ _ data_null ha
    | exact fnOK_dispatch ok_dyn _ _ data_null ha

/-! ### string and math functions -/

theorem ok_ovSS {f : Str → Str → Val} (hf : ∀ s n, Data (f s n)) : ∀ o ∈ ovSS f, OvOK o := by
  intro o ho
  simp only [ovSS, List.mem_cons, List.mem_nil_iff, or_false] at ho
  subst ho
  intro this args _ _
  dsimp only
  split
  · exact hf _ _
  · rfl

theorem ok_ovSSS {f : Str → Str → Str → Val} (hf : ∀ s n r, Data (f s n r)) : ∀ o ∈ ovSSS f, OvOK o := by
  intro o ho
  simp only [ovSSS, List.mem_cons, List.mem_nil_iff, or_false] at ho
  subst ho
  intro this args _ _
  dsimp only
  split
  · exact hf _ _ _
  · rfl

theorem data_strList (l : List Str) : Data (strList l) := by
  unfold strList
  rw [data_list]
  intro x hx
  obtain ⟨s, _, rfl⟩ := List.mem_map.mp hx
  rfl

theorem data_capturesVal (c : Option (Option (List (Option Str)))) : Data (capturesVal c) := by
  cases c with
  | none => rfl
  | some c =>
    cases c with
    | none => rfl
    | some gs =>
      simp only [capturesVal]
      rw [data_list]
      intro x hx
      obtain ⟨g, _, rfl⟩ := List.mem_map.mp hx
      cases g <;> rfl

theorem ok_stringFuncs (E : StrExt) : ∀ p ∈ stringFuncs E, ∀ o ∈ p.2, OvOK o := by
  intro p hp
  simp only [stringFuncs, List.mem_cons, List.mem_nil_iff, or_false] at hp
  rcases hp with rfl | rfl | rfl | rfl | rfl | rfl | rfl | rfl | rfl | rfl | rfl | rfl | rfl | rfl | rfl | rfl |
    rfl | rfl
  all_goals first
    | exact ok_ovSS (fun _ _ => rfl)
    | exact ok_ovSSS (fun _ _ _ => rfl)
    | exact ok_ovSS (fun _ _ => data_strList _)
    | exact ok_ovSS (fun _ _ => data_capturesVal _)
    | exact ok_ovSS (fun _ _ => by split <;> rfl)
    | exact ok_ovSSS (fun _ _ _ => by split <;> rfl)
    | skip
  · -- splitAt
    intro o ho
    simp only [List.mem_cons, List.mem_nil_iff, or_false] at ho
    subst ho
    intro this args _ _
    dsimp only
    split
    · split
      · rfl
      · split <;> rfl
    · rfl
  · -- splitWhiteSpace
    intro o ho
    simp only [List.mem_cons, List.mem_nil_iff, or_false] at ho
    subst ho
    intro this args _ _
    dsimp only
    split
    · exact data_strList _
    · rfl

theorem fnOK_stringMethod (f : Str → Str) : FnOK (stringMethod f) := by
  intro this args _ _
  unfold stringMethod
  split
  · rfl
  · split <;> rfl

theorem ok_plainStringFuncs (E : StrExt) : ∀ p ∈ plainStringFuncs E, FnOK p.2 := by
  intro p hp
  simp only [plainStringFuncs, List.mem_cons, List.mem_nil_iff, or_false] at hp
  rcases hp with rfl | rfl | rfl | rfl | rfl <;> exact fnOK_stringMethod _

theorem ok_ov1 {t : Tag} {f : Val → Val} (hf : ∀ v, Data v → Data (f v)) : OvOK (ov1 t f) := by
  intro this args _ ha
  simp only [ov1]
  split
  · exact hf _ (ha _ (by simp))
  · rfl

theorem ok_ov2 {t1 t2 : Tag} {f : Val → Val → Val} (hf : ∀ v w, Data (f v w)) : OvOK (ov2 t1 t2 f) := by
  intro this args _ _
  simp only [ov2]
  split
  · exact hf _ _
  · rfl

theorem data_absInt (i : Int) : Data (absInt i) := by unfold absInt; split <;> rfl
theorem data_powIntVal (n : Int) (e : Option Nat) : Data (powIntVal n e) := by
  unfold powIntVal; split
  · rfl
  · split <;> rfl
theorem data_powUintVal (n : Nat) (e : Option Nat) : Data (powUintVal n e) := by
  unfold powUintVal; split
  · rfl
  · split <;> rfl
theorem data_powFloatInt (a : UInt64) (e : Int) : Data (powFloatInt a e) := by
  unfold powFloatInt; split <;> rfl
theorem data_intLog (f : Nat → Nat) (v : Val) : Data (intLog f v) := by
  unfold intLog; split
  · split <;> rfl
  · split <;> rfl
  · rfl

theorem ok_rounding (f : UInt64 → Int) : ∀ o ∈ roundingOverloads f, OvOK o := by
  intro o ho
  simp only [roundingOverloads, List.mem_cons, List.mem_nil_iff, or_false] at ho
  rcases ho with rfl | rfl | rfl
  · exact ok_ov1 (fun v hv => hv)
  · exact ok_ov1 (fun v hv => hv)
  · exact ok_ov1 (fun v _ => by split <;> rfl)

theorem ok_mathFuncs : ∀ p ∈ mathFuncs, ∀ o ∈ p.2, OvOK o := by
  intro p hp
  simp only [mathFuncs, List.mem_cons, List.mem_nil_iff, or_false] at hp
  rcases hp with rfl | rfl | rfl | rfl | rfl | rfl | rfl | rfl
  · -- abs
    intro o ho
    simp only [List.mem_cons, List.mem_nil_iff, or_false] at ho
    rcases ho with rfl | rfl | rfl
    · exact ok_ov1 (fun v _ => by split <;> first | exact data_absInt _ | rfl)
    · exact ok_ov1 (fun v hv => hv)
    · exact ok_ov1 (fun v _ => by split <;> rfl)
  · -- sqrt
    intro o ho
    simp only [List.mem_cons, List.mem_nil_iff, or_false] at ho
    rcases ho with rfl | rfl | rfl <;> exact ok_ov1 (fun v _ => by split <;> rfl)
  · -- pow
    intro o ho
    simp only [List.mem_cons, List.mem_nil_iff, or_false] at ho
    rcases ho with rfl | rfl | rfl | rfl | rfl | rfl | rfl | rfl | rfl <;>
      exact ok_ov2 (fun v w => by
        split <;> first | exact data_powIntVal _ _ | exact data_powUintVal _ _ | exact data_powFloatInt _ _ | rfl)
  · -- log
    intro o ho
    simp only [List.mem_cons, List.mem_nil_iff, or_false] at ho
    rcases ho with rfl | rfl | rfl
    · exact ok_ov1 (fun v _ => data_intLog _ _)
    · exact ok_ov1 (fun v _ => data_intLog _ _)
    · exact ok_ov1 (fun v _ => by split <;> rfl)
  · -- lg
    intro o ho
    simp only [List.mem_cons, List.mem_nil_iff, or_false] at ho
    rcases ho with rfl | rfl | rfl
    · exact ok_ov1 (fun v _ => data_intLog _ _)
    · exact ok_ov1 (fun v _ => data_intLog _ _)
    · exact ok_ov1 (fun v _ => by split <;> rfl)
  · exact ok_rounding _
  · exact ok_rounding _
  · exact ok_rounding _

/-! ### the table -/

theorem ok_plainFuncs (now : Int) : ∀ p ∈ plainFuncs now, FnOK p.2 := by
  intro p hp
  simp only [plainFuncs, List.mem_cons, List.mem_nil_iff, or_false] at hp
  rcases hp with rfl | rfl | rfl | rfl
  · intro this args _ ha; exact data_minOf ha
  · intro this args _ ha; exact data_maxOf ha
  · intro this args _ ha; exact data_zipImpl ha
  · intro this args _ _; dsimp only; split <;> rfl

theorem ok_dispatchFuncs : ∀ p ∈ dispatchFuncs, ∀ o ∈ p.2, OvOK o := by
  intro p hp
  simp only [dispatchFuncs, List.mem_cons, List.mem_nil_iff, or_false] at hp
  rcases hp with rfl | rfl
  · exact ok_size
  · exact ok_sort

theorem mkBuiltins_ok (X : ConvExt) (now : Int) (extra : List (String × List Overload))
    (extraPlain : List (String × (Val → List Val → Val)))
    (hextra : ∀ p ∈ extra, ∀ o ∈ p.2, OvOK o) (hplain : ∀ p ∈ extraPlain, FnOK p.2) :
    BuiltinsOK (mkBuiltins X now extra extraPlain) := by
  constructor
  · intro name f this args hf ht ha
    simp only [mkBuiltins] at hf
    split at hf
    · rename_i p hp
      cases hf
      have hmem := List.mem_of_find?_eq_some hp
      rcases List.mem_append.mp hmem with h | h
      · exact ok_plainFuncs now p h this args ht ha
      · exact hplain p h this args ht ha
    · split at hf
      · rename_i p hp
        cases hf
        have hmem := List.mem_of_find?_eq_some hp
        rcases List.mem_append.mp hmem with h | h
        · exact fnOK_dispatch (ok_dispatchFuncs p h) this args ht ha
        · exact fnOK_dispatch (hextra p h) this args ht ha
      · cases hf
  · intro tn args ha
    exact ctorOK X now tn args ha

/-- **The model's built-ins return data on data**: `BuiltinsOK` holds for every table of library answers and
    every clock value, in particular for `stdBuiltins now`. -/
theorem tableBuiltins_ok (t : ExtTable) (now : Int) : BuiltinsOK (tableBuiltins t now) := by
  unfold tableBuiltins
  apply mkBuiltins_ok
  · intro p hp
    rcases List.mem_append.mp hp with h | h
    · exact ok_stringFuncs _ p h
    · exact ok_mathFuncs p h
  · exact ok_plainStringFuncs _

theorem stdBuiltins_ok (now : Int) : BuiltinsOK (stdBuiltins now) := tableBuiltins_ok [] now

end Seq
end Rscel
