import RscelModel.Lemmas.ParseLevels
/-
C02, main induction: parsing the token list a derivation tree derives gives back the tree.

`P k t`: the parser function of grammar level `k`, started in front of `render t ++ rest`, returns
`embed t` and stops in front of `rest`, whenever `rest` starts with a token that lets level `k` return.
`R k t` (binary levels): the same parse, seen as "first operand, then the loop", reaches the loop of
level `k` with accumulator `embed t` in front of `rest` — `rest` may go on with a level-`k` operator.
-/
namespace Rscel
namespace C02

def P (k : Nat) (t : T) : Prop :=
  ∀ (f : Nat) (ps : PS ListTok) (rest : TS) (d : Nat),
    fuel t + 2 * (8 - k) ≤ f → At ps (render t ++ rest) d →
    d + (if k = 0 then 1 else 0) + nest t ≤ maxNesting → stopAt k rest →
    ∃ ps', parseAt k f ps = .ok (embed t, ps') ∧ At ps' rest d

def R (k : Nat) (t : T) : Prop :=
  ∀ (g : Nat) (ps : PS ListTok) (rest : TS) (d : Nat),
    fuel t + 2 * (8 - k) ≤ g + spine k t → At ps (render t ++ rest) d →
    d + nest t ≤ maxNesting → stopAt (k + 1) rest →
    ∃ ps', parseAt k (g + spine k t) ps = loopAt k g (embed t) ps' ∧ At ps' rest d

/-! ### Binary levels -/

theorem R_of_P {k : Nat} {t : T} (hk : 1 ≤ k ∧ k ≤ 5) (hl : k < t.level) (h : P (k + 1) t) : R k t := by
  intro g ps rest d hf ha hn hs
  rw [spine_of_lt hl] at hf ⊢
  obtain ⟨ps', e, a'⟩ := h g ps rest d (by omega) ha (by simpa using hn) hs
  exact ⟨ps', parseAt_step hk e, a'⟩

theorem R_bin {op : BinOp} {osp : Span} {l r : T} (hl : R op.level l) (hr : P (op.level + 1) r) :
    R op.level (.bin op osp l r) := by
  intro g ps rest d hf ha hn hs
  have hsl := spine_le op.level l
  simp only [spine, if_true, fuel, nest] at hf hn ⊢
  have ha' : At ps (render l ++ ((tokOf op, osp) :: (render r ++ rest))) d := by simpa [render] using ha
  obtain ⟨ps1, e1, a1⟩ := hl (g + 1) ps _ d (by omega) ha' (by omega)
    (by simp [stopAt, bindOf_tokOf])
  obtain ⟨ps2, a2, step⟩ := loop_step a1
  obtain ⟨ps3, e3, a3⟩ := hr g ps2 rest d (by omega) a2 (by simp; omega) hs
  refine ⟨ps3, ?_, a3⟩
  have : g + (spine op.level l + 1) = (g + 1) + spine op.level l := by omega
  rw [this, e1, step g _ _ _ e3]
  rfl

theorem P_of_R {k : Nat} {t : T} (hk : 1 ≤ k ∧ k ≤ 5) (h : R k t) : P k t := by
  intro f ps rest d hf ha hn hs
  have hsl := spine_le k t
  have hk0 : k ≠ 0 := by omega
  obtain ⟨g, rfl⟩ : ∃ g, f = (g + 1) + spine k t := ⟨f - spine k t - 1, by omega⟩
  obtain ⟨ps1, e1, a1⟩ := h (g + 1) ps rest d (by omega) ha (by simpa [hk0] using hn)
    (stopAt_mono hs (by omega))
  obtain ⟨ps2, e2, a2⟩ := loop_stop (f := g) hk (embed t) a1 hs
  exact ⟨ps2, by rw [e1, e2], a2⟩

/-! ### Member level -/

/-- `M t` (members): parsing `t` as a member, seen as "primary, then the postfix loop", reaches the loop
    with the primary and chain of `embed t` in front of `rest` — which may go on with more postfix
    operations. -/
def M (t : T) : Prop :=
  ∀ (g : Nat) (ps : PS ListTok) (rest : TS) (d : Nat),
    fuel t + 2 ≤ g + mspine t → At ps (render t ++ rest) d → d + nest t ≤ maxNesting →
    ∃ ps' p chain, embed t = mkMember p chain ∧
      parseMember listSrc (g + mspine t) ps = parseMemberLoop listSrc g p chain.reverse ps' ∧ At ps' rest d

theorem memberLoop_stop {f : Nat} {ps : PS ListTok} {rest : TS} {d : Nat} (p : Prim) (acc : List MOp)
    (ha : At ps rest d) (hs : stopAt 7 rest) :
    ∃ ps', parseMemberLoop listSrc (f + 1) p acc ps = .ok (mkMember p acc.reverse, ps') ∧ At ps' rest d := by
  obtain ⟨ps1, e1, a1⟩ := pPeek_at ha
  refine ⟨ps1, ?_, a1⟩
  rw [parseMemberLoop, e1]
  cases rest with
  | nil => rfl
  | cons x r =>
    obtain ⟨tk, sp'⟩ := x
    cases tk <;> first | rfl | (simp [stopAt, bindOf] at hs)

theorem P7_of_M {t : T} (h : M t) : P 7 t := by
  intro f ps rest d hf ha hn hs
  have hsl := mspine_le t
  obtain ⟨g, rfl⟩ : ∃ g, f = (g + 1) + mspine t := ⟨f - mspine t - 1, by omega⟩
  obtain ⟨ps1, p, chain, he, e1, a1⟩ := h (g + 1) ps rest d (by omega) ha (by simpa using hn)
  obtain ⟨ps2, e2, a2⟩ := memberLoop_stop (f := g) p chain.reverse a1 hs
  refine ⟨ps2, ?_, a2⟩
  simp only [parseAt]
  rw [e1, e2, he, List.reverse_reverse]

theorem M_ident (sp : Span) (n : Str) : M (.ident sp n) := by
  intro g ps rest d hf ha hn
  obtain ⟨g, rfl⟩ : ∃ g', g = g' + 1 := ⟨g - 1, by simp [fuel, mspine] at hf; omega⟩
  obtain ⟨ps1, e1, a1⟩ := pNext_at (by simpa [render] using ha)
  refine ⟨ps1, .ident sp n, [], rfl, ?_, a1⟩
  simp only [mspine]
  rw [parseMember, parsePrimary, e1]
  rfl

theorem M_int (sp : Span) (n : Nat) (hw : (n : Int) ≤ i64Max) : M (.int sp n) := by
  intro g ps rest d hf ha hn
  obtain ⟨g, rfl⟩ : ∃ g', g = g' + 1 := ⟨g - 1, by simp [fuel, mspine] at hf; omega⟩
  obtain ⟨ps1, e1, a1⟩ := pNext_at (by simpa [render] using ha)
  have a1' : At { ps1 with minLit := false } rest d := by
    obtain ⟨h1, h2, h3, h4⟩ := a1; exact ⟨h1, h2, rfl, h4⟩
  refine ⟨_, .int sp n, [], rfl, ?_, a1'⟩
  simp only [mspine]
  rw [parseMember, parsePrimary, e1]
  simp only [hw, if_true]
  rfl

theorem M_paren {lsp rsp : Span} {e : T} (h : P 0 e) : M (.paren lsp rsp e) := by
  intro g ps rest d hf ha hn
  simp only [fuel, nest, mspine] at hf hn ⊢
  obtain ⟨g, rfl⟩ : ∃ g', g = g' + 1 := ⟨g - 1, by omega⟩
  obtain ⟨ps1, e1, a1⟩ := pNext_at (t := (Tok.lparen, lsp)) (r := render e ++ ((Tok.rparen, rsp) :: rest))
    (by simpa [render] using ha)
  obtain ⟨ps2, e2, a2⟩ := h g ps1 _ d (by omega) a1 (by simp at hn ⊢; omega) (by simp [stopAt, bindOf])
  obtain ⟨ps3, e3, a3⟩ := pNext_at a2
  refine ⟨ps3, .parens (lsp.join rsp) (embed e), [], rfl, ?_, a3⟩
  simp only [parseAt] at e2
  rw [parseMember, parsePrimary, e1]
  simp only [e2, e3]
  rfl

theorem snoc_mk (p : Prim) (chain : List MOp) (op : MOp) :
    snocOp (mkMember p chain) op = mkMember p (chain ++ [op]) := rfl

theorem M_access {e : T} {dsp isp : Span} {name : Str} (h : M e) : M (.access e dsp isp name) := by
  intro g ps rest d hf ha hn
  simp only [fuel, nest, mspine] at hf hn ⊢
  have ha' : At ps (render e ++ ((Tok.dot, dsp) :: (Tok.ident name, isp) :: rest)) d := by
    simpa [render] using ha
  obtain ⟨ps1, p, chain, he, e1, a1⟩ := h (g + 1) ps _ d (by omega) ha' hn
  obtain ⟨ps2, e2, a2⟩ := pPeek_at a1
  obtain ⟨ps3, e3, a3⟩ := pNext_at a2
  obtain ⟨ps4, e4, a4⟩ := pNext_at a3
  refine ⟨ps4, p, chain ++ [.access (dsp.join isp) isp name], ?_, ?_, a4⟩
  · simp only [embed, he, snoc_mk]
  · have : g + (mspine e + 1) = (g + 1) + mspine e := by omega
    rw [this, e1, parseMemberLoop, e2]
    simp only [List.head?, e3, e4, List.reverse_append, List.reverse_cons, List.reverse_nil, List.nil_append,
      List.cons_append]

theorem M_index {e i : T} {lsp rsp : Span} (h : M e) (hi : P 0 i) : M (.index e lsp rsp i) := by
  intro g ps rest d hf ha hn
  have hsl := mspine_le e
  simp only [fuel, nest, mspine] at hf hn ⊢
  have ha' : At ps (render e ++ ((Tok.lbracket, lsp) :: (render i ++ ((Tok.rbracket, rsp) :: rest)))) d := by
    simpa [render] using ha
  obtain ⟨ps1, p, chain, he, e1, a1⟩ := h (g + 1) ps _ d (by omega) ha' (by omega)
  obtain ⟨ps2, e2, a2⟩ := pPeek_at a1
  obtain ⟨ps3, e3, a3⟩ := pNext_at a2
  obtain ⟨ps4, e4, a4⟩ := hi g ps3 _ d (by omega) a3 (by simp; omega) (by simp [stopAt, bindOf])
  obtain ⟨ps5, e5, a5⟩ := pNext_at a4
  refine ⟨ps5, p, chain ++ [.index (lsp.join rsp) (embed i)], ?_, ?_, a5⟩
  · simp only [embed, he, snoc_mk]
  · have : g + (mspine e + 1) = (g + 1) + mspine e := by omega
    simp only [parseAt] at e4
    rw [this, e1, parseMemberLoop, e2]
    simp only [List.head?, e3, e4, e5, List.reverse_append, List.reverse_cons, List.reverse_nil, List.nil_append,
      List.cons_append]

/-! #### Call arguments -/

theorem startTok_ne_rparen {tk : Tok} (h : startTok tk = true) : tk ≠ .rparen := by
  cases tk <;> simp [startTok] at h ⊢

theorem exprList_end {f : Nat} {ps : PS ListTok} {rest : TS} {d : Nat} {r : Span} (acc : List Ast)
    (ha : At ps ((Tok.rparen, r) :: rest) d) :
    ∃ ps', parseExprList listSrc (f + 1) .rparen acc ps = .ok (acc.reverse, ps') ∧
      At ps' ((Tok.rparen, r) :: rest) d := by
  obtain ⟨ps1, e1, a1⟩ := pPeek_at ha
  refine ⟨ps1, ?_, a1⟩
  rw [parseExprList, e1]
  simp

theorem exprList_last {a : T} (h : P 0 a) {f : Nat} {ps : PS ListTok} {rest : TS} {d : Nat} {r : Span}
    (acc : List Ast) (hf : fuel a + 16 ≤ f) (ha : At ps (render a ++ ((Tok.rparen, r) :: rest)) d)
    (hn : d + 1 + nest a ≤ maxNesting) :
    ∃ ps', parseExprList listSrc (f + 1) .rparen acc ps = .ok ((embed a :: acc).reverse, ps') ∧
      At ps' ((Tok.rparen, r) :: rest) d := by
  obtain ⟨tk, sp, r', hr, hst, _⟩ := render_head a
  obtain ⟨ps1, e1, a1⟩ := pPeek_at ha
  obtain ⟨ps2, e2, a2⟩ := h f ps1 _ d (by omega) a1 (by simpa using hn) (by simp [stopAt, bindOf])
  obtain ⟨ps3, e3, a3⟩ := pPeek_at a2
  refine ⟨ps3, ?_, a3⟩
  simp only [parseAt] at e2
  rw [parseExprList, e1]
  simp only [hr, List.cons_append, List.head?, Option.map, Option.some.injEq, startTok_ne_rparen hst, if_false, e2, e3]

theorem exprList_two {a b : T} (h1 : P 0 a) (h2 : P 0 b) {f : Nat} {ps : PS ListTok} {rest : TS} {d : Nat}
    {c r : Span} (acc : List Ast) (hf : fuel a + fuel b + 17 ≤ f)
    (ha : At ps (render a ++ ((Tok.comma, c) :: (render b ++ ((Tok.rparen, r) :: rest)))) d)
    (hn : d + 1 + max (nest a) (nest b) ≤ maxNesting) :
    ∃ ps', parseExprList listSrc (f + 1) .rparen acc ps = .ok ((embed b :: embed a :: acc).reverse, ps') ∧
      At ps' ((Tok.rparen, r) :: rest) d := by
  obtain ⟨f, rfl⟩ : ∃ f', f = f' + 1 := ⟨f - 1, by omega⟩
  obtain ⟨tk, sp, r', hr, hst, _⟩ := render_head a
  obtain ⟨ps1, e1, a1⟩ := pPeek_at ha
  obtain ⟨ps2, e2, a2⟩ := h1 (f + 1) ps1 _ d (by omega) a1 (by simp; omega) (by simp [stopAt, bindOf])
  obtain ⟨ps3, e3, a3⟩ := pPeek_at a2
  obtain ⟨ps4, e4, a4⟩ := pNext_at a3
  obtain ⟨ps5, e5, a5⟩ := exprList_last h2 (f := f) (embed a :: acc) (by omega) a4 (by omega)
  refine ⟨ps5, ?_, a5⟩
  simp only [parseAt] at e2
  rw [parseExprList, e1]
  simp only [hr, List.cons_append, List.head?, Option.map, Option.some.injEq, startTok_ne_rparen hst, if_false, e2, e3,
    e4, e5]

theorem M_call0 {e : T} {lsp rsp : Span} (h : M e) : M (.call0 e lsp rsp) := by
  intro g ps rest d hf ha hn
  have hsl := mspine_le e
  simp only [fuel, nest, mspine] at hf hn ⊢
  obtain ⟨g, rfl⟩ : ∃ g', g = g' + 1 := ⟨g - 1, by omega⟩
  have ha' : At ps (render e ++ ((Tok.lparen, lsp) :: (Tok.rparen, rsp) :: rest)) d := by
    simpa [render] using ha
  obtain ⟨ps1, p, chain, he, e1, a1⟩ := h (g + 2) ps _ d (by omega) ha' hn
  obtain ⟨ps2, e2, a2⟩ := pPeek_at a1
  obtain ⟨ps3, e3, a3⟩ := pNext_at a2
  obtain ⟨ps4, e4, a4⟩ := exprList_end (f := g) [] a3
  obtain ⟨ps5, e5, a5⟩ := pNext_at a4
  refine ⟨ps5, p, chain ++ [.call (lsp.join rsp) []], ?_, ?_, a5⟩
  · simp only [embed, he, snoc_mk]
  · have : g + 1 + (mspine e + 1) = (g + 2) + mspine e := by omega
    rw [this, e1, parseMemberLoop, e2]
    simp only [List.head?, e3, e4, e5, List.reverse_append, List.reverse_cons, List.reverse_nil, List.nil_append,
      List.cons_append]

theorem M_call1 {e a : T} {lsp rsp : Span} (h : M e) (h1 : P 0 a) : M (.call1 e lsp rsp a) := by
  intro g ps rest d hf ha hn
  have hsl := mspine_le e
  simp only [fuel, nest, mspine] at hf hn ⊢
  obtain ⟨g, rfl⟩ : ∃ g', g = g' + 1 := ⟨g - 1, by omega⟩
  have ha' : At ps (render e ++ ((Tok.lparen, lsp) :: (render a ++ ((Tok.rparen, rsp) :: rest)))) d := by
    simpa [render] using ha
  obtain ⟨ps1, p, chain, he, e1, a1⟩ := h (g + 2) ps _ d (by omega) ha' (by omega)
  obtain ⟨ps2, e2, a2⟩ := pPeek_at a1
  obtain ⟨ps3, e3, a3⟩ := pNext_at a2
  obtain ⟨ps4, e4, a4⟩ := exprList_last h1 (f := g) [] (by omega) a3 (by omega)
  obtain ⟨ps5, e5, a5⟩ := pNext_at a4
  refine ⟨ps5, p, chain ++ [.call (lsp.join rsp) [embed a]], ?_, ?_, a5⟩
  · simp only [embed, he, snoc_mk]
  · have : g + 1 + (mspine e + 1) = (g + 2) + mspine e := by omega
    rw [this, e1, parseMemberLoop, e2]
    simp only [List.head?, e3, e4, e5, List.reverse_append, List.reverse_cons, List.reverse_nil, List.nil_append,
      List.cons_append]

theorem M_call2 {e a b : T} {lsp rsp csp : Span} (h : M e) (h1 : P 0 a) (h2 : P 0 b) :
    M (.call2 e lsp rsp a csp b) := by
  intro g ps rest d hf ha hn
  have hsl := mspine_le e
  simp only [fuel, nest, mspine] at hf hn ⊢
  obtain ⟨g, rfl⟩ : ∃ g', g = g' + 1 := ⟨g - 1, by omega⟩
  have ha' : At ps (render e ++ ((Tok.lparen, lsp) :: (render a ++ ((Tok.comma, csp) ::
      (render b ++ ((Tok.rparen, rsp) :: rest)))))) d := by
    simpa [render] using ha
  obtain ⟨ps1, p, chain, he, e1, a1⟩ := h (g + 2) ps _ d (by omega) ha' (by omega)
  obtain ⟨ps2, e2, a2⟩ := pPeek_at a1
  obtain ⟨ps3, e3, a3⟩ := pNext_at a2
  obtain ⟨ps4, e4, a4⟩ := exprList_two h1 h2 (f := g) [] (by omega) a3 (by omega)
  obtain ⟨ps5, e5, a5⟩ := pNext_at a4
  refine ⟨ps5, p, chain ++ [.call (lsp.join rsp) [embed b, embed a]], ?_, ?_, a5⟩
  · simp only [embed, he, snoc_mk]
  · have : g + 1 + (mspine e + 1) = (g + 2) + mspine e := by omega
    rw [this, e1, parseMemberLoop, e2]
    simp only [List.head?, e3, e4, e5, List.reverse_append, List.reverse_cons, List.reverse_nil, List.nil_append,
      List.cons_append]

/-! ### Unary level -/

theorem P6_of_P7 {t : T} (hw : t.Wf) (hl : 7 ≤ t.level) (h : P 7 t) : P 6 t := by
  intro f ps rest d hf ha hn hs
  obtain ⟨tk, sp, r, hr, _, hne⟩ := render_head t
  obtain ⟨hn1, hn2⟩ := hne hw hl
  obtain ⟨f, rfl⟩ : ∃ f', f = f' + 1 := ⟨f - 1, by omega⟩
  obtain ⟨ps1, e1, a1⟩ := pPeek_at ha
  obtain ⟨ps2, e2, a2⟩ := h f ps1 rest d (by omega) a1 (by simpa using hn) (stopAt_mono hs (by omega))
  refine ⟨ps2, ?_, a2⟩
  simp only [parseAt] at e2 ⊢
  rw [parseUnary, e1]
  simp only [hr, List.cons_append, List.head?]
  split <;> simp_all

theorem opRun_spec (op : Tok) (ops : List Span) :
    ∀ (f : Nat) (acc : List Span) (ps : PS ListTok) (rest : TS) (d : Nat),
      ops.length + 1 ≤ f → At ps (ops.map (fun s => (op, s)) ++ rest) d → d + ops.length ≤ maxNesting →
      (∀ sp r, rest = (op, sp) :: r → False) →
      ∃ ps', parseOpRun listSrc f op acc ps = .ok (acc.reverse ++ ops, ps') ∧ At ps' rest d := by
  induction ops with
  | nil =>
    intro f acc ps rest d hf ha hn hne
    obtain ⟨f, rfl⟩ : ∃ f', f = f' + 1 := ⟨f - 1, by simp at hf; omega⟩
    obtain ⟨ps1, e1, a1⟩ := pPeek_at ha
    refine ⟨ps1, ?_, by simpa using a1⟩
    rw [parseOpRun, e1]
    cases rest with
    | nil => simp
    | cons x r =>
      obtain ⟨tk, sp⟩ := x
      have : tk ≠ op := fun h => hne sp r (by rw [h])
      simp [this]
  | cons o os ih =>
    intro f acc ps rest d hf ha hn hne
    obtain ⟨f, rfl⟩ : ∃ f', f = f' + 1 := ⟨f - 1, by simp at hf; omega⟩
    simp only [List.map_cons, List.cons_append, List.length_cons] at ha hf hn
    obtain ⟨ps1, e1, a1⟩ := pPeek_at ha
    obtain ⟨ps2, e2, a2⟩ := pNext_at a1
    obtain ⟨ps3, e3, a3⟩ := ih f (o :: acc) _ rest (d + 1) (by omega) (At_enter a2) (by omega) hne
    refine ⟨{ ps3 with depth := ps3.depth - 1 }, ?_, At_leave a3⟩
    rw [parseOpRun, e1]
    have hd : ¬ ps2.depth ≥ maxNesting := by rw [At_depth a2]; omega
    simp only [List.head?, if_true, e2, hd, if_false, e3]
    simp

end C02
end Rscel
