import RscelModel.Lemmas.ParseLevels
/-
C02, main induction: parsing the token list a derivation tree derives gives back the tree.

`P k t`: the parser function of grammar level `k`, started in front of `render t ++ rest`, returns
`embed t` and stops in front of `rest`, whenever `rest` starts with a token that lets level `k` return.
`R k t` (binary levels): the same parse, seen as "first operand, then the loop", reaches the loop of
level `k` with accumulator `embed t` in front of `rest` — `rest` may go on with a level-`k` operator.
-/
namespace Rscel
namespace C02

def P (k : Nat) (t : T) : Prop :=
  ∀ (f : Nat) (ps : PS ListTok) (rest : TS) (d : Nat),
    fuel t + 2 * (8 - k) ≤ f → At ps (render t ++ rest) d →
    d + (if k = 0 then 1 else 0) + nest t ≤ maxNesting → stopAt k rest →
    ∃ ps', parseAt k f ps = .ok (embed t, ps') ∧ At ps' rest d

def R (k : Nat) (t : T) : Prop :=
  ∀ (g : Nat) (ps : PS ListTok) (rest : TS) (d : Nat),
    fuel t + 2 * (8 - k) ≤ g + spine k t → At ps (render t ++ rest) d →
    d + nest t ≤ maxNesting → stopAt (k + 1) rest →
    ∃ ps', parseAt k (g + spine k t) ps = loopAt k g (embed t) ps' ∧ At ps' rest d

/-! ### Binary levels -/

theorem R_of_P {k : Nat} {t : T} (hk : 1 ≤ k ∧ k ≤ 5) (hl : k < t.level) (h : P (k + 1) t) : R k t := by
  intro g ps rest d hf ha hn hs
  rw [spine_of_lt hl] at hf ⊢
  obtain ⟨ps', e, a'⟩ := h g ps rest d (by omega) ha (by simpa using hn) hs
  exact ⟨ps', parseAt_step hk e, a'⟩

theorem R_bin {op : BinOp} {osp : Span} {l r : T} (hl : R op.level l) (hr : P (op.level + 1) r) :
    R op.level (.bin op osp l r) := by
  intro g ps rest d hf ha hn hs
  have hsl := spine_le op.level l
  simp only [spine, if_true, fuel, nest] at hf hn ⊢
  have ha' : At ps (render l ++ ((tokOf op, osp) :: (render r ++ rest))) d := by simpa [render] using ha
  obtain ⟨ps1, e1, a1⟩ := hl (g + 1) ps _ d (by omega) ha' (by omega)
    (by simp [stopAt, bindOf_tokOf])
  obtain ⟨ps2, a2, step⟩ := loop_step a1
  obtain ⟨ps3, e3, a3⟩ := hr g ps2 rest d (by omega) a2 (by simp; omega) hs
  refine ⟨ps3, ?_, a3⟩
  have : g + (spine op.level l + 1) = (g + 1) + spine op.level l := by omega
  rw [this, e1, step g _ _ _ e3]
  rfl

theorem P_of_R {k : Nat} {t : T} (hk : 1 ≤ k ∧ k ≤ 5) (h : R k t) : P k t := by
  intro f ps rest d hf ha hn hs
  have hsl := spine_le k t
  have hk0 : k ≠ 0 := by omega
  obtain ⟨g, rfl⟩ : ∃ g, f = (g + 1) + spine k t := ⟨f - spine k t - 1, by omega⟩
  obtain ⟨ps1, e1, a1⟩ := h (g + 1) ps rest d (by omega) ha (by simpa [hk0] using hn)
    (stopAt_mono hs (by omega))
  obtain ⟨ps2, e2, a2⟩ := loop_stop (f := g) hk (embed t) a1 hs
  exact ⟨ps2, by rw [e1, e2], a2⟩

/-! ### Member level -/

theorem memberLoop_stop {f : Nat} {ps : PS ListTok} {rest : TS} {d : Nat} (ha : At ps rest d)
    (hs : stopAt 7 rest) :
    ∃ ps', At ps' rest d ∧
      (∀ sp n, parseMemberLoop listSrc (f + 1) (.ident sp n) [] ps = .ok (.member sp (.ident sp n) [], ps')) ∧
      (∀ sp n, parseMemberLoop listSrc (f + 1) (.int sp n) [] ps = .ok (.member sp (.int sp n) [], ps')) ∧
      (∀ sp e, parseMemberLoop listSrc (f + 1) (.parens sp e) [] ps = .ok (.member sp (.parens sp e) [], ps')) := by
  obtain ⟨ps1, e1, a1⟩ := pPeek_at ha
  refine ⟨ps1, a1, ?_, ?_, ?_⟩ <;> intros <;> rw [parseMemberLoop, e1] <;>
  · cases rest with
    | nil => rfl
    | cons x r =>
      obtain ⟨tk, sp'⟩ := x
      cases tk <;> first | rfl | (simp [stopAt, bindOf] at hs)

theorem P7_ident (sp : Span) (n : Str) : P 7 (.ident sp n) := by
  intro f ps rest d hf ha hn hs
  obtain ⟨f, rfl⟩ : ∃ f', f = f' + 2 := ⟨f - 2, by simp [fuel] at hf; omega⟩
  obtain ⟨ps1, e1, a1⟩ := pNext_at (by simpa [render] using ha)
  obtain ⟨ps2, a2, h1, _, _⟩ := memberLoop_stop (f := f) a1 hs
  refine ⟨ps2, ?_, a2⟩
  simp only [parseAt, embed]
  rw [parseMember, parsePrimary, e1]
  exact h1 sp n

theorem P7_int (sp : Span) (n : Nat) (hw : (n : Int) ≤ i64Max) : P 7 (.int sp n) := by
  intro f ps rest d hf ha hn hs
  obtain ⟨f, rfl⟩ : ∃ f', f = f' + 2 := ⟨f - 2, by simp [fuel] at hf; omega⟩
  obtain ⟨ps1, e1, a1⟩ := pNext_at (by simpa [render] using ha)
  have a1' : At { ps1 with minLit := false } rest d := by
    obtain ⟨h1, h2, h3, h4⟩ := a1; exact ⟨h1, h2, rfl, h4⟩
  obtain ⟨ps2, a2, _, h2, _⟩ := memberLoop_stop (f := f) a1' hs
  refine ⟨ps2, ?_, a2⟩
  simp only [parseAt, embed]
  rw [parseMember, parsePrimary, e1]
  simp only [hw, if_true]
  exact h2 sp n

theorem P7_paren {lsp rsp : Span} {e : T} (h : P 0 e) : P 7 (.paren lsp rsp e) := by
  intro f ps rest d hf ha hn hs
  obtain ⟨f, rfl⟩ : ∃ f', f = f' + 2 := ⟨f - 2, by simp [fuel] at hf; omega⟩
  simp only [fuel, nest] at hf hn
  obtain ⟨ps1, e1, a1⟩ := pNext_at (t := (Tok.lparen, lsp)) (r := render e ++ ((Tok.rparen, rsp) :: rest))
    (by simpa [render] using ha)
  obtain ⟨ps2, e2, a2⟩ := h f ps1 _ d (by omega) a1 (by simp at hn ⊢; omega) (by simp [stopAt, bindOf])
  obtain ⟨ps3, e3, a3⟩ := pNext_at a2
  obtain ⟨ps4, a4, _, _, h3⟩ := memberLoop_stop (f := f) a3 hs
  refine ⟨ps4, ?_, a4⟩
  simp only [parseAt, embed] at e2 ⊢
  rw [parseMember, parsePrimary, e1]
  simp only [e2, e3]
  exact h3 _ _

/-! ### Unary level -/

theorem P6_of_P7 {t : T} (hl : 7 ≤ t.level) (h : P 7 t) : P 6 t := by
  intro f ps rest d hf ha hn hs
  obtain ⟨tk, sp, r, hr, _, hne⟩ := render_head t
  obtain ⟨hn1, hn2⟩ := hne hl
  obtain ⟨f, rfl⟩ : ∃ f', f = f' + 1 := ⟨f - 1, by omega⟩
  obtain ⟨ps1, e1, a1⟩ := pPeek_at ha
  obtain ⟨ps2, e2, a2⟩ := h f ps1 rest d (by omega) a1 (by simpa using hn) (stopAt_mono hs (by omega))
  refine ⟨ps2, ?_, a2⟩
  simp only [parseAt] at e2 ⊢
  rw [parseUnary, e1]
  simp only [hr, List.cons_append, List.head?]
  split <;> simp_all

theorem opRun_spec (op : Tok) (ops : List Span) :
    ∀ (f : Nat) (acc : List Span) (ps : PS ListTok) (rest : TS) (d : Nat),
      ops.length + 1 ≤ f → At ps (ops.map (fun s => (op, s)) ++ rest) d → d + ops.length ≤ maxNesting →
      (∀ sp r, rest = (op, sp) :: r → False) →
      ∃ ps', parseOpRun listSrc f op acc ps = .ok (acc.reverse ++ ops, ps') ∧ At ps' rest d := by
  induction ops with
  | nil =>
    intro f acc ps rest d hf ha hn hne
    obtain ⟨f, rfl⟩ : ∃ f', f = f' + 1 := ⟨f - 1, by simp at hf; omega⟩
    obtain ⟨ps1, e1, a1⟩ := pPeek_at ha
    refine ⟨ps1, ?_, by simpa using a1⟩
    rw [parseOpRun, e1]
    cases rest with
    | nil => simp
    | cons x r =>
      obtain ⟨tk, sp⟩ := x
      have : tk ≠ op := fun h => hne sp r (by rw [h])
      simp [this]
  | cons o os ih =>
    intro f acc ps rest d hf ha hn hne
    obtain ⟨f, rfl⟩ : ∃ f', f = f' + 1 := ⟨f - 1, by simp at hf; omega⟩
    simp only [List.map_cons, List.cons_append, List.length_cons] at ha hf hn
    obtain ⟨ps1, e1, a1⟩ := pPeek_at ha
    obtain ⟨ps2, e2, a2⟩ := pNext_at a1
    obtain ⟨ps3, e3, a3⟩ := ih f (o :: acc) _ rest (d + 1) (by omega) (At_enter a2) (by omega) hne
    refine ⟨{ ps3 with depth := ps3.depth - 1 }, ?_, At_leave a3⟩
    rw [parseOpRun, e1]
    have hd : ¬ ps2.depth ≥ maxNesting := by rw [At_depth a2]; omega
    simp only [List.head?, if_true, e2, hd, if_false, e3]
    simp

end C02
end Rscel
