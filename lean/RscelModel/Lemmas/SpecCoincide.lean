import RscelModel.Model.Spec
import RscelModel.Model.Params
/-
The coincidence lemma of the declarative semantics (`Model/Spec.lean`): on the fragment `Frag`, the value
of a tree depends on the environment only through what the identifiers *that occur in the tree* resolve to.
Used by `Theorems/C17Sem.lean`.
-/
namespace Rscel
namespace SpecCoincide

variable {B : Builtins}

theorem es_member_nil (sp : Span) (p : Prim) (env : Env) :
    evalSpec B (.member sp p []) env = evalSpecPrim B p env := by
  rw [evalSpec, evalSpecOps]
  intros; simp_all

/-! ### `identsOf` on the constructors of the fragment -/

theorem ids_member_nil (sp : Span) (p : Prim) : identsOf (.member sp p []) = identsOfPrim p := by
  simp [identsOf, identsOfOps]

theorem mem_identsOfList {n : Str} : ∀ {es : List Ast}, n ∈ identsOfList es ↔ ∃ e ∈ es, n ∈ identsOf e
  | [] => by simp [identsOfList]
  | e :: es => by
    simp only [identsOfList, List.mem_append, List.mem_cons, exists_eq_or_imp, mem_identsOfList (es := es)]

theorem mem_identsOfCases_arm {n : Str} {sp : Span} {p : Pat} {b : Ast} :
    ∀ {cases : List MCase}, MCase.mk sp p b ∈ cases → n ∈ identsOf b → n ∈ identsOfCases cases
  | [], h, _ => by cases h
  | .mk sp' p' b' :: rest, h, hn => by
    simp only [identsOfCases, List.mem_append]
    rcases List.mem_cons.mp h with h | h
    · cases h; exact Or.inl (Or.inr hn)
    · exact Or.inr (mem_identsOfCases_arm h hn)

theorem mem_identsOfCases_cmp {n : Str} {sp sp1 sp2 : Span} {op : CmpOp} {e b : Ast} :
    ∀ {cases : List MCase}, MCase.mk sp (.cmp sp1 sp2 op e) b ∈ cases → n ∈ identsOf e → n ∈ identsOfCases cases
  | [], h, _ => by cases h
  | .mk sp' p' b' :: rest, h, hn => by
    simp only [identsOfCases, List.mem_append]
    rcases List.mem_cons.mp h with h | h
    · cases h; exact Or.inl (Or.inl (by simpa [identsOfPat] using hn))
    · exact Or.inr (mem_identsOfCases_cmp h hn)

/-! ### congruence of the list / case walkers -/

theorem evalSpecList_congr {env₁ env₂ : Env} :
    ∀ (es : List Ast), (∀ e ∈ es, evalSpec B e env₁ = evalSpec B e env₂) → evalSpecList B es env₁ = evalSpecList B es env₂
  | [], _ => by simp [evalSpecList]
  | e :: es, h => by
    simp only [evalSpecList]
    rw [h e (List.mem_cons_self ..), evalSpecList_congr es (fun e' he' => h e' (List.mem_cons_of_mem _ he'))]

theorem evalSpecCases_congr {env₁ env₂ : Env} (vs : Val) :
    ∀ (cases : List MCase),
      (∀ sp p b, MCase.mk sp p b ∈ cases → evalSpec B b env₁ = evalSpec B b env₂) →
      (∀ sp sp1 sp2 op e b, MCase.mk sp (.cmp sp1 sp2 op e) b ∈ cases → evalSpec B e env₁ = evalSpec B e env₂) →
      (∀ sp sp1 t name b, MCase.mk sp (.type sp1 t name) b ∉ cases) →
      evalSpecCases B cases vs env₁ = evalSpecCases B cases vs env₂
  | [], _, _, _ => by simp [evalSpecCases]
  | .mk sp p b :: rest, harm, hcmp, hnt => by
    have hp : evalSpecPat B p vs env₁ = evalSpecPat B p vs env₂ := by
      cases p with
      | any _ => simp [evalSpecPat]
      | type sp1 t name => exact absurd (List.mem_cons_self ..) (hnt sp sp1 t name b)
      | cmp sp1 sp2 op e => simp only [evalSpecPat]; rw [hcmp sp sp1 sp2 op e b (List.mem_cons_self ..)]
    have hb := harm sp p b (List.mem_cons_self ..)
    have hr := evalSpecCases_congr vs rest
      (fun sp' p' b' h => harm sp' p' b' (List.mem_cons_of_mem _ h))
      (fun sp' sp1 sp2 op e b' h => hcmp sp' sp1 sp2 op e b' (List.mem_cons_of_mem _ h))
      (fun sp' sp1 t name b' h => hnt sp' sp1 t name b' (List.mem_cons_of_mem _ h))
    simp only [evalSpecCases, hp, hb, hr]

/-- **Coincidence.**  Two environments in which every identifier occurring in `e` resolves alike give `e`
    the same value. -/
theorem coincide {m : Bool} {e : Ast} (h : Frag m e) {env₁ env₂ : Env} :
    (∀ n ∈ identsOf e, resolveIdent env₁ n = resolveIdent env₂ n) → evalSpec B e env₁ = evalSpec B e env₂ := by
  induction h with
  | null sp sp' => intro _; simp [es_member_nil, evalSpecPrim]
  | int sp sp' i => intro _; simp [es_member_nil, evalSpecPrim]
  | uint sp sp' n => intro _; simp [es_member_nil, evalSpecPrim]
  | float sp sp' b => intro _; simp [es_member_nil, evalSpecPrim]
  | str sp sp' s => intro _; simp [es_member_nil, evalSpecPrim]
  | bytes sp sp' b => intro _; simp [es_member_nil, evalSpecPrim]
  | bool sp sp' b => intro _; simp [es_member_nil, evalSpecPrim]
  | ident sp sp' n =>
    intro hag
    simp only [es_member_nil, evalSpecPrim]
    exact hag n (by simp [identsOf, identsOfPrim])
  | parens sp sp' e _ ih =>
    intro hag
    simp only [es_member_nil, evalSpecPrim]
    exact ih (fun n hn => hag n (by simpa [identsOf, identsOfPrim, identsOfOps] using hn))
  | list sp sp' es _ ih =>
    intro hag
    simp only [es_member_nil, evalSpecPrim]
    rw [evalSpecList_congr es (fun e he => ih e he (fun n hn => hag n (by
      rw [ids_member_nil]; simp only [identsOfPrim]; exact mem_identsOfList.mpr ⟨e, he, hn⟩)))]
  | notRun sp ops x _ ih =>
    intro hag
    simp only [evalSpec]
    rw [ih (fun n hn => hag n (by simpa [identsOf] using hn))]
  | negRun sp ops x _ ih =>
    intro hag
    simp only [evalSpec]
    rw [ih (fun n hn => hag n (by simpa [identsOf] using hn))]
  | bin sp op l r _ _ ihl ihr =>
    intro hag
    have hl := ihl (fun n hn => hag n (by simp only [identsOf, List.mem_append]; exact Or.inl hn))
    have hr := ihr (fun n hn => hag n (by simp only [identsOf, List.mem_append]; exact Or.inr hn))
    cases op <;> simp only [evalSpec, hl, hr]
  | tern sp c t f _ _ _ ihc iht ihf =>
    intro hag
    have hc := ihc (fun n hn => hag n (by simp only [identsOf, List.mem_append]; exact Or.inl (Or.inl hn)))
    have ht := iht (fun n hn => hag n (by simp only [identsOf, List.mem_append]; exact Or.inl (Or.inr hn)))
    have hf := ihf (fun n hn => hag n (by simp only [identsOf, List.mem_append]; exact Or.inr hn))
    simp only [evalSpec, hc, ht, hf]
  | match_ sp s cases _ _ _ _ hnt ihs iharm ihcmp =>
    intro hag
    have hs := ihs (fun n hn => hag n (by simp only [identsOf, List.mem_append]; exact Or.inl hn))
    simp only [evalSpec, hs]
    exact evalSpecCases_congr _ cases
      (fun sp' p b hm => iharm sp' p b hm (fun n hn => hag n (by
        simp only [identsOf, List.mem_append]; exact Or.inr (mem_identsOfCases_arm hm hn))))
      (fun sp' sp1 sp2 op e b hm => ihcmp sp' sp1 sp2 op e b hm (fun n hn => hag n (by
        simp only [identsOf, List.mem_append]; exact Or.inr (mem_identsOfCases_cmp hm hn))))
      hnt

end SpecCoincide
end Rscel
