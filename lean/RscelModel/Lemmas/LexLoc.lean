import RscelModel.Model.Spans
/-
Location bookkeeping of the scanner and tokenizer model (`Model/Lex.lean`), used by `Theorems/C18.lean`.

`Steps s s'` — scanner state `s'` is reached from `s` by reading characters; the location of `s'` is the
location of `s` advanced over exactly the characters read.  Every function of the tokenizer model only
moves the scanner by `Steps`, and every error it reports carries the location of a state reached by
`Steps` (`LexPost`).
-/
namespace Rscel

/-- The location after reading `cs` starting at `l`. -/
def Loc.advs (l : Loc) (cs : List Char) : Loc := cs.foldl Loc.adv l

/-- Strict lexicographic order on (line, column). -/
def Loc.lt (a b : Loc) : Prop := a.line < b.line ∨ (a.line = b.line ∧ a.col < b.col)
/-- Lexicographic order on (line, column). -/
def Loc.leP (a b : Loc) : Prop := a.line < b.line ∨ (a.line = b.line ∧ a.col ≤ b.col)

theorem Loc.leP_iff_le (a b : Loc) : a.leP b ↔ a.le b = true := by
  simp [Loc.leP, Loc.le]

theorem Loc.leP_refl (a : Loc) : a.leP a := by simp [Loc.leP]

theorem Loc.leP_trans {a b c : Loc} (h1 : a.leP b) (h2 : b.leP c) : a.leP c := by
  simp only [Loc.leP] at *; omega

theorem Loc.lt_of_lt_of_leP {a b c : Loc} (h1 : a.lt b) (h2 : b.leP c) : a.lt c := by
  simp only [Loc.leP, Loc.lt] at *; omega

theorem Loc.lt_of_leP_of_lt {a b c : Loc} (h1 : a.leP b) (h2 : b.lt c) : a.lt c := by
  simp only [Loc.leP, Loc.lt] at *; omega

theorem Loc.leP_of_lt {a b : Loc} (h : a.lt b) : a.leP b := by
  simp only [Loc.leP, Loc.lt] at *; omega

theorem Loc.lt_irrefl (a : Loc) : ¬ a.lt a := by simp [Loc.lt]

theorem Loc.lt_adv (l : Loc) (c : Char) : l.lt (l.adv c) := by
  unfold Loc.adv Loc.lt; split <;> simp

theorem Loc.advs_nil (l : Loc) : l.advs [] = l := rfl
theorem Loc.advs_cons (l : Loc) (c : Char) (cs : List Char) : l.advs (c :: cs) = (l.adv c).advs cs := rfl
theorem Loc.advs_append (l : Loc) (a b : List Char) : l.advs (a ++ b) = (l.advs a).advs b := by
  simp [Loc.advs, List.foldl_append]

theorem Loc.leP_advs (l : Loc) (cs : List Char) : l.leP (l.advs cs) := by
  induction cs generalizing l with
  | nil => exact Loc.leP_refl l
  | cons c cs ih => exact Loc.leP_trans (Loc.leP_of_lt (Loc.lt_adv l c)) (ih _)

theorem Loc.lt_advs (l : Loc) (cs : List Char) (h : cs ≠ []) : l.lt (l.advs cs) := by
  cases cs with
  | nil => exact absurd rfl h
  | cons c cs => exact Loc.lt_of_lt_of_leP (Loc.lt_adv l c) (Loc.leP_advs _ cs)

/-! ### positions of a text -/

/-- Shifting the start location shifts the result: lines add up, columns add up on the first line. -/
theorem Loc.advs_shift (l c : Nat) (cs : List Char) :
    (Loc.advs ⟨l, c⟩ cs) =
      ⟨l + (Loc.advs ⟨0, 0⟩ cs).line,
       if (Loc.advs ⟨0, 0⟩ cs).line = 0 then c + (Loc.advs ⟨0, 0⟩ cs).col else (Loc.advs ⟨0, 0⟩ cs).col⟩ := by
  induction cs generalizing l c with
  | nil => simp [Loc.advs]
  | cons ch cs ih =>
    rw [Loc.advs_cons, Loc.advs_cons]
    by_cases hc : ch = '\n'
    · subst hc
      have h1 : Loc.adv ⟨l, c⟩ '\n' = ⟨l + 1, 0⟩ := by simp [Loc.adv]
      have h2 : Loc.adv ⟨0, 0⟩ '\n' = ⟨0 + 1, 0⟩ := by simp [Loc.adv]
      rw [h1, h2, ih (l + 1) 0, ih (0 + 1) 0]
      simp only [Loc.mk.injEq]
      constructor
      · omega
      · simp
    · have h1 : Loc.adv ⟨l, c⟩ ch = ⟨l, c + 1⟩ := by simp [Loc.adv, hc]
      have h2 : Loc.adv ⟨0, 0⟩ ch = ⟨0, 0 + 1⟩ := by simp [Loc.adv, hc]
      rw [h1, h2, ih l (c + 1), ih 0 (0 + 1)]
      simp only [Loc.mk.injEq, Nat.zero_add]
      constructor
      · trivial
      · split <;> omega

/-- The location reached after reading a prefix of a text is a position of that text. -/
theorem validAt_advs (pre post : List Char) :
    validAt (pre ++ post) (Loc.advs ⟨0, 0⟩ pre).line (Loc.advs ⟨0, 0⟩ pre).col = true := by
  induction pre with
  | nil => simp [Loc.advs, validAt]
  | cons ch pre ih =>
    rw [Loc.advs_cons]
    by_cases hc : ch = '\n'
    · subst hc
      have h1 : Loc.adv ⟨0, 0⟩ '\n' = ⟨1, 0⟩ := by simp [Loc.adv]
      rw [h1, Loc.advs_shift 1 0]
      simp only [Nat.zero_add, ite_self]
      rw [Nat.add_comm 1]
      simp only [validAt, List.cons_append]
      have : List.dropWhile (fun x => decide (x ≠ '\n')) ('\n' :: (pre ++ post)) = '\n' :: (pre ++ post) := by
        simp [List.dropWhile]
      rw [this]
      exact ih
    · have h1 : Loc.adv ⟨0, 0⟩ ch = ⟨0, 1⟩ := by simp [Loc.adv, hc]
      rw [h1, Loc.advs_shift 0 1]
      simp only [Nat.zero_add]
      generalize hr : Loc.advs ⟨0, 0⟩ pre = r at ih
      obtain ⟨rl, rc⟩ := r
      cases rl with
      | zero =>
        simp only [validAt, ↓reduceIte, List.cons_append] at ih ⊢
        have : List.takeWhile (fun x => decide (x ≠ '\n')) (ch :: (pre ++ post)) =
            ch :: List.takeWhile (fun x => decide (x ≠ '\n')) (pre ++ post) := by
          simp [List.takeWhile, hc]
        rw [this]
        simp only [List.length_cons, decide_eq_true_eq] at ih ⊢
        omega
      | succ n =>
        simp only [validAt, List.cons_append, Nat.add_one_ne_zero, ↓reduceIte] at ih ⊢
        have : List.dropWhile (fun x => decide (x ≠ '\n')) (ch :: (pre ++ post)) =
            List.dropWhile (fun x => decide (x ≠ '\n')) (pre ++ post) := by
          simp [List.dropWhile, hc]
        rw [this]
        exact ih

/-! ### scanner steps -/

/-- `s'` is reached from `s` by reading the characters `mid`. -/
def Steps (s s' : Scan) : Prop := ∃ mid, s.rest = mid ++ s'.rest ∧ s'.loc = s.loc.advs mid

/-- … and at least one character was read. -/
def StepsPlus (s s' : Scan) : Prop := ∃ mid, mid ≠ [] ∧ s.rest = mid ++ s'.rest ∧ s'.loc = s.loc.advs mid

theorem Steps.refl (s : Scan) : Steps s s := ⟨[], by simp, rfl⟩

theorem Steps.trans {a b c : Scan} (h1 : Steps a b) (h2 : Steps b c) : Steps a c := by
  obtain ⟨m1, e1, l1⟩ := h1
  obtain ⟨m2, e2, l2⟩ := h2
  exact ⟨m1 ++ m2, by rw [e1, e2, List.append_assoc], by rw [l2, l1, Loc.advs_append]⟩

theorem Steps.next {s s1 : Scan} {c : Char} (h : s.next = some (c, s1)) : Steps s s1 := by
  unfold Scan.next at h
  split at h
  · cases h
  · rename_i c' cs hr
    cases h
    exact ⟨[c], by simp [hr], rfl⟩

theorem StepsPlus.next {s s1 : Scan} {c : Char} (h : s.next = some (c, s1)) : StepsPlus s s1 := by
  unfold Scan.next at h
  split at h
  · cases h
  · rename_i c' cs hr
    cases h
    exact ⟨[c], by simp, by simp [hr], rfl⟩

theorem StepsPlus.steps {a b : Scan} (h : StepsPlus a b) : Steps a b := by
  obtain ⟨m, _, e, l⟩ := h; exact ⟨m, e, l⟩

theorem StepsPlus.trans_steps {a b c : Scan} (h1 : StepsPlus a b) (h2 : Steps b c) : StepsPlus a c := by
  obtain ⟨m1, n1, e1, l1⟩ := h1
  obtain ⟨m2, e2, l2⟩ := h2
  exact ⟨m1 ++ m2, by simp [n1], by rw [e1, e2, List.append_assoc], by rw [l2, l1, Loc.advs_append]⟩

theorem Steps.loc_le {a b : Scan} (h : Steps a b) : a.loc.leP b.loc := by
  obtain ⟨m, _, l⟩ := h; rw [l]; exact Loc.leP_advs _ _

theorem StepsPlus.loc_lt {a b : Scan} (h : StepsPlus a b) : a.loc.lt b.loc := by
  obtain ⟨m, n, _, l⟩ := h; rw [l]; exact Loc.lt_advs _ _ n

/-- A state reached from the start of `src`. -/
def Reach (src : List Char) (s : Scan) : Prop := Steps ⟨src, ⟨0, 0⟩⟩ s

/-- **Scanner location invariant**: wherever the scanner stands, its (line, column) is a position of the
    text it was started on. -/
theorem Reach.valid {src : List Char} {s : Scan} (h : Reach src s) :
    validAt src s.loc.line s.loc.col = true := by
  obtain ⟨mid, e, l⟩ := h
  simp only at e l
  rw [e, l]
  exact validAt_advs mid s.rest

/-- Post-condition shared by all scanning functions: the returned scanner is reached by `Steps`, an error
    carries the location of a state reached by `Steps`. -/
def LexPost {α : Type} (s : Scan) : Except LexErr (α × Scan) → Prop
  | .ok (_, s') => Steps s s'
  | .error e => ∃ s', Steps s s' ∧ e.loc = s'.loc

theorem LexPost.mono {α : Type} {s s1 : Scan} {r : Except LexErr (α × Scan)} (h : Steps s s1)
    (p : LexPost s1 r) : LexPost s r := by
  cases r with
  | ok v => obtain ⟨a, s'⟩ := v; exact h.trans p
  | error e => obtain ⟨s', h', l⟩ := p; exact ⟨s', h.trans h', l⟩

theorem LexPost.err_here {α : Type} (s : Scan) : LexPost (α := α) s (.error ⟨s.loc⟩) :=
  ⟨s, Steps.refl s, rfl⟩

theorem LexPost.err_at {α : Type} {s s1 : Scan} (h : Steps s s1) : LexPost (α := α) s (.error ⟨s1.loc⟩) :=
  ⟨s1, h, rfl⟩

/-! ### the scanning functions only move by `Steps` -/

theorem skipWs_steps (f : Nat) (s : Scan) : Steps s (skipWs f s) := by
  fun_induction skipWs f s with
  | case1 s => exact Steps.refl s
  | case2 f s c s1 h hc ih => exact (Steps.next h).trans ih
  | case3 f s c s1 h hc => exact Steps.refl s
  | case4 f s h => exact Steps.refl s

theorem scanIdent_steps (f : Nat) (s : Scan) (acc : List Char) : Steps s (scanIdent f s acc).1 := by
  fun_induction scanIdent f s acc with
  | case1 s acc => exact Steps.refl s
  | case2 f s acc c s1 h hc ih => exact (Steps.next h).trans ih
  | case3 f s acc c s1 h hc => exact Steps.refl s
  | case4 f s acc h => exact Steps.refl s

theorem lexIdent_steps (c : Char) (s : Scan) : Steps s (lexIdent c s).2 := by
  have h := scanIdent_steps (s.rest.length + 1) s [c]
  unfold lexIdent
  generalize scanIdent (s.rest.length + 1) s [c] = r at h
  obtain ⟨s', acc⟩ := r
  simp only at h ⊢
  split <;> exact h

/-- Chains `Scan.next` hypotheses and an induction hypothesis into a `Steps` goal. -/
syntax "steps_chain" : tactic
macro_rules
  | `(tactic| steps_chain) => `(tactic|
      first
      | assumption
      | exact Steps.refl _
      | exact Steps.next (by assumption)
      | (refine Steps.trans (Steps.next (by assumption)) ?_; steps_chain))

theorem scanNumber_steps (f : Nat) (s : Scan) (st : NumState) : Steps s (scanNumber f s st).1 := by
  fun_induction scanNumber f s st <;> steps_chain

theorem LexPost.ok_of {α : Type} {s s' : Scan} {a : α} (h : Steps s s') : LexPost s (.ok (a, s')) := h

/-- Closes `LexPost s r` goals where `r` is an error at a reached state, a success at a reached state, or
    a recursive call covered by an induction hypothesis. -/
syntax "lexpost" : tactic
macro_rules
  | `(tactic| lexpost) => `(tactic|
      first
      | assumption
      | (refine LexPost.err_at ?_; steps_chain)
      | (refine LexPost.ok_of ?_; steps_chain)
      | (refine LexPost.mono ?_ (by assumption); steps_chain))

theorem extractHex_post (n : Nat) (s : Scan) (acc : Nat) : LexPost s (extractHex n s acc) := by
  fun_induction extractHex n s acc <;> lexpost

theorem extractHexChar_post (n : Nat) (s : Scan) : LexPost s (extractHexChar n s) := by
  have h := extractHex_post n s 0
  unfold extractHexChar
  split
  · rename_i e he; rw [he] at h; exact h
  · rename_i v s1 he
    rw [he] at h
    split
    · exact h
    · exact LexPost.err_at h

theorem octalVal_post (d : Char) (s : Scan) : LexPost s (octalVal d s) := by
  unfold octalVal
  split
  · lexpost
  · split
    · lexpost
    · simp only
      split <;> lexpost

theorem LexPost.ok_steps {α : Type} {s s' : Scan} {a : α} {r : Except LexErr (α × Scan)}
    (p : LexPost s r) (h : r = .ok (a, s')) : Steps s s' := by subst h; exact p

theorem LexPost.err_steps {α : Type} {s : Scan} {e : LexErr} {r : Except LexErr (α × Scan)}
    (p : LexPost s r) (h : r = .error e) : ∃ s', Steps s s' ∧ e.loc = s'.loc := by subst h; exact p

theorem LexPost.err_trans {α : Type} {s s1 : Scan} {e : LexErr} (h : Steps s s1)
    (p : ∃ s', Steps s1 s' ∧ e.loc = s'.loc) : LexPost (α := α) s (.error e) := by
  obtain ⟨s', h', l⟩ := p; exact ⟨s', h.trans h', l⟩

theorem extractHexChar_ok {n : Nat} {s s' : Scan} {c : Char} (h : extractHexChar n s = .ok (c, s')) :
    Steps s s' := (extractHexChar_post n s).ok_steps h
theorem extractHexChar_err {n : Nat} {s : Scan} {e : LexErr} (h : extractHexChar n s = .error e) :
    ∃ s', Steps s s' ∧ e.loc = s'.loc := (extractHexChar_post n s).err_steps h
theorem octalVal_ok {d : Char} {s s' : Scan} {v : Nat} (h : octalVal d s = .ok (v, s')) :
    Steps s s' := (octalVal_post d s).ok_steps h
theorem octalVal_err {d : Char} {s : Scan} {e : LexErr} (h : octalVal d s = .error e) :
    ∃ s', Steps s s' ∧ e.loc = s'.loc := (octalVal_post d s).err_steps h

macro_rules
  | `(tactic| steps_chain) => `(tactic|
      first
      | exact extractHexChar_ok (by assumption)
      | exact octalVal_ok (by assumption)
      | (refine Steps.trans (extractHexChar_ok (by assumption)) ?_; steps_chain)
      | (refine Steps.trans (octalVal_ok (by assumption)) ?_; steps_chain))

macro_rules
  | `(tactic| lexpost) => `(tactic|
      first
      | (refine LexPost.err_trans ?_ (extractHexChar_err (by assumption)); steps_chain)
      | (refine LexPost.err_trans ?_ (octalVal_err (by assumption)); steps_chain))

macro_rules
  | `(tactic| lexpost) => `(tactic|
      (refine LexPost.mono ?_ (by apply_assumption); steps_chain))

theorem lexBytes_post (q : Char) (f : Nat) (s : Scan) (acc : List UInt8) : LexPost s (lexBytes q f s acc) := by
  fun_induction lexBytes q f s acc <;> lexpost

theorem scanFExpr_post (f : Nat) (s : Scan) (d : Nat) (acc : List Char) : LexPost s (scanFExpr f s d acc) := by
  fun_induction scanFExpr f s d acc <;> lexpost

theorem scanFExpr_ok {f d : Nat} {acc body : List Char} {s s' : Scan}
    (h : scanFExpr f s d acc = .ok (body, s')) : Steps s s' := (scanFExpr_post f s d acc).ok_steps h
theorem scanFExpr_err {f d : Nat} {acc : List Char} {s : Scan} {e : LexErr}
    (h : scanFExpr f s d acc = .error e) : ∃ s', Steps s s' ∧ e.loc = s'.loc :=
  (scanFExpr_post f s d acc).err_steps h

macro_rules
  | `(tactic| steps_chain) => `(tactic|
      first
      | exact scanFExpr_ok (by assumption)
      | (refine Steps.trans (scanFExpr_ok (by assumption)) ?_; steps_chain))

macro_rules
  | `(tactic| lexpost) => `(tactic|
      (refine LexPost.err_trans ?_ (scanFExpr_err (by assumption)); steps_chain))

theorem lexString_post (q : Char) (raw fmt : Bool) (f : Nat) (s : Scan) (work : List Char) (segs : List FSeg) :
    LexPost s (lexString q raw fmt f s work segs) := by
  fun_induction lexString q raw fmt f s work segs <;> try lexpost
  case case29 =>
    rename_i fuel _ _ _ _ _ _ _ _ _ c2 s2 _ hne1 hne2 start er hx
    have hx' : scanFExpr fuel s2 1 [c2] = .error er := by simpa [start, hne1] using hx
    lexpost
  case case30 =>
    rename_i fuel _ _ _ _ _ _ _ _ _ c2 s2 _ hne1 hne2 start body s3 hx hb
    have hx' : scanFExpr fuel s2 1 [c2] = .ok (body, s3) := by simpa [start, hne1] using hx
    lexpost
  case case31 =>
    rename_i fuel _ _ _ _ _ _ _ _ _ c2 s2 _ hne1 segs1 hne2 start body s3 hx hb ih
    have hx' : scanFExpr fuel s2 1 [c2] = .ok (body, s3) := by simpa [start, hne1] using hx
    lexpost

theorem lexNumber_post (start : List Char) (s : Scan) : LexPost s (lexNumber start s) := by
  unfold lexNumber
  have h := scanNumber_steps (s.rest.length + 1) s
    { working := start.reverse, isFloat := start.contains '.', isExp := false, isUnsigned := false, base := 10 }
  generalize scanNumber (s.rest.length + 1) s _ = r at h
  obtain ⟨s', st⟩ := r
  simp only at h ⊢
  repeat' split
  all_goals lexpost

/-- Post-condition of reading one token from `s0`: white space is skipped (`sa`), the token occupies at
    least one character, its span runs from the location before its first to the location after its last
    character; an error is located at a state reached from `s0`. -/
def TokPost (s0 : Scan) : Except LexErr (Option (Tok × Span) × Scan) → Prop
  | .error e => ∃ s', Steps s0 s' ∧ e.loc = s'.loc
  | .ok (none, s') => Steps s0 s'
  | .ok (some (_, sp), s') => ∃ sa, Steps s0 sa ∧ sp.s = sa.loc ∧ StepsPlus sa s' ∧ sp.e = s'.loc

theorem TokPost.fin {s0 s s1 : Scan} (h0 : Steps s0 s) (h1 : StepsPlus s s1)
    {r : Except LexErr (Tok × Scan)} (p : LexPost s1 r) :
    TokPost s0 (match r with
      | .error e => .error e
      | .ok (t, s') => .ok (some (t, ⟨s.loc, s'.loc⟩), s')) := by
  cases r with
  | error e =>
    obtain ⟨s', h', l⟩ := p
    exact ⟨s', h0.trans (h1.steps.trans h'), l⟩
  | ok v =>
    obtain ⟨t, s'⟩ := v
    exact ⟨s, h0, rfl, h1.trans_steps p, rfl⟩

theorem TokPost.of_err {s0 s s1 : Scan} (h0 : Steps s0 s) (h1 : StepsPlus s s1)
    {r : Except LexErr (Tok × Scan)} (p : LexPost s1 r) {e : LexErr} (he : r = .error e) :
    TokPost s0 (.error e) := by
  subst he; exact TokPost.fin h0 h1 p

theorem TokPost.of_ok {s0 s s1 : Scan} (h0 : Steps s0 s) (h1 : StepsPlus s s1)
    {r : Except LexErr (Tok × Scan)} (p : LexPost s1 r) {t : Tok} {s' : Scan} (he : r = .ok (t, s')) :
    TokPost s0 (.ok (some (t, ⟨s.loc, s'.loc⟩), s')) := by
  subst he; exact TokPost.fin h0 h1 p

theorem TokPost.ite {s0 : Scan} {c : Prop} [Decidable c] {a b : Except LexErr (Option (Tok × Span) × Scan)}
    (ha : c → TokPost s0 a) (hb : ¬ c → TokPost s0 b) : TokPost s0 (if c then a else b) := by
  split
  · exact ha ‹_›
  · exact hb ‹_›

/-- **One token**: see `TokPost`. -/
theorem lexToken_post (s0 : Scan) : TokPost s0 (lexToken s0) := by
  unfold lexToken
  have h0 := skipWs_steps (s0.rest.length + 1) s0
  generalize skipWs (s0.rest.length + 1) s0 = s at h0
  simp only []
  split
  · exact h0
  · rename_i c s1 hn
    have h1 := StepsPlus.next hn
    have herr : ∀ s2, Steps s1 s2 → TokPost s0 (.error ⟨s2.loc⟩) :=
      fun s2 h => ⟨s2, h0.trans (h1.steps.trans h), rfl⟩
    repeat' (refine TokPost.ite (fun _ => ?_) (fun _ => ?_))
    all_goals repeat' split
    all_goals first
      | exact TokPost.fin h0 h1 (LexPost.ok_of (Steps.refl _))
      | exact TokPost.fin h0 h1 (LexPost.ok_of (Steps.next (by assumption)))
      | exact TokPost.fin h0 h1 (LexPost.ok_of (lexIdent_steps _ _))
      | exact herr _ (Steps.refl _)
      | exact TokPost.of_err h0 h1 (lexNumber_post _ _) (by assumption)
      | exact TokPost.of_ok h0 h1 (lexNumber_post _ _) (by assumption)
      | exact TokPost.of_err h0 h1 (lexString_post ..) (by assumption)
      | exact TokPost.of_ok h0 h1 (lexString_post ..) (by assumption)
      | exact TokPost.of_err h0 h1 (LexPost.mono (Steps.next (by assumption)) (lexString_post ..)) (by assumption)
      | exact TokPost.of_ok h0 h1 (LexPost.mono (Steps.next (by assumption)) (lexString_post ..)) (by assumption)
      | exact TokPost.of_err h0 h1 (LexPost.mono (Steps.next (by assumption)) (lexBytes_post ..)) (by assumption)
      | exact TokPost.of_ok h0 h1 (LexPost.mono (Steps.next (by assumption)) (lexBytes_post ..)) (by assumption)

/-! ### the token loop -/

/-- Spans strictly increasing and non-overlapping, none starting before `lo`: every span is non-empty
    and ends no later than the next one starts. -/
def SpansFrom (lo : Loc) : List Span → Prop
  | [] => True
  | sp :: rest => lo.leP sp.s ∧ sp.s.lt sp.e ∧ SpansFrom sp.e rest

/-- `l` is the location of a scanner state reachable from `s`. -/
def PosFrom (s : Scan) (l : Loc) : Prop := ∃ s', Steps s s' ∧ l = s'.loc

theorem PosFrom.mono {s s1 : Scan} {l : Loc} (h : Steps s s1) (p : PosFrom s1 l) : PosFrom s l := by
  obtain ⟨s', h', e⟩ := p; exact ⟨s', h.trans h', e⟩

theorem tokenizeGo_spec (fuel : Nat) : ∀ (s : Scan) (acc : List (Tok × Span)),
    match tokenizeGo fuel s acc with
    | .error e => PosFrom s e.loc
    | .ok L => ∃ new, L.toks = acc.reverse ++ new ∧ SpansFrom s.loc (new.map (·.2)) ∧
        (∀ t ∈ new, PosFrom s t.2.s ∧ PosFrom s t.2.e) ∧ PosFrom s L.eofLoc := by
  induction fuel with
  | zero => intro s acc; simp only [tokenizeGo]; exact ⟨s, Steps.refl s, rfl⟩
  | succ fuel ih =>
    intro s acc
    have hp := lexToken_post s
    simp only [tokenizeGo]
    rcases hlt : lexToken s with e | ⟨_ | ⟨tk, sp⟩, s'⟩
    · rw [hlt] at hp; exact hp
    · rw [hlt] at hp
      exact ⟨[], by simp, trivial, by simp, s', hp, rfl⟩
    · rw [hlt] at hp
      obtain ⟨sa, h0, hs, h1, hE⟩ := hp
      have hss' : Steps s s' := h0.trans h1.steps
      have := ih s' ((tk, sp) :: acc)
      simp only []
      split at this
      · exact PosFrom.mono hss' this
      · obtain ⟨new, hl, hsp, hpos, heof⟩ := this
        refine ⟨(tk, sp) :: new, by simp [hl], ?_, ?_, PosFrom.mono hss' heof⟩
        · refine ⟨?_, ?_, ?_⟩
          · simp only; rw [hs]; exact h0.loc_le
          · simp only; rw [hs, hE]; exact h1.loc_lt
          · simp only; rw [hE]; exact hsp
        · intro t ht
          rcases List.mem_cons.mp ht with rfl | ht
          · exact ⟨⟨sa, h0, hs⟩, ⟨s', hss', hE⟩⟩
          · exact ⟨PosFrom.mono hss' (hpos t ht).1, PosFrom.mono hss' (hpos t ht).2⟩

theorem SpansFrom.weaken {lo lo' : Loc} (h : lo'.leP lo) : ∀ {l : List Span}, SpansFrom lo l → SpansFrom lo' l
  | [], _ => trivial
  | _ :: _, ⟨a, b, c⟩ => ⟨Loc.leP_trans h a, b, c⟩

/-- In an increasing chain every span ends no later than any later span starts. -/
theorem SpansFrom.pairwise : ∀ {lo : Loc} {l : List Span}, SpansFrom lo l →
    l.Pairwise (fun a b => a.e.leP b.s) ∧ ∀ sp ∈ l, lo.leP sp.s
  | _, [], _ => ⟨List.Pairwise.nil, by simp⟩
  | lo, sp :: rest, ⟨a, b, c⟩ => by
    obtain ⟨pw, lb⟩ := SpansFrom.pairwise c
    refine ⟨List.Pairwise.cons (fun x hx => lb x hx) pw, ?_⟩
    intro x hx
    rcases List.mem_cons.mp hx with rfl | hx
    · exact a
    · exact Loc.leP_trans a (Loc.leP_trans (Loc.leP_of_lt b) (lb x hx))

end Rscel
