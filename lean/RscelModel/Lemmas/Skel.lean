import RscelModel.Lemmas.ParseSpec2
/-
Shape of a syntax tree with source spans and `Parens` wrappers dropped (what the harness oracle compares),
and the minimal parenthesisation of an abstract operator tree.
-/
namespace Rscel

/-- Operator skeleton of an expression: no spans, no parentheses. -/
inductive Sk
  | ident (n : Str) | int (i : Int) | nots (n : Nat) (e : Sk) | negs (n : Nat) (e : Sk)
  | bin (op : BinOp) (l r : Sk) | tern (c t f : Sk)
  | access (e : Sk) (n : Str) | index (e i : Sk) | call0 (e : Sk) | call1 (e a : Sk) | call2 (e a b : Sk)
  | other
  deriving DecidableEq, Repr

mutual
/-- The skeleton of a syntax tree; `other` for the productions outside the operator grammar. -/
def Ast.skel : Ast → Sk
  | .tern _ c t f => .tern c.skel t.skel f.skel
  | .bin _ op l r => .bin op l.skel r.skel
  | .notRun _ ops m => .nots ops.length m.skel
  | .negRun _ ops m => .negs ops.length m.skel
  | .member _ p chain => skelOps p.skel chain
  | _ => .other
def Prim.skel : Prim → Sk
  | .ident _ n => .ident n
  | .int _ i => .int i
  | .parens _ e => e.skel
  | _ => .other
/-- The postfix chain applied to the skeleton of its base, first operation innermost; a call's
    arguments (stored last to first) in source order. -/
def skelOps (base : Sk) : List MOp → Sk
  | [] => base
  | .access _ _ n :: rest => skelOps (.access base n) rest
  | .index _ i :: rest => skelOps (.index base i.skel) rest
  | .call _ [] :: rest => skelOps (.call0 base) rest
  | .call _ [a] :: rest => skelOps (.call1 base a.skel) rest
  | .call _ [b, a] :: rest => skelOps (.call2 base a.skel b.skel) rest
  | .call _ _ :: rest => skelOps .other rest
end

theorem skelOps_append (xs ys : List MOp) : ∀ base, skelOps base (xs ++ ys) = skelOps (skelOps base xs) ys := by
  induction xs with
  | nil => intro base; simp [skelOps]
  | cons x xs ih =>
    intro base
    cases x with
    | access _ _ n => simp [skelOps, ih]
    | index _ i => simp [skelOps, ih]
    | call _ args =>
      match args with
      | [] => simp [skelOps, ih]
      | [a] => simp [skelOps, ih]
      | [b, a] => simp [skelOps, ih]
      | _ :: _ :: _ :: _ => simp [skelOps, ih]

namespace C02

def T.skel : T → Sk
  | .ident _ n => .ident n
  | .int _ n => .int n
  | .paren _ _ e => e.skel
  | .nots _ os e => .nots (os.length + 1) e.skel
  | .negs _ os e => .negs (os.length + 1) e.skel
  | .bin op _ l r => .bin op l.skel r.skel
  | .tern _ _ c t f => .tern c.skel t.skel f.skel
  | .access e _ _ n => .access e.skel n
  | .index e _ _ i => .index e.skel i.skel
  | .call0 e _ _ => .call0 e.skel
  | .call1 e _ _ a => .call1 e.skel a.skel
  | .call2 e _ _ a _ b => .call2 e.skel a.skel b.skel

theorem mkMember_skel (p : Prim) (chain : List MOp) : (mkMember p chain).skel = skelOps p.skel chain := by
  simp [mkMember, Ast.skel]

/-- The tree of a member-level derivation is a member node. -/
theorem embed_member (t : T) (hw : t.Wf) (hl : 7 ≤ t.level) : ∃ p chain, embed t = mkMember p chain := by
  induction t with
  | ident sp n => exact ⟨.ident sp n, [], rfl⟩
  | int sp n => exact ⟨.int sp n, [], rfl⟩
  | paren l r e _ => exact ⟨.parens (l.join r) (embed e), [], rfl⟩
  | nots => simp [T.level] at hl
  | negs => simp [T.level] at hl
  | bin op _ _ _ => cases op <;> simp [T.level, BinOp.level] at hl
  | tern => simp [T.level] at hl
  | access e d i n ih => obtain ⟨p, c, h⟩ := ih hw.2 hw.1; exact ⟨p, _, by rw [embed, h, snoc_mk]⟩
  | index e l r i ih _ => obtain ⟨p, c, h⟩ := ih hw.2.1 hw.1; exact ⟨p, _, by rw [embed, h, snoc_mk]⟩
  | call0 e l r ih => obtain ⟨p, c, h⟩ := ih hw.2 hw.1; exact ⟨p, _, by rw [embed, h, snoc_mk]⟩
  | call1 e l r a ih _ => obtain ⟨p, c, h⟩ := ih hw.2.1 hw.1; exact ⟨p, _, by rw [embed, h, snoc_mk]⟩
  | call2 e l r a c b ih _ _ =>
    obtain ⟨p, c, h⟩ := ih hw.2.1 hw.1; exact ⟨p, _, by rw [embed, h, snoc_mk]⟩

/-- One postfix operation on a member-level derivation, on the skeleton. -/
theorem snoc_skel (e : T) (hw : e.Wf) (hl : 7 ≤ e.level) (op : MOp) :
    (snocOp (embed e) op).skel = skelOps (embed e).skel [op] := by
  obtain ⟨p, c, h⟩ := embed_member e hw hl
  rw [h, snoc_mk, mkMember_skel, mkMember_skel, skelOps_append]

theorem embed_skel (t : T) (hw : t.Wf) : (embed t).skel = t.skel := by
  induction t with
  | ident => simp [embed, Ast.skel, Prim.skel, T.skel, skelOps]
  | int => simp [embed, Ast.skel, Prim.skel, T.skel, skelOps]
  | paren l r e ih => simp [embed, Ast.skel, Prim.skel, T.skel, skelOps, ih hw]
  | nots o os e ih => simp [embed, Ast.skel, T.skel, ih hw.2]
  | negs o os e ih => simp [embed, Ast.skel, T.skel, ih hw.2]
  | bin op osp l r ihl ihr => simp [embed, Ast.skel, T.skel, ihl hw.2.2.1, ihr hw.2.2.2]
  | tern q c a b e iha ihb ihe => simp [embed, Ast.skel, T.skel, iha hw.2.2.1, ihb hw.2.2.2.1, ihe hw.2.2.2.2]
  | access e d i n ih => simp [embed, snoc_skel e hw.2 hw.1, ih hw.2, skelOps, T.skel]
  | index e l r i ihe ihi => simp [embed, snoc_skel e hw.2.1 hw.1, ihe hw.2.1, ihi hw.2.2, skelOps, T.skel]
  | call0 e l r ih => simp [embed, snoc_skel e hw.2 hw.1, ih hw.2, skelOps, T.skel]
  | call1 e l r a ihe iha => simp [embed, snoc_skel e hw.2.1 hw.1, ihe hw.2.1, iha hw.2.2, skelOps, T.skel]
  | call2 e l r a c b ihe iha ihb =>
    simp [embed, snoc_skel e hw.2.1 hw.1, ihe hw.2.1, iha hw.2.2.1, ihb hw.2.2.2, skelOps, T.skel]

/-- Put `t` in parentheses when its production is looser than level `k`. -/
def wrap (k : Nat) (t : T) : T := if t.level < k then .paren default default t else t

/-- Minimal parenthesisation: an operand is parenthesised iff its production is looser than its
    position admits — a left operand looser than the operator, a right operand not tighter than the
    operator, the condition or true branch of `?:` when it is itself a `?:`, the operand of a unary run
    unless it is an atom. -/
def parenMin : T → T
  | .ident sp n => .ident sp n
  | .int sp n => .int sp n
  | .paren l r e => .paren l r (parenMin e)
  | .nots o os e => .nots o os (wrap 7 (parenMin e))
  | .negs o os e => .negs o os (wrap 7 (parenMin e))
  | .bin op osp l r => .bin op osp (wrap op.level (parenMin l)) (wrap (op.level + 1) (parenMin r))
  | .tern q c a b e => .tern q c (wrap 1 (parenMin a)) (wrap 1 (parenMin b)) (parenMin e)
  | .access e d i n => .access (wrap 7 (parenMin e)) d i n
  | .index e l r i => .index (wrap 7 (parenMin e)) l r (parenMin i)
  | .call0 e l r => .call0 (wrap 7 (parenMin e)) l r
  | .call1 e l r a => .call1 (wrap 7 (parenMin e)) l r (parenMin a)
  | .call2 e l r a c b => .call2 (wrap 7 (parenMin e)) l r (parenMin a) c (parenMin b)

/-- Every integer literal of the tree fits an `int`. -/
def T.IntsOk : T → Prop
  | .ident _ _ => True
  | .int _ n => (n : Int) ≤ i64Max
  | .paren _ _ e => e.IntsOk
  | .nots _ _ e => e.IntsOk
  | .negs _ _ e => e.IntsOk
  | .bin _ _ l r => l.IntsOk ∧ r.IntsOk
  | .tern _ _ c t f => c.IntsOk ∧ t.IntsOk ∧ f.IntsOk
  | .access e _ _ _ => e.IntsOk
  | .index e _ _ i => e.IntsOk ∧ i.IntsOk
  | .call0 e _ _ => e.IntsOk
  | .call1 e _ _ a => e.IntsOk ∧ a.IntsOk
  | .call2 e _ _ a _ b => e.IntsOk ∧ a.IntsOk ∧ b.IntsOk

theorem wrap_level (k : Nat) (t : T) (hk : k ≤ 7) : k ≤ (wrap k t).level := by
  unfold wrap; split
  · simpa [T.level] using hk
  · omega

theorem wrap_wf (k : Nat) (t : T) (h : t.Wf) : (wrap k t).Wf := by
  unfold wrap; split
  · simpa [T.Wf] using h
  · exact h

theorem wrap_skel (k : Nat) (t : T) : (wrap k t).skel = t.skel := by
  unfold wrap; split <;> simp [T.skel]

theorem parenMin_wf (t : T) (h : t.IntsOk) : (parenMin t).Wf := by
  induction t with
  | ident => trivial
  | int => exact h
  | paren l r e ih => exact ih h
  | nots o os e ih => exact ⟨wrap_level 7 _ (by omega), wrap_wf _ _ (ih h)⟩
  | negs o os e ih => exact ⟨wrap_level 7 _ (by omega), wrap_wf _ _ (ih h)⟩
  | bin op osp l r ihl ihr =>
    have : op.level ≤ 5 := by cases op <;> simp [BinOp.level]
    exact ⟨wrap_level _ _ (by omega), wrap_level _ _ (by omega), wrap_wf _ _ (ihl h.1), wrap_wf _ _ (ihr h.2)⟩
  | tern q c a b e iha ihb ihe =>
    exact ⟨wrap_level 1 _ (by omega), wrap_level 1 _ (by omega), wrap_wf _ _ (iha h.1), wrap_wf _ _ (ihb h.2.1),
      ihe h.2.2⟩
  | access e d i n ih => exact ⟨wrap_level 7 _ (by omega), wrap_wf _ _ (ih h)⟩
  | index e l r i ihe ihi => exact ⟨wrap_level 7 _ (by omega), wrap_wf _ _ (ihe h.1), ihi h.2⟩
  | call0 e l r ih => exact ⟨wrap_level 7 _ (by omega), wrap_wf _ _ (ih h)⟩
  | call1 e l r a ihe iha => exact ⟨wrap_level 7 _ (by omega), wrap_wf _ _ (ihe h.1), iha h.2⟩
  | call2 e l r a c b ihe iha ihb =>
    exact ⟨wrap_level 7 _ (by omega), wrap_wf _ _ (ihe h.1), iha h.2.1, ihb h.2.2⟩

theorem parenMin_skel (t : T) : (parenMin t).skel = t.skel := by
  induction t <;> simp_all [parenMin, T.skel, wrap_skel]

end C02
end Rscel
