import RscelModel.Lemmas.ParseSpec2
/-
Shape of a syntax tree with source spans and `Parens` wrappers dropped (what the harness oracle compares),
and the minimal parenthesisation of an abstract operator tree.
-/
namespace Rscel

/-- Operator skeleton of an expression: no spans, no parentheses. -/
inductive Sk
  | ident (n : Str) | int (i : Int) | nots (n : Nat) (e : Sk) | negs (n : Nat) (e : Sk)
  | bin (op : BinOp) (l r : Sk) | tern (c t f : Sk) | other
  deriving DecidableEq, Repr

mutual
/-- The skeleton of a syntax tree; `other` for the productions outside the operator grammar. -/
def Ast.skel : Ast → Sk
  | .tern _ c t f => .tern c.skel t.skel f.skel
  | .bin _ op l r => .bin op l.skel r.skel
  | .notRun _ ops m => .nots ops.length m.skel
  | .negRun _ ops m => .negs ops.length m.skel
  | .member _ p [] => p.skel
  | _ => .other
def Prim.skel : Prim → Sk
  | .ident _ n => .ident n
  | .int _ i => .int i
  | .parens _ e => e.skel
  | _ => .other
end

namespace C02

def T.skel : T → Sk
  | .ident _ n => .ident n
  | .int _ n => .int n
  | .paren _ _ e => e.skel
  | .nots _ os e => .nots (os.length + 1) e.skel
  | .negs _ os e => .negs (os.length + 1) e.skel
  | .bin op _ l r => .bin op l.skel r.skel
  | .tern _ _ c t f => .tern c.skel t.skel f.skel

theorem embed_skel (t : T) : (embed t).skel = t.skel := by
  induction t <;> simp_all [embed, Ast.skel, Prim.skel, T.skel]

/-- Put `t` in parentheses when its production is looser than level `k`. -/
def wrap (k : Nat) (t : T) : T := if t.level < k then .paren default default t else t

/-- Minimal parenthesisation: an operand is parenthesised iff its production is looser than its
    position admits — a left operand looser than the operator, a right operand not tighter than the
    operator, the condition or true branch of `?:` when it is itself a `?:`, the operand of a unary run
    unless it is an atom. -/
def parenMin : T → T
  | .ident sp n => .ident sp n
  | .int sp n => .int sp n
  | .paren l r e => .paren l r (parenMin e)
  | .nots o os e => .nots o os (wrap 7 (parenMin e))
  | .negs o os e => .negs o os (wrap 7 (parenMin e))
  | .bin op osp l r => .bin op osp (wrap op.level (parenMin l)) (wrap (op.level + 1) (parenMin r))
  | .tern q c a b e => .tern q c (wrap 1 (parenMin a)) (wrap 1 (parenMin b)) (parenMin e)

/-- Every integer literal of the tree fits an `int`. -/
def T.IntsOk : T → Prop
  | .ident _ _ => True
  | .int _ n => (n : Int) ≤ i64Max
  | .paren _ _ e => e.IntsOk
  | .nots _ _ e => e.IntsOk
  | .negs _ _ e => e.IntsOk
  | .bin _ _ l r => l.IntsOk ∧ r.IntsOk
  | .tern _ _ c t f => c.IntsOk ∧ t.IntsOk ∧ f.IntsOk

theorem wrap_level (k : Nat) (t : T) (hk : k ≤ 7) : k ≤ (wrap k t).level := by
  unfold wrap; split
  · simpa [T.level] using hk
  · omega

theorem wrap_wf (k : Nat) (t : T) (h : t.Wf) : (wrap k t).Wf := by
  unfold wrap; split
  · simpa [T.Wf] using h
  · exact h

theorem wrap_skel (k : Nat) (t : T) : (wrap k t).skel = t.skel := by
  unfold wrap; split <;> simp [T.skel]

theorem parenMin_wf (t : T) (h : t.IntsOk) : (parenMin t).Wf := by
  induction t with
  | ident => trivial
  | int => exact h
  | paren l r e ih => exact ih h
  | nots o os e ih => exact ⟨wrap_level 7 _ (by omega), wrap_wf _ _ (ih h)⟩
  | negs o os e ih => exact ⟨wrap_level 7 _ (by omega), wrap_wf _ _ (ih h)⟩
  | bin op osp l r ihl ihr =>
    have : op.level ≤ 5 := by cases op <;> simp [BinOp.level]
    exact ⟨wrap_level _ _ (by omega), wrap_level _ _ (by omega), wrap_wf _ _ (ihl h.1), wrap_wf _ _ (ihr h.2)⟩
  | tern q c a b e iha ihb ihe =>
    exact ⟨wrap_level 1 _ (by omega), wrap_level 1 _ (by omega), wrap_wf _ _ (iha h.1), wrap_wf _ _ (ihb h.2.1),
      ihe h.2.2⟩

theorem parenMin_skel (t : T) : (parenMin t).skel = t.skel := by
  induction t <;> simp_all [parenMin, T.skel, wrap_skel]

end C02
end Rscel
