import RscelModel.Model.Time
/-
Arithmetic facts about the days-from-civil decomposition of `Model/Time.lean` (all by `omega`, staged).
-/
namespace Rscel.Time

theorem doe_range (z : Int) : 0 ≤ doeOf z ∧ doeOf z ≤ 146096 := by
  unfold doeOf; omega

theorem era_doe (z : Int) : eraOf z * 146097 + doeOf z = z + 719468 := by
  unfold eraOf doeOf; omega

/-- The pieces of a day-of-era: centuries, four-year cycles, years, day of the (March) year. -/
theorem doe_parts (doe : Int) (h0 : 0 ≤ doe) (h1 : doe ≤ 146096) :
    0 ≤ n100Of doe ∧ n100Of doe ≤ 3 ∧ 0 ≤ n4Of doe ∧ n4Of doe ≤ 24 ∧ 0 ≤ n1Of doe ∧ n1Of doe ≤ 3 ∧
    0 ≤ doyMarOf doe ∧ doyMarOf doe ≤ 365 ∧
    (doyMarOf doe = 365 → n1Of doe = 3 ∧ (n4Of doe = 24 → n100Of doe = 3)) ∧
    doe = 36524 * n100Of doe + 1461 * n4Of doe + 365 * n1Of doe + doyMarOf doe := by
  unfold doyMarOf n1Of r2Of n4Of r1Of n100Of; omega

theorem yoe_range (doe : Int) (h0 : 0 ≤ doe) (h1 : doe ≤ 146096) : 0 ≤ yoeOf doe ∧ yoeOf doe ≤ 399 := by
  have h := doe_parts doe h0 h1
  unfold yoeOf; omega

/-- `daysOfCivil`'s day-of-era formula undoes the decomposition. -/
theorem doe_recompose (doe : Int) (h0 : 0 ≤ doe) (h1 : doe ≤ 146096) :
    yoeOf doe * 365 + yoeOf doe / 4 - yoeOf doe / 100 + doyMarOf doe = doe := by
  have h := doe_parts doe h0 h1
  unfold yoeOf
  generalize n100Of doe = a at *
  generalize n4Of doe = b at *
  generalize n1Of doe = c at *
  generalize doyMarOf doe = d at *
  have h4 : (100 * a + 4 * b + c) / 4 = 25 * a + b := by omega
  have h100 : (100 * a + 4 * b + c) / 100 = a := by omega
  omega

/-- A March-based year has 366 days exactly when the following civil year (which holds its February)
    is a leap year. -/
theorem doyMar_365_leap (doe : Int) (h0 : 0 ≤ doe) (h1 : doe ≤ 146096) (h : doyMarOf doe = 365) :
    (yoeOf doe + 1) % 4 = 0 ∧ ((yoeOf doe + 1) % 100 ≠ 0 ∨ (yoeOf doe + 1) % 400 = 0) := by
  have hp := doe_parts doe h0 h1
  unfold yoeOf
  generalize n100Of doe = a at *
  generalize n4Of doe = b at *
  generalize n1Of doe = c at *
  generalize doyMarOf doe = d at *
  omega

/-- Month index and day of month from the day of the March-based year. -/
theorem month_parts (doy : Int) (h0 : 0 ≤ doy) (h1 : doy ≤ 365) :
    0 ≤ mpOf doy ∧ mpOf doy ≤ 11 ∧
    1 ≤ doy - (153 * mpOf doy + 2) / 5 + 1 ∧ doy - (153 * mpOf doy + 2) / 5 + 1 ≤ 31 ∧
    (mpOf doy < 10 ↔ doy ≤ 305) := by
  unfold mpOf; omega

/-- Length of a month of the proleptic Gregorian calendar (specification side). -/
def monthLen (y m : Int) : Int :=
  if m = 2 then (if isLeap y then 29 else 28)
  else if m = 4 ∨ m = 6 ∨ m = 9 ∨ m = 11 then 30 else 31

theorem isLeap_iff (y : Int) : isLeap y = true ↔ (y % 4 = 0 ∧ (y % 100 ≠ 0 ∨ y % 400 = 0)) := by
  simp [isLeap]

/-- what `civilOfDays` knows about its three parts -/
structure PartsOk (era yoe dm doe z : Int) : Prop where
  yoe0 : 0 ≤ yoe
  yoe1 : yoe ≤ 399
  dm0 : 0 ≤ dm
  dm1 : dm ≤ 365
  leap : dm = 365 → (yoe + 1) % 4 = 0 ∧ ((yoe + 1) % 100 ≠ 0 ∨ (yoe + 1) % 400 = 0)
  recomp : yoe * 365 + yoe / 4 - yoe / 100 + dm = doe
  eraEq : era * 146097 + doe = z + 719468

theorem parts_ok (z : Int) : PartsOk (eraOf z) (yoeOf (doeOf z)) (doyMarOf (doeOf z)) (doeOf z) z := by
  have hd := doe_range z
  have hp := doe_parts _ hd.1 hd.2
  have hy := yoe_range _ hd.1 hd.2
  exact ⟨hy.1, hy.2, by omega, by omega, doyMar_365_leap _ hd.1 hd.2, doe_recompose _ hd.1 hd.2, era_doe z⟩

theorem parts_roundtrip (era yoe dm doe z : Int) (h : PartsOk era yoe dm doe z) :
    daysOfCivil (civilOfParts era yoe dm).year (civilOfParts era yoe dm).month (civilOfParts era yoe dm).day = z := by
  obtain ⟨y0, y1, d0, d1, _, hr, he⟩ := h
  have hm := month_parts dm d0 d1
  have hq : (yoe + era * 400) / 400 = era := by omega
  have hq' : (yoe + era * 400) % 400 = yoe := by omega
  simp only [civilOfParts, daysOfCivil]
  repeat' split
  all_goals simp only [Int.add_sub_cancel, Int.sub_add_cancel, hq, hq']
  all_goals omega

theorem parts_valid (era yoe dm doe z : Int) (h : PartsOk era yoe dm doe z) :
    1 ≤ (civilOfParts era yoe dm).month ∧ (civilOfParts era yoe dm).month ≤ 12 ∧
    1 ≤ (civilOfParts era yoe dm).day ∧
    (civilOfParts era yoe dm).day ≤ monthLen (civilOfParts era yoe dm).year (civilOfParts era yoe dm).month := by
  obtain ⟨y0, y1, d0, d1, hl, _, _⟩ := h
  have hm := month_parts dm d0 d1
  have hmp' : mpOf dm = (5 * dm + 2) / 153 := rfl
  simp only [civilOfParts, monthLen]
  by_cases hlt : mpOf dm < 10
  · have h3 : ¬ (mpOf dm + 3 ≤ 2) := by omega
    have h4 : ¬ (mpOf dm + 3 = 2) := by omega
    simp only [hlt, if_true, h3, h4, if_false]
    refine ⟨by omega, by omega, by omega, ?_⟩
    split <;> omega
  · have h3 : mpOf dm - 9 ≤ 2 := by omega
    simp only [hlt, if_false, h3, if_true]
    refine ⟨by omega, by omega, by omega, ?_⟩
    by_cases h11 : mpOf dm = 11
    · have h2 : mpOf dm - 9 = 2 := by omega
      simp only [h2, if_true]
      by_cases hleap : isLeap (yoe + era * 400 + 1) = true
      · simp only [hleap, if_true]; omega
      · have hne : dm ≠ 365 := by
          intro h365
          have := hl h365
          rw [isLeap_iff] at hleap
          omega
        simp only [hleap]; simp; omega
    · have h2 : ¬ (mpOf dm - 9 = 2) := by omega
      have h5 : ¬ (mpOf dm - 9 = 4 ∨ mpOf dm - 9 = 6 ∨ mpOf dm - 9 = 9 ∨ mpOf dm - 9 = 11) := by omega
      simp only [h2, h5, if_false]; omega

theorem parts_doy (era yoe dm doe z : Int) (h : PartsOk era yoe dm doe z) :
    (civilOfParts era yoe dm).doy = z - daysOfCivil (civilOfParts era yoe dm).year 1 1 := by
  obtain ⟨y0, y1, d0, d1, _, hr, he⟩ := h
  have hm := month_parts dm d0 d1
  simp only [civilOfParts, daysOfCivil]
  generalize mpOf dm = mp at *
  have one_le : (1 : Int) ≤ 2 := by omega
  have one_gt : ¬ ((1 : Int) > 2) := by omega
  simp only [one_le, one_gt, if_true, if_false]
  have m4 : (yoe + era * 400) % 4 = yoe % 4 := by omega
  have m100 : (yoe + era * 400) % 100 = yoe % 100 := by omega
  have m400 : (yoe + era * 400) % 400 = yoe := by omega
  by_cases hlt : mp < 10
  · have h3 : ¬ (mp + 3 ≤ 2) := by omega
    simp only [hlt, if_true, h3, if_false, Int.add_zero]
    by_cases hz : yoe = 0
    · subst hz
      have hleap : isLeap (0 + era * 400) = true := by rw [isLeap_iff]; omega
      have q1 : (0 + era * 400 - 1) / 400 = era - 1 := by omega
      have q2 : (0 + era * 400 - 1) % 400 = 399 := by omega
      simp only [hleap, if_true, q1, q2]; omega
    · have q1 : (yoe + era * 400 - 1) / 400 = era := by omega
      have q2 : (yoe + era * 400 - 1) % 400 = yoe - 1 := by omega
      simp only [q1, q2]
      by_cases hleap : isLeap (yoe + era * 400) = true
      · simp only [hleap, if_true]; rw [isLeap_iff, m4, m100, m400] at hleap
        have a4 : (yoe - 1) / 4 = yoe / 4 - 1 := by omega
        have a100 : (yoe - 1) / 100 = yoe / 100 := by omega
        omega
      · simp only [hleap]; rw [isLeap_iff, m4, m100, m400] at hleap
        have a : (yoe - 1) / 4 - (yoe - 1) / 100 = yoe / 4 - yoe / 100 := by omega
        simp; omega
  · have h3 : mp - 9 ≤ 2 := by omega
    simp only [hlt, if_false, h3, if_true]
    have q1 : (yoe + era * 400 + 1 - 1) / 400 = era := by omega
    have q2 : (yoe + era * 400 + 1 - 1) % 400 = yoe := by omega
    simp only [q1, q2]; omega

/-- The March-based year that ends with February of civil year `y + 1` has 365 days, or 366 when `y + 1`
    is a leap year. -/
theorem year_step (y : Int) :
    ((y + 1) / 400) * 146097 + ((y + 1) % 400 * 365 + (y + 1) % 400 / 4 - (y + 1) % 400 / 100) =
    (y / 400) * 146097 + (y % 400 * 365 + y % 400 / 4 - y % 400 / 100) + 365 +
      (if isLeap (y + 1) then 1 else 0) := by
  by_cases hl : isLeap (y + 1) = true
  · simp only [hl, if_true]; rw [isLeap_iff] at hl
    by_cases h4 : (y + 1) % 400 = 0
    · have : (y + 1) / 400 = y / 400 + 1 := by omega
      have : y % 400 = 399 := by omega
      omega
    · have : (y + 1) / 400 = y / 400 := by omega
      have : (y + 1) % 400 = y % 400 + 1 := by omega
      have : (y % 400 + 1) / 4 = y % 400 / 4 + 1 := by omega
      have : (y % 400 + 1) / 100 = y % 400 / 100 := by omega
      omega
  · simp only [hl]; rw [isLeap_iff] at hl; simp only [Bool.false_eq_true, if_false]
    have h4 : (y + 1) % 400 ≠ 0 := by omega
    have : (y + 1) / 400 = y / 400 := by omega
    have : (y + 1) % 400 = y % 400 + 1 := by omega
    have : (y % 400 + 1) / 4 - (y % 400 + 1) / 100 = y % 400 / 4 - y % 400 / 100 := by omega
    omega


end Rscel.Time
