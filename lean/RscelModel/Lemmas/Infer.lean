import RscelModel.Lemmas.CertNested
import RscelModel.Theorems.C10
/-
Completeness of the table inference (C10): whenever *some* table is accepted by `checkHeights`, the
one-pass inference `inferHeights` succeeds and its table is accepted too — so the executable checker
`wfFlat` accepts exactly the blocks that have a certificate.
-/
namespace Rscel
namespace Cert
open C10

/-- `A ⊑ B`: same length and every known entry of `A` is the same in `B`. -/
def Le (A B : Heights) : Prop :=
  A.length = B.length ∧ ∀ (k h : Nat), A[k]? = some (some h) → B[k]? = some (some h)

theorem le_refl (A : Heights) : Le A A := ⟨rfl, fun _ _ h => h⟩

theorem le_trans {A B C : Heights} (h1 : Le A B) (h2 : Le B C) : Le A C :=
  ⟨h1.1.trans h2.1, fun k h hk => h2.2 k h (h1.2 k h hk)⟩

theorem setHeight_spec {Hi H : Heights} {t v : Nat} (hle : Le Hi H) (ht : H[t]? = some (some v)) :
    ∃ Hi', setHeight Hi t v = some Hi' ∧ Le Hi Hi' ∧ Le Hi' H ∧ Hi'[t]? = some (some v) ∧
      ∀ k, k ≠ t → Hi'[k]? = Hi[k]? := by
  have htl : t < Hi.length := by
    rw [hle.1]; exact (List.getElem?_eq_some_iff.mp ht).1
  unfold setHeight
  rw [List.getElem?_eq_getElem htl]
  cases hx : Hi[t] with
  | none =>
    refine ⟨_, rfl, ⟨by simp, ?_⟩, ⟨by simp [hle.1], ?_⟩, by simp [htl], ?_⟩
    · intro k h hk
      by_cases hkt : t = k
      · subst hkt; rw [List.getElem?_eq_getElem htl, hx] at hk; cases hk
      · rw [List.getElem?_set_ne hkt]; exact hk
    · intro k h hk
      by_cases hkt : t = k
      · subst hkt
        rw [List.getElem?_set_self htl] at hk
        cases hk; exact ht
      · rw [List.getElem?_set_ne hkt] at hk; exact hle.2 k h hk
    · intro k hk
      rw [List.getElem?_set_ne (Ne.symm hk)]
  | some h' =>
    have hk : Hi[t]? = some (some h') := by rw [List.getElem?_eq_getElem htl, hx]
    have := hle.2 t h' hk
    rw [ht] at this
    simp only [Option.some.injEq] at this
    subst this
    simp only [if_true]
    exact ⟨_, rfl, le_refl _, hle, hk, fun _ _ => rfl⟩

theorem fold_spec {H : Heights} {v : Nat} : ∀ (ts : List Nat) (Hi : Heights), Le Hi H →
    (∀ t ∈ ts, H[t]? = some (some v)) →
    ∃ Hi', ts.foldlM (fun A t => setHeight A t v) Hi = some Hi' ∧ Le Hi Hi' ∧ Le Hi' H ∧
      (∀ t ∈ ts, Hi'[t]? = some (some v)) ∧ ∀ k, k ∉ ts → Hi'[k]? = Hi[k]?
  | [], Hi, hle, _ => ⟨Hi, rfl, le_refl _, hle, by simp, fun _ _ => rfl⟩
  | t :: ts, Hi, hle, ht => by
    obtain ⟨H1, e1, l1, l1H, g1, o1⟩ := setHeight_spec hle (ht t (by simp))
    obtain ⟨H2, e2, l2, l2H, g2, o2⟩ := fold_spec ts H1 l1H (fun x hx => ht x (by simp [hx]))
    refine ⟨H2, by simp [List.foldlM_cons, e1, e2], le_trans l1 l2, l2H, ?_, ?_⟩
    · intro x hx
      simp only [List.mem_cons] at hx
      rcases hx with rfl | hx
      · exact l2.2 _ _ g1
      · exact g2 x hx
    · intro k hk
      simp only [List.mem_cons, not_or] at hk
      rw [o2 k hk.2, o1 k hk.1]

theorem checkAt_mono {A A' : Heights} {len k : Nat} {i : Instr} (hle : Le A A') (hk : A'[k]? = A[k]?)
    (h : checkAt A len k i = true) : checkAt A' len k i = true := by
  unfold checkAt at h ⊢
  rw [hk]
  split at h
  · simp only [Bool.and_eq_true, decide_eq_true_eq] at h ⊢
    refine ⟨h.1, ?_⟩
    split
    · rename_i hs; simp [hs] at h
    · rename_i ts hs
      simp only [hs, List.all_eq_true, beq_iff_eq] at h ⊢
      intro t ht
      exact hle.2 _ _ (h.2 t ht)
  · rfl
  · cases h

theorem succs_ne_nil {i : Instr} {pc len : Nat} {ts : List Nat} (hs : i.succs pc len = some ts) : ts ≠ [] := by
  cases i <;> simp only [Instr.succs, Option.some.injEq] at hs <;> (try (subst hs; simp))
  all_goals
    split at hs
    · cases hs; simp
    · cases hs

theorem inferGo_spec (H : Heights) (code : List Instr) (hHl : H.length = code.length + 1)
    (hH : checkGo H code.length code 0 = true) :
    ∀ (rest : List Instr) (pc : Nat) (Hi : Heights),
      (∀ k i, rest[k]? = some i → code[pc + k]? = some i) → pc + rest.length = code.length →
      Le Hi H →
      (∀ k i, k < pc → code[k]? = some i → checkAt Hi code.length k i = true) →
      (∃ k, pc ≤ k ∧ k ≤ code.length ∧ ∃ h, Hi[k]? = some (some h)) →
      ∃ Hf, inferGo code.length rest pc Hi = some Hf ∧ Le Hi Hf ∧ Le Hf H ∧
        (∀ k i, code[k]? = some i → checkAt Hf code.length k i = true) ∧
        ∃ h, Hf[code.length]? = some (some h)
  | [], pc, Hi, _, hpc, hle, hdone, hfr => by
    simp only [List.length_nil, Nat.add_zero] at hpc
    subst hpc
    refine ⟨Hi, rfl, le_refl _, hle, ?_, ?_⟩
    · intro k i hk
      exact hdone k i (List.getElem?_eq_some_iff.mp hk).1 hk
    · obtain ⟨k, h1, h2, h, hk⟩ := hfr
      have : k = code.length := by omega
      subst this; exact ⟨h, hk⟩
  | i :: rest, pc, Hi, hsub, hpc, hle, hdone, hfr => by
    have hi : code[pc]? = some i := by simpa using hsub 0 i (by simp)
    have hlt : pc < code.length := (List.getElem?_eq_some_iff.mp hi).1
    have hsub' : ∀ k j, rest[k]? = some j → code[pc + 1 + k]? = some j := by
      intro k j hk
      have := hsub (k + 1) j (by simpa using hk)
      rwa [show pc + (k + 1) = pc + 1 + k by omega] at this
    have hpc' : pc + 1 + rest.length = code.length := by simp at hpc; omega
    unfold inferGo
    split
    · rename_i h hpcH
      have hHpc := hle.2 pc h hpcH
      have hat := checkGo_at H code.length code 0 hH pc i hi
      simp only [Nat.zero_add, checkAt, hHpc, Bool.and_eq_true, decide_eq_true_eq] at hat
      obtain ⟨hpops, hsucc⟩ := hat
      cases hs : i.succs pc code.length with
      | none => simp [hs] at hsucc
      | some ts =>
        simp only [hs, List.all_eq_true, beq_iff_eq] at hsucc
        obtain ⟨H1, e1, l1, l1H, g1, o1⟩ := fold_spec ts Hi hle hsucc
        have hb := succs_bounds hlt hs
        have hdone' : ∀ k j, k < pc + 1 → code[k]? = some j → checkAt H1 code.length k j = true := by
          intro k j hk hkj
          have hnot : k ∉ ts := fun hm => by have := (hb k hm).1; omega
          by_cases hkp : k = pc
          · subst hkp
            rw [hi] at hkj; cases hkj
            simp only [checkAt, o1 k hnot, hpcH, hs, Bool.and_eq_true, decide_eq_true_eq, List.all_eq_true,
              beq_iff_eq]
            exact ⟨hpops, g1⟩
          · exact checkAt_mono l1 (o1 k hnot) (hdone k j (by omega) hkj)
        have hfr' : ∃ k, pc + 1 ≤ k ∧ k ≤ code.length ∧ ∃ h, H1[k]? = some (some h) := by
          obtain ⟨t, ts', rfl⟩ := List.exists_cons_of_ne_nil (succs_ne_nil hs)
          have := hb t (by simp)
          exact ⟨t, by omega, this.2, _, g1 t (by simp)⟩
        obtain ⟨Hf, e2, l2, l2H, c2, f2⟩ := inferGo_spec H code hHl hH rest (pc + 1) H1 hsub' hpc' l1H hdone' hfr'
        refine ⟨Hf, ?_, le_trans l1 l2, l2H, c2, f2⟩
        simp only [hpops, if_true, e1]
        exact e2
    · rename_i hnk
      have hdone' : ∀ k j, k < pc + 1 → code[k]? = some j → checkAt Hi code.length k j = true := by
        intro k j hk hkj
        by_cases hkp : k = pc
        · subst hkp
          have hl : k < Hi.length := by
            have h1 := hle.1
            omega
          unfold checkAt
          rw [List.getElem?_eq_getElem hl]
          cases hx : Hi[k] with
          | none => rfl
          | some h => exact absurd (by rw [List.getElem?_eq_getElem hl, hx]) (hnk h)
        · exact hdone k j (by omega) hkj
      have hfr' : ∃ k, pc + 1 ≤ k ∧ k ≤ code.length ∧ ∃ h, Hi[k]? = some (some h) := by
        obtain ⟨k, h1, h2, h, hk⟩ := hfr
        refine ⟨k, ?_, h2, h, hk⟩
        by_cases hkp : k = pc
        · subst hkp; exact absurd hk (hnk h)
        · omega
      exact inferGo_spec H code hHl hH rest (pc + 1) Hi hsub' hpc' hle hdone' hfr'

/-- **Completeness of the inference**: a block with any accepted table is accepted by `wfFlat`. -/
theorem infer_complete {code : List Instr} {H : Heights} {h0 hf : Nat}
    (h : checkHeights code H h0 hf = true) : wfFlat code h0 hf = true := by
  simp only [checkHeights, Bool.and_eq_true, beq_iff_eq] at h
  obtain ⟨⟨⟨hl, h0'⟩, hfin⟩, hgo⟩ := h
  have hle0 : Le ((some h0) :: List.replicate code.length none) H := by
    refine ⟨by simp [hl], ?_⟩
    intro k h hk
    cases k with
    | zero => simp at hk; subst hk; exact h0'
    | succ k =>
      simp only [List.getElem?_cons_succ, List.getElem?_replicate] at hk
      split at hk <;> cases hk
  obtain ⟨Hf, e, l1, l2, hc, h', hlast⟩ := inferGo_spec H code hl hgo code 0 _
    (by intro k i hk; simpa using hk) (by simp) hle0 (by intro k i hk; omega)
    ⟨0, Nat.le_refl _, Nat.zero_le _, h0, by simp⟩
  unfold wfFlat inferHeights
  rw [e]
  simp only [checkHeights, Bool.and_eq_true, beq_iff_eq]
  have hfe : h' = hf := by
    have := l2.2 _ _ hlast
    rw [hfin] at this
    simpa using this.symm
  subst hfe
  refine ⟨⟨⟨by rw [l2.1, hl], l1.2 0 h0 (by simp)⟩, hlast⟩, ?_⟩
  apply checkGo_of_at
  intro k i hk
  simpa using hc k i hk

/-- The executable flat checker accepts exactly the blocks that have a certificate. -/
theorem wfFlat_iff_cert (code : List Instr) (h0 hf : Nat) :
    wfFlat code h0 hf = true ↔ ∃ H, checkHeights code H h0 hf = true :=
  ⟨cert_of_wfFlat, fun ⟨_, h⟩ => infer_complete h⟩

mutual
/-- … and so `nestedOk` accepts exactly the certified nestings. -/
theorem nestedOk_of_nc : (c : List Instr) → NestedCert c → nestedOk c = true
  | [], _ => rfl
  | i :: is, h => by
    rw [nc_cons] at h
    simp only [nestedOk, Bool.and_eq_true]
    exact ⟨nestedOkI_of_ncI i h.1, nestedOk_of_nc is h.2⟩
theorem nestedOkI_of_ncI : (i : Instr) → NestedCertI i → nestedOkI i = true
  | .push v, h => by
    simp only [nestedOkI]
    exact nestedOkV_of_ncV v (ncI_push.mp h)
  | .pop, _ | .test, _ | .dup, _ | .or, _ | .and, _ | .not, _ | .neg, _ | .add, _ | .sub, _ | .mul, _
  | .div, _ | .mod, _ | .lt, _ | .le, _ | .eq, _ | .ne, _ | .ge, _ | .gt, _ | .in_, _ | .jmp _, _
  | .jmpCond _ _, _ | .mkList _, _ | .mkDict _, _ | .index, _ | .access, _ | .call _, _ | .fmt _, _ => by
    simp [nestedOkI]
theorem nestedOkV_of_ncV : (v : Val) → NestedCertV v → nestedOkV v = true
  | .code c, h => by
    simp only [NestedCertV] at h
    simp only [nestedOkV, Bool.and_eq_true]
    exact ⟨(wfFlat_iff_cert c 0 1).mpr h.1, nestedOk_of_nc c h.2⟩
  | .list l, h => by
    simp only [NestedCertV] at h
    simp only [nestedOkV]
    exact nestedOkL_of_ncL l h
  | .map m, h => by
    simp only [NestedCertV] at h
    simp only [nestedOkV]
    exact nestedOkM_of_ncM m h
  | .int _, _ | .uint _, _ | .float _, _ | .bool _, _ | .str _, _ | .bytes _, _ | .null, _ | .ident _, _
  | .type _, _ | .ts _, _ | .dur _, _ | .err _, _ => by simp [nestedOkV]
theorem nestedOkL_of_ncL : (l : List Val) → NestedCertL l → nestedOkL l = true
  | [], _ => rfl
  | v :: vs, h => by
    simp only [NestedCertL] at h
    simp only [nestedOkL, Bool.and_eq_true]
    exact ⟨nestedOkV_of_ncV v h.1, nestedOkL_of_ncL vs h.2⟩
theorem nestedOkM_of_ncM : (m : List (Str × Val)) → NestedCertM m → nestedOkM m = true
  | [], _ => rfl
  | (_, v) :: vs, h => by
    simp only [NestedCertM] at h
    simp only [nestedOkM, Bool.and_eq_true]
    exact ⟨nestedOkV_of_ncV v h.1, nestedOkM_of_ncM vs h.2⟩
end

theorem nestedOk_iff_nc (c : List Instr) : nestedOk c = true ↔ NestedCert c :=
  ⟨nc_of_nestedOk c, nestedOk_of_nc c⟩

/-- The executable checker `wfBlock`, in certificate form. -/
theorem wfBlock_iff_cert (code : List Instr) :
    wfBlock code = true ↔ (∃ H, checkHeights code H 0 1 = true) ∧ NestedCert code := by
  simp only [wfBlock, Bool.and_eq_true, wfFlat_iff_cert, nestedOk_iff_nc]

end Cert
end Rscel
