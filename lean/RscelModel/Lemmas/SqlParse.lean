import RscelModel.Lemmas.SqlDoc
/-
The parser: more fuel never changes an answer, and the token list of a well-formed builder tree parses
back to the tree it denotes.
-/
set_option linter.unusedSimpArgs false
namespace Rscel.Sql
open Rscel

/-! ### fuel monotonicity -/

/-- `b` answers whatever `a` answers -/
def OLe {α : Type} (a b : Option α) : Prop := ∀ r, a = some r → b = some r

theorem OLe.refl {α : Type} (a : Option α) : OLe a a := fun _ h => h
theorem OLe.none {α : Type} (b : Option α) : OLe none b := fun _ h => by cases h
theorem OLe.bind {α β : Type} {a a' : Option α} {k k' : α → Option β} (h1 : OLe a a') (h2 : ∀ x, OLe (k x) (k' x)) :
    OLe (a.bind k) (a'.bind k') := by
  intro r h
  cases a with
  | none => cases h
  | some x => rw [h1 x rfl]; exact h2 x r h

structure Mono (f : Nat) : Prop where
  expr : ∀ m ts, OLe (pExpr f m ts) (pExpr (f + 1) m ts)
  binLoop : ∀ m l ts, OLe (pBinLoop f m l ts) (pBinLoop (f + 1) m l ts)
  unary : ∀ ts, OLe (pUnary f ts) (pUnary (f + 1) ts)
  postLoop : ∀ c ts, OLe (pPostLoop f c ts) (pPostLoop (f + 1) c ts)
  primary : ∀ ts, OLe (pPrimary f ts) (pPrimary (f + 1) ts)
  args : ∀ c ts, OLe (pArgs f c ts) (pArgs (f + 1) c ts)
  argsMore : ∀ c ts, OLe (pArgsMore f c ts) (pArgsMore (f + 1) c ts)

theorem mono : ∀ f, Mono f
  | 0 => by
    constructor <;> intros <;> simp only [pExpr, pBinLoop, pUnary, pPostLoop, pPrimary, pArgs, pArgsMore] <;> exact OLe.none _
  | f + 1 => by
    have ih := mono f
    constructor
    · intro m ts
      simp only [pExpr]
      exact OLe.bind (ih.unary ts) (fun r => ih.binLoop _ _ _)
    · intro m l ts
      simp only [pBinLoop]
      split
      · exact OLe.refl _
      · split
        · exact OLe.refl _
        · split
          · exact OLe.refl _
          · exact OLe.bind (ih.expr _ _) (fun r => ih.binLoop _ _ _)
    · intro ts
      simp only [pUnary]
      split
      · split
        · exact OLe.bind (ih.unary _) (fun r => OLe.refl _)
        · exact OLe.bind (ih.primary _) (fun r => ih.postLoop _ _)
      · exact OLe.bind (ih.primary _) (fun r => ih.postLoop _ _)
    · intro c ts
      simp only [pPostLoop]
      split
      · split
        · refine OLe.bind (OLe.refl _) (fun r => ?_)
          split
          · exact OLe.refl _
          · exact ih.postLoop _ _
        · split
          · exact OLe.bind (ih.expr _ _) (fun r => OLe.bind (OLe.refl _) (fun r' => ih.postLoop _ _))
          · split
            · exact OLe.bind (ih.args _ _) (fun r => ih.postLoop _ _)
            · exact OLe.refl _
      · exact OLe.refl _
    · intro ts
      simp only [pPrimary]
      split
      · exact OLe.refl _
      · exact OLe.refl _
      · split
        · exact OLe.bind (ih.expr _ _) (fun r => OLe.refl _)
        · exact OLe.refl _
      · split
        · exact OLe.refl _
        · split
          · exact OLe.refl _
          · split
            · exact OLe.refl _
            · split
              · exact OLe.bind (OLe.refl _) (fun r => OLe.bind (ih.args _ _) (fun r' => OLe.refl _))
              · split
                · exact OLe.bind (ih.expr _ _) (fun a => OLe.bind (OLe.refl _) (fun r1 =>
                    OLe.bind (ih.expr _ _) (fun b => OLe.bind (OLe.refl _) (fun r2 =>
                    OLe.bind (ih.expr _ _) (fun c => OLe.bind (OLe.refl _) (fun r3 =>
                    OLe.bind (ih.expr _ _) (fun d => OLe.bind (OLe.refl _) (fun r4 => OLe.refl _))))))))
                · exact OLe.refl _
      · exact OLe.refl _
    · intro c ts
      simp only [pArgs]
      split
      · exact OLe.refl _
      · exact ih.argsMore _ _
    · intro c ts
      simp only [pArgsMore]
      refine OLe.bind (ih.expr _ _) (fun r => ?_)
      split
      · exact OLe.refl _
      · exact OLe.bind (OLe.refl _) (fun r' => OLe.bind (ih.argsMore _ _) (fun q => OLe.refl _))

theorem le_of_some {α : Type} {p : Nat → Option α} (hm : ∀ f, OLe (p f) (p (f + 1))) {f f' : Nat} (hle : f ≤ f')
    {r : α} (h : p f = some r) : p f' = some r := by
  induction hle with
  | refl => exact h
  | step _ ih => exact hm _ _ ih

theorem pExpr_mono {f f' m ts r} (hle : f ≤ f') (h : pExpr f m ts = some r) : pExpr f' m ts = some r :=
  le_of_some (p := fun f => pExpr f m ts) (fun f => (mono f).expr m ts) hle h
theorem pUnary_mono {f f' ts r} (hle : f ≤ f') (h : pUnary f ts = some r) : pUnary f' ts = some r :=
  le_of_some (p := fun f => pUnary f ts) (fun f => (mono f).unary ts) hle h
theorem pPostLoop_mono {f f' c ts r} (hle : f ≤ f') (h : pPostLoop f c ts = some r) : pPostLoop f' c ts = some r :=
  le_of_some (p := fun f => pPostLoop f c ts) (fun f => (mono f).postLoop c ts) hle h
theorem pBinLoop_mono {f f' m l ts r} (hle : f ≤ f') (h : pBinLoop f m l ts = some r) : pBinLoop f' m l ts = some r :=
  le_of_some (p := fun f => pBinLoop f m l ts) (fun f => (mono f).binLoop m l ts) hle h
theorem pPrimary_mono {f f' ts r} (hle : f ≤ f') (h : pPrimary f ts = some r) : pPrimary f' ts = some r :=
  le_of_some (p := fun f => pPrimary f ts) (fun f => (mono f).primary ts) hle h
theorem pArgs_mono {f f' c ts r} (hle : f ≤ f') (h : pArgs f c ts = some r) : pArgs f' c ts = some r :=
  le_of_some (p := fun f => pArgs f c ts) (fun f => (mono f).args c ts) hle h
theorem pArgsMore_mono {f f' c ts r} (hle : f ≤ f') (h : pArgsMore f c ts = some r) : pArgsMore f' c ts = some r :=
  le_of_some (p := fun f => pArgsMore f c ts) (fun f => (mono f).argsMore c ts) hle h


/-! ### parsing within a fuel budget -/

/-- `p` answers `r` with some fuel `≤ n` (hence with every fuel `≥ n`) -/
def Within {α : Type} (p : Nat → Option α) (n : Nat) (r : α) : Prop := ∃ f, f ≤ n ∧ p f = some r

theorem Within.le {α : Type} {p : Nat → Option α} {n n' : Nat} {r : α} (h : Within p n r) (hle : n ≤ n') : Within p n' r := by
  obtain ⟨f, hf, h⟩ := h; exact ⟨f, by omega, h⟩

def PE (n m : Nat) (ts : List STok) (t : SqlTree) (r : List STok) : Prop := Within (fun f => pExpr f m ts) n (t, r)
def PBL (n m : Nat) (l : SqlTree) (ts : List STok) (t : SqlTree) (r : List STok) : Prop := Within (fun f => pBinLoop f m l ts) n (t, r)
def PU (n : Nat) (ts : List STok) (t : SqlTree) (r : List STok) : Prop := Within (fun f => pUnary f ts) n (t, r)
def PL (n : Nat) (c : SqlTree) (ts : List STok) (t : SqlTree) (r : List STok) : Prop := Within (fun f => pPostLoop f c ts) n (t, r)
def PP (n : Nat) (ts : List STok) (t : SqlTree) (r : List STok) : Prop := Within (fun f => pPrimary f ts) n (t, r)
def PA (n : Nat) (close : Str) (ts : List STok) (as : List SqlTree) (r : List STok) : Prop := Within (fun f => pArgs f close ts) n (as, r)
def PAM (n : Nat) (close : Str) (ts : List STok) (as : List SqlTree) (r : List STok) : Prop := Within (fun f => pArgsMore f close ts) n (as, r)

theorem PE.at {n m ts t r} (h : PE n m ts t r) : pExpr n m ts = some (t, r) := by
  obtain ⟨f, hf, h⟩ := h; exact pExpr_mono hf h
theorem PBL.at {n m l ts t r} (h : PBL n m l ts t r) : pBinLoop n m l ts = some (t, r) := by
  obtain ⟨f, hf, h⟩ := h; exact pBinLoop_mono hf h
theorem PU.at {n ts t r} (h : PU n ts t r) : pUnary n ts = some (t, r) := by
  obtain ⟨f, hf, h⟩ := h; exact pUnary_mono hf h
theorem PL.at {n c ts t r} (h : PL n c ts t r) : pPostLoop n c ts = some (t, r) := by
  obtain ⟨f, hf, h⟩ := h; exact pPostLoop_mono hf h
theorem PP.at {n ts t r} (h : PP n ts t r) : pPrimary n ts = some (t, r) := by
  obtain ⟨f, hf, h⟩ := h; exact pPrimary_mono hf h
theorem PA.at {n c ts as r} (h : PA n c ts as r) : pArgs n c ts = some (as, r) := by
  obtain ⟨f, hf, h⟩ := h; exact pArgs_mono hf h
theorem PAM.at {n c ts as r} (h : PAM n c ts as r) : pArgsMore n c ts = some (as, r) := by
  obtain ⟨f, hf, h⟩ := h; exact pArgsMore_mono hf h

theorem PE.mk {n1 n2 m ts t r1 t' r2} (hu : PU n1 ts t r1) (hb : PBL n2 m t r1 t' r2) : PE (n1 + n2 + 1) m ts t' r2 := by
  refine ⟨n1 + n2 + 1, Nat.le_refl _, ?_⟩
  simp only [pExpr]
  rw [pUnary_mono (by omega) hu.at]
  simpa using pBinLoop_mono (by omega) hb.at

def isPostStart (t : STok) : Bool := t == .sym [':', ':'] || t == .sym ['['] || t == .sym ['(']

/-- the next token does not continue a postfix chain -/
def NoPost (ts : List STok) : Prop := ∀ t r, ts = t :: r → isPostStart t = false
/-- the next token is not a binary operator -/
def NoBin (ts : List STok) : Prop := ∀ t r, ts = t :: r → binop t = none

theorem PL.stop {c ts} (h : NoPost ts) : PL 1 c ts c ts := by
  refine ⟨1, Nat.le_refl _, ?_⟩
  cases ts with
  | nil => simp [pPostLoop]
  | cons t r =>
    have := h t r rfl
    cases t with
    | sym s =>
      simp only [isPostStart, Bool.or_eq_false_iff, beq_eq_false_iff_ne, ne_eq, STok.sym.injEq] at this
      simp [pPostLoop, this.1.1, this.1.2, this.2]
    | _ => simp [pPostLoop]

theorem PBL.stop {m l ts} (h : NoBin ts) : PBL 1 m l ts l ts := by
  refine ⟨1, Nat.le_refl _, ?_⟩
  cases ts with
  | nil => simp [pBinLoop]
  | cons t r => simp [pBinLoop, h t r rfl]

theorem PBL.step {n1 n2 m l t ts p name rhs r1 t' r2} (hop : binop t = some (p, name)) (hp : ¬ p < m)
    (he : PE n1 (p + 1) ts rhs r1) (hb : PBL n2 m (.bin name l rhs) r1 t' r2) : PBL (n1 + n2 + 1) m l (t :: ts) t' r2 := by
  refine ⟨n1 + n2 + 1, Nat.le_refl _, ?_⟩
  simp only [pBinLoop, hop, hp, if_false]
  rw [pExpr_mono (by omega) he.at]
  simpa using pBinLoop_mono (by omega) hb.at

/-- a primary followed by its postfix chain, when the text does not start with a prefix operator -/
theorem PU.mk {n1 n2 ts p r1 t r2} (hp : PP n1 ts p r1) (hl : PL n2 p r1 t r2)
    (hh : ∀ s r, ts = .sym s :: r → isPrefixOp s = false) : PU (n1 + n2 + 1) ts t r2 := by
  refine ⟨n1 + n2 + 1, Nat.le_refl _, ?_⟩
  have e1 : pPrimary (n1 + n2) ts = some (p, r1) := pPrimary_mono (by omega) hp.at
  have e2 : pPostLoop (n1 + n2) p r1 = some (t, r2) := pPostLoop_mono (by omega) hl.at
  cases ts with
  | nil => simp only [pUnary]; rw [e1]; simpa using e2
  | cons t0 r0 =>
    cases t0 with
    | sym s =>
      simp only [pUnary, hh s r0 rfl, Bool.false_eq_true, if_false]; rw [e1]; simpa using e2
    | _ => simp only [pUnary]; rw [e1]; simpa using e2

theorem PU.prefix {n s ts t r} (hs : isPrefixOp s = true) (h : PU n ts t r) : PU (n + 1) (.sym s :: ts) (.un s t) r :=
  ⟨n + 1, Nat.le_refl _, by simp [pUnary, hs, h.at]⟩

theorem PP.parens {n ts t r} (h : PE n 0 ts t (.sym [')'] :: r)) : PP (n + 1) (.sym ['('] :: ts) t r :=
  ⟨n + 1, Nat.le_refl _, by simp [pPrimary, h.at, expectSym]⟩

theorem PL.cast {n c ts ty r t r'} (ht : pType ts = some (ty, r)) (hb : bracketNext r = false)
    (h : PL n (.cast c ty) r t r') : PL (n + 1) c (.sym [':', ':'] :: ts) t r' :=
  ⟨n + 1, Nat.le_refl _, by simp [pPostLoop, ht, hb, h.at]⟩

theorem PL.index {n1 n2 c ts i r t r'} (he : PE n1 0 ts i (.sym [']'] :: r)) (h : PL n2 (.index c i) r t r') :
    PL (n1 + n2 + 1) c (.sym ['['] :: ts) t r' := by
  refine ⟨n1 + n2 + 1, Nat.le_refl _, ?_⟩
  have e1 : pExpr (n1 + n2) 0 ts = some (i, .sym [']'] :: r) := pExpr_mono (by omega) he.at
  have e2 : pPostLoop (n1 + n2) (.index c i) r = some (t, r') := pPostLoop_mono (by omega) h.at
  simp [pPostLoop, e1, expectSym, e2]

theorem PL.call {n1 n2 c ts as r t r'} (ha : PA n1 [')'] ts as r) (h : PL n2 (.call c as) r t r') :
    PL (n1 + n2 + 1) c (.sym ['('] :: ts) t r' := by
  refine ⟨n1 + n2 + 1, Nat.le_refl _, ?_⟩
  have e1 : pArgs (n1 + n2) [')'] ts = some (as, r) := pArgs_mono (by omega) ha.at
  have e2 : pPostLoop (n1 + n2) (.call c as) r = some (t, r') := pPostLoop_mono (by omega) h.at
  simp [pPostLoop, e1, e2]

/-! ### the tokens that end an expression -/

def isStop (t : STok) : Bool :=
  t == .sym [')'] || t == .sym [']'] || t == .sym [','] || t == .word ['w', 'h', 'e', 'n'] || t == .word ['t', 'h', 'e', 'n']
    || t == .word ['e', 'l', 's', 'e'] || t == .word ['e', 'n', 'd']

/-- nothing follows, or a token that ends an expression -/
def Stop (ts : List STok) : Prop := ∀ t r, ts = t :: r → isStop t = true

theorem Stop.nil : Stop [] := by intro t r h; cases h
theorem Stop.cons {t : STok} (h : isStop t = true) (r : List STok) : Stop (t :: r) := by
  intro t' r' e; cases e; exact h

theorem stop_cases {t : STok} (h : isStop t = true) :
    t = .sym [')'] ∨ t = .sym [']'] ∨ t = .sym [','] ∨ t = .word ['w', 'h', 'e', 'n'] ∨ t = .word ['t', 'h', 'e', 'n']
      ∨ t = .word ['e', 'l', 's', 'e'] ∨ t = .word ['e', 'n', 'd'] := by
  simpa [isStop, or_assoc] using h

theorem Stop.noPost {ts} (h : Stop ts) : NoPost ts := by
  intro t r e
  rcases stop_cases (h t r e) with rfl | rfl | rfl | rfl | rfl | rfl | rfl <;> decide

theorem Stop.noBin {ts} (h : Stop ts) : NoBin ts := by
  intro t r e
  rcases stop_cases (h t r e) with rfl | rfl | rfl | rfl | rfl | rfl | rfl <;> decide

theorem Stop.noBracket {ts} (h : Stop ts) : bracketNext ts = false := by
  cases ts with
  | nil => rfl
  | cons t r => rcases stop_cases (h t r rfl) with rfl | rfl | rfl | rfl | rfl | rfl | rfl <;> rfl

/-- an expression that is a postfix chain, followed by a stop -/
theorem PE.ofUnary {n m ts t r} (hu : PU n ts t r) (hs : Stop r) : PE (n + 2) m ts t r := PE.mk hu (PBL.stop hs.noBin)

/-! ### operators, types, keywords -/

def opPrec (op : Str) : Nat :=
  if op = ['O', 'R'] then 1 else if op = ['A', 'N', 'D'] then 2 else if op = ['i', 'n'] then 6
  else if op = ['+'] ∨ op = ['-'] then 8 else if op = ['*'] ∨ op = ['/'] ∨ op = ['%'] then 9 else 5

theorem binop_opTok (op : Str) (h : okOps.contains op = true) : binop (opTok op) = some (opPrec op, canonOp op) := by
  simp only [okOps, List.contains_cons, List.contains_nil, Bool.or_false, Bool.or_eq_true, beq_iff_eq] at h
  rcases h with rfl | rfl | rfl | rfl | rfl | rfl | rfl | rfl | rfl | rfl | rfl | rfl | rfl | rfl <;> decide

theorem opTok_noPost (op : Str) (h : okOps.contains op = true) (r : List STok) : NoPost (opTok op :: r) := by
  intro t r' e; cases e
  simp only [okOps, List.contains_cons, List.contains_nil, Bool.or_false, Bool.or_eq_true, beq_iff_eq] at h
  rcases h with rfl | rfl | rfl | rfl | rfl | rfl | rfl | rfl | rfl | rfl | rfl | rfl | rfl | rfl <;> decide

theorem pType_typeToks (ty : Str) (h : okTypes.contains ty = true) (r : List STok) :
    pType (typeToks ty ++ r) = some (ty, r) := by
  simp only [okTypes, List.contains_cons, List.contains_nil, Bool.or_false, Bool.or_eq_true, beq_iff_eq] at h
  rcases h with rfl | rfl | rfl | rfl | rfl | rfl | rfl | rfl | rfl <;> rfl

theorem kw_of_not_reserved {s k : Str} (h : isReserved s = false) (hk : k ∈ reserved) : kw s k = false := by
  cases hkw : kw s k with
  | false => rfl
  | true =>
    have e : lowerStr s = k := by simpa [kw] using hkw
    have : isReserved s = true := by
      simp only [isReserved, e]; exact List.contains_iff_mem.mpr hk
    rw [h] at this; cases this

/-- a name that is not reserved is read as a name -/
theorem PP.ident {name : Str} (h : isReserved name = false) (r : List STok) : PP 1 (.word name :: r) (.ident name) r := by
  refine ⟨1, Nat.le_refl _, ?_⟩
  simp [pPrimary, kw_of_not_reserved h (k := ['n', 'u', 'l', 'l']) (by decide),
    kw_of_not_reserved h (k := ['t', 'r', 'u', 'e']) (by decide),
    kw_of_not_reserved h (k := ['f', 'a', 'l', 's', 'e']) (by decide),
    kw_of_not_reserved h (k := ['a', 'r', 'r', 'a', 'y']) (by decide),
    kw_of_not_reserved h (k := ['c', 'a', 's', 'e']) (by decide), h]


/-! ### argument lists, `case`, `ARRAY` -/

theorem PAM.last {n close ts e r} (h : PE n 0 ts e (.sym close :: r)) : PAM (n + 1) close ts [e] r :=
  ⟨n + 1, Nat.le_refl _, by simp [pArgsMore, h.at, expectSym]⟩

theorem PAM.cons {n1 n2 close ts e r1 es r} (h : PE n1 0 ts e (.sym [','] :: r1)) (hc : close ≠ [','])
    (hm : PAM n2 close r1 es r) : PAM (n1 + n2 + 1) close ts (e :: es) r := by
  refine ⟨n1 + n2 + 1, Nat.le_refl _, ?_⟩
  have e1 : pExpr (n1 + n2) 0 ts = some (e, .sym [','] :: r1) := pExpr_mono (by omega) h.at
  have e2 : pArgsMore (n1 + n2) close r1 = some (es, r) := pArgsMore_mono (by omega) hm.at
  have hc' : ¬ ([','] : Str) = close := fun e => hc e.symm
  simp [pArgsMore, e1, expectSym, hc', e2]

theorem PA.nil {close r} : PA 1 close (.sym close :: r) [] r := ⟨1, Nat.le_refl _, by simp [pArgs, expectSym]⟩

theorem PA.more {n close ts as r} (hn : expectSym close ts = none) (h : PAM n close ts as r) : PA (n + 1) close ts as r :=
  ⟨n + 1, Nat.le_refl _, by simp [pArgs, hn, h.at]⟩

theorem PP.case_ {n1 n2 n3 n4 ts a r1 b r2 c r3 d r4}
    (ha : PE n1 0 ts a (.word ['w', 'h', 'e', 'n'] :: r1)) (hb : PE n2 0 r1 b (.word ['t', 'h', 'e', 'n'] :: r2))
    (hc : PE n3 0 r2 c (.word ['e', 'l', 's', 'e'] :: r3)) (hd : PE n4 0 r3 d (.word ['e', 'n', 'd'] :: r4)) :
    PP (n1 + n2 + n3 + n4 + 1) (.word ['c', 'a', 's', 'e'] :: ts) (.case_ a b c d) r4 := by
  refine ⟨n1 + n2 + n3 + n4 + 1, Nat.le_refl _, ?_⟩
  have e1 : pExpr (n1 + n2 + n3 + n4) 0 ts = _ := pExpr_mono (by omega) ha.at
  have e2 : pExpr (n1 + n2 + n3 + n4) 0 r1 = _ := pExpr_mono (by omega) hb.at
  have e3 : pExpr (n1 + n2 + n3 + n4) 0 r2 = _ := pExpr_mono (by omega) hc.at
  have e4 : pExpr (n1 + n2 + n3 + n4) 0 r3 = _ := pExpr_mono (by omega) hd.at
  have k1 : kw ['c', 'a', 's', 'e'] ['n', 'u', 'l', 'l'] = false := by decide
  have k2 : kw ['c', 'a', 's', 'e'] ['t', 'r', 'u', 'e'] = false := by decide
  have k3 : kw ['c', 'a', 's', 'e'] ['f', 'a', 'l', 's', 'e'] = false := by decide
  have k4 : kw ['c', 'a', 's', 'e'] ['a', 'r', 'r', 'a', 'y'] = false := by decide
  have k5 : kw ['c', 'a', 's', 'e'] ['c', 'a', 's', 'e'] = true := by decide
  have w1 : kw ['w', 'h', 'e', 'n'] ['w', 'h', 'e', 'n'] = true := by decide
  have w2 : kw ['t', 'h', 'e', 'n'] ['t', 'h', 'e', 'n'] = true := by decide
  have w3 : kw ['e', 'l', 's', 'e'] ['e', 'l', 's', 'e'] = true := by decide
  have w4 : kw ['e', 'n', 'd'] ['e', 'n', 'd'] = true := by decide
  simp [pPrimary, k1, k2, k3, k4, k5, e1, e2, e3, e4, expectKw, w1, w2, w3, w4]

theorem PP.array {n ts as r} (h : PA n [']'] ts as r) :
    PP (n + 1) (.word ['A', 'R', 'R', 'A', 'Y'] :: .sym ['['] :: ts) (.array as) r := by
  have k1 : kw ['A', 'R', 'R', 'A', 'Y'] ['n', 'u', 'l', 'l'] = false := by decide
  have k2 : kw ['A', 'R', 'R', 'A', 'Y'] ['t', 'r', 'u', 'e'] = false := by decide
  have k3 : kw ['A', 'R', 'R', 'A', 'Y'] ['f', 'a', 'l', 's', 'e'] = false := by decide
  have k4 : kw ['A', 'R', 'R', 'A', 'Y'] ['a', 'r', 'r', 'a', 'y'] = true := by decide
  exact ⟨n + 1, Nat.le_refl _, by simp [pPrimary, k1, k2, k3, k4, expectSym, h.at]⟩

/-- a one-token primary -/
theorem PP.one {ts t r} (h : pPrimary 1 ts = some (t, r)) : PP 1 ts t r := ⟨1, Nat.le_refl _, h⟩

/-! ### the first token of a token list -/

/-- the list starts with a token that is not a closing bracket -/
def HeadOk (ts : List STok) : Prop := ∃ t r, ts = t :: r ∧ t ≠ .sym [')'] ∧ t ≠ .sym [']']

theorem HeadOk.append {ts} (h : HeadOk ts) (X : List STok) : HeadOk (ts ++ X) := by
  obtain ⟨t, r, rfl, h1, h2⟩ := h; exact ⟨t, r ++ X, rfl, h1, h2⟩

theorem HeadOk.expect {ts} (h : HeadOk ts) (close : Str) (hc : close = [')'] ∨ close = [']']) :
    expectSym close ts = none := by
  obtain ⟨t, r, rfl, h1, h2⟩ := h
  cases t with
  | sym s =>
    have : ¬ s = close := by
      rcases hc with rfl | rfl
      · intro e; exact h1 (by rw [e])
      · intro e; exact h2 (by rw [e])
    simp [expectSym, this]
  | _ => simp [expectSym]

theorem wrapToks_head (b : Bool) (ts : List STok) (h : HeadOk ts) : HeadOk (wrapToks b ts) := by
  cases b
  · simpa [wrapToks] using h
  · exact ⟨.sym ['('], ts ++ [.sym [')']], rfl, by decide, by decide⟩

theorem Doc.toks_head : (d : Doc) → HeadOk d.toks
  | .ternary .. => ⟨_, _, by rw [Doc.toks]; rfl, by decide, by decide⟩
  | .binary .. => ⟨_, _, by rw [Doc.toks]; rfl, by decide, by decide⟩
  | .unary .. => ⟨_, _, by rw [Doc.toks]; rfl, by decide, by decide⟩
  | .ident _ => ⟨_, _, by rw [Doc.toks], by simp, by simp⟩
  | .lit l => by
    rw [Doc.toks]
    cases l with
    | bool b => cases b <;> exact ⟨_, _, rfl, by decide, by decide⟩
    | _ => exact ⟨_, _, rfl, by simp, by simp⟩
  | .parens .. => ⟨_, _, by rw [Doc.toks]; rfl, by decide, by decide⟩
  | .call f _ => by
    rw [Doc.toks]; exact ((wrapToks_head _ _ f.toks_head).append _).append _
  | .cast v _ => by
    rw [Doc.toks]; exact (wrapToks_head _ _ v.toks_head).append _
  | .access .. => ⟨_, _, by rw [Doc.toks]; rfl, by decide, by decide⟩
  | .array .. => ⟨_, _, by rw [Doc.toks]; rfl, by decide, by decide⟩
  | .index .. => ⟨_, _, by rw [Doc.toks]; rfl, by decide, by decide⟩

end Rscel.Sql
