import RscelModel.Lemmas.SqlDoc
/-
The parser: more fuel never changes an answer, and the token list of a well-formed builder tree parses
back to the tree it denotes.
-/
set_option linter.unusedSimpArgs false
namespace Rscel.Sql
open Rscel

/-! ### fuel monotonicity -/

/-- `b` answers whatever `a` answers -/
def OLe {α : Type} (a b : Option α) : Prop := ∀ r, a = some r → b = some r

theorem OLe.refl {α : Type} (a : Option α) : OLe a a := fun _ h => h
theorem OLe.none {α : Type} (b : Option α) : OLe none b := fun _ h => by cases h
theorem OLe.bind {α β : Type} {a a' : Option α} {k k' : α → Option β} (h1 : OLe a a') (h2 : ∀ x, OLe (k x) (k' x)) :
    OLe (a.bind k) (a'.bind k') := by
  intro r h
  cases a with
  | none => cases h
  | some x => rw [h1 x rfl]; exact h2 x r h

structure Mono (f : Nat) : Prop where
  expr : ∀ m ts, OLe (pExpr f m ts) (pExpr (f + 1) m ts)
  binLoop : ∀ m l ts, OLe (pBinLoop f m l ts) (pBinLoop (f + 1) m l ts)
  unary : ∀ ts, OLe (pUnary f ts) (pUnary (f + 1) ts)
  postLoop : ∀ c ts, OLe (pPostLoop f c ts) (pPostLoop (f + 1) c ts)
  primary : ∀ ts, OLe (pPrimary f ts) (pPrimary (f + 1) ts)
  args : ∀ c ts, OLe (pArgs f c ts) (pArgs (f + 1) c ts)
  argsMore : ∀ c ts, OLe (pArgsMore f c ts) (pArgsMore (f + 1) c ts)

theorem mono : ∀ f, Mono f
  | 0 => by
    constructor <;> intros <;> simp only [pExpr, pBinLoop, pUnary, pPostLoop, pPrimary, pArgs, pArgsMore] <;> exact OLe.none _
  | f + 1 => by
    have ih := mono f
    constructor
    · intro m ts
      simp only [pExpr]
      exact OLe.bind (ih.unary ts) (fun r => ih.binLoop _ _ _)
    · intro m l ts
      simp only [pBinLoop]
      split
      · exact OLe.refl _
      · split
        · exact OLe.refl _
        · split
          · exact OLe.refl _
          · exact OLe.bind (ih.expr _ _) (fun r => ih.binLoop _ _ _)
    · intro ts
      simp only [pUnary]
      split
      · split
        · exact OLe.bind (ih.unary _) (fun r => OLe.refl _)
        · exact OLe.bind (ih.primary _) (fun r => ih.postLoop _ _)
      · exact OLe.bind (ih.primary _) (fun r => ih.postLoop _ _)
    · intro c ts
      simp only [pPostLoop]
      split
      · split
        · refine OLe.bind (OLe.refl _) (fun r => ?_)
          split
          · exact OLe.refl _
          · exact ih.postLoop _ _
        · split
          · exact OLe.bind (ih.expr _ _) (fun r => OLe.bind (OLe.refl _) (fun r' => ih.postLoop _ _))
          · split
            · exact OLe.bind (ih.args _ _) (fun r => ih.postLoop _ _)
            · exact OLe.refl _
      · exact OLe.refl _
    · intro ts
      simp only [pPrimary]
      split
      · exact OLe.refl _
      · exact OLe.refl _
      · split
        · exact OLe.bind (ih.expr _ _) (fun r => OLe.refl _)
        · exact OLe.refl _
      · split
        · exact OLe.refl _
        · split
          · exact OLe.refl _
          · split
            · exact OLe.refl _
            · split
              · exact OLe.bind (OLe.refl _) (fun r => OLe.bind (ih.args _ _) (fun r' => OLe.refl _))
              · split
                · exact OLe.bind (ih.expr _ _) (fun a => OLe.bind (OLe.refl _) (fun r1 =>
                    OLe.bind (ih.expr _ _) (fun b => OLe.bind (OLe.refl _) (fun r2 =>
                    OLe.bind (ih.expr _ _) (fun c => OLe.bind (OLe.refl _) (fun r3 =>
                    OLe.bind (ih.expr _ _) (fun d => OLe.bind (OLe.refl _) (fun r4 => OLe.refl _))))))))
                · exact OLe.refl _
      · exact OLe.refl _
    · intro c ts
      simp only [pArgs]
      split
      · exact OLe.refl _
      · exact ih.argsMore _ _
    · intro c ts
      simp only [pArgsMore]
      refine OLe.bind (ih.expr _ _) (fun r => ?_)
      split
      · exact OLe.refl _
      · exact OLe.bind (OLe.refl _) (fun r' => OLe.bind (ih.argsMore _ _) (fun q => OLe.refl _))

theorem le_of_some {α : Type} {p : Nat → Option α} (hm : ∀ f, OLe (p f) (p (f + 1))) {f f' : Nat} (hle : f ≤ f')
    {r : α} (h : p f = some r) : p f' = some r := by
  induction hle with
  | refl => exact h
  | step _ ih => exact hm _ _ ih

theorem pExpr_mono {f f' m ts r} (hle : f ≤ f') (h : pExpr f m ts = some r) : pExpr f' m ts = some r :=
  le_of_some (p := fun f => pExpr f m ts) (fun f => (mono f).expr m ts) hle h
theorem pUnary_mono {f f' ts r} (hle : f ≤ f') (h : pUnary f ts = some r) : pUnary f' ts = some r :=
  le_of_some (p := fun f => pUnary f ts) (fun f => (mono f).unary ts) hle h
theorem pPostLoop_mono {f f' c ts r} (hle : f ≤ f') (h : pPostLoop f c ts = some r) : pPostLoop f' c ts = some r :=
  le_of_some (p := fun f => pPostLoop f c ts) (fun f => (mono f).postLoop c ts) hle h
theorem pBinLoop_mono {f f' m l ts r} (hle : f ≤ f') (h : pBinLoop f m l ts = some r) : pBinLoop f' m l ts = some r :=
  le_of_some (p := fun f => pBinLoop f m l ts) (fun f => (mono f).binLoop m l ts) hle h
theorem pPrimary_mono {f f' ts r} (hle : f ≤ f') (h : pPrimary f ts = some r) : pPrimary f' ts = some r :=
  le_of_some (p := fun f => pPrimary f ts) (fun f => (mono f).primary ts) hle h
theorem pArgs_mono {f f' c ts r} (hle : f ≤ f') (h : pArgs f c ts = some r) : pArgs f' c ts = some r :=
  le_of_some (p := fun f => pArgs f c ts) (fun f => (mono f).args c ts) hle h
theorem pArgsMore_mono {f f' c ts r} (hle : f ≤ f') (h : pArgsMore f c ts = some r) : pArgsMore f' c ts = some r :=
  le_of_some (p := fun f => pArgsMore f c ts) (fun f => (mono f).argsMore c ts) hle h


/-! ### parsing with some amount of fuel -/

def PE (m : Nat) (ts : List STok) (t : SqlTree) (r : List STok) : Prop := ∃ f, pExpr f m ts = some (t, r)
def PBL (m : Nat) (l : SqlTree) (ts : List STok) (t : SqlTree) (r : List STok) : Prop := ∃ f, pBinLoop f m l ts = some (t, r)
def PU (ts : List STok) (t : SqlTree) (r : List STok) : Prop := ∃ f, pUnary f ts = some (t, r)
def PL (c : SqlTree) (ts : List STok) (t : SqlTree) (r : List STok) : Prop := ∃ f, pPostLoop f c ts = some (t, r)
def PP (ts : List STok) (t : SqlTree) (r : List STok) : Prop := ∃ f, pPrimary f ts = some (t, r)
def PA (close : Str) (ts : List STok) (as : List SqlTree) (r : List STok) : Prop := ∃ f, pArgs f close ts = some (as, r)
def PAM (close : Str) (ts : List STok) (as : List SqlTree) (r : List STok) : Prop := ∃ f, pArgsMore f close ts = some (as, r)

theorem PE.mk {m ts t r1 t' r2} (hu : PU ts t r1) (hb : PBL m t r1 t' r2) : PE m ts t' r2 := by
  obtain ⟨f1, h1⟩ := hu; obtain ⟨f2, h2⟩ := hb
  refine ⟨max f1 f2 + 1, ?_⟩
  simp only [pExpr]
  rw [pUnary_mono (Nat.le_max_left f1 f2) h1]
  simpa using pBinLoop_mono (Nat.le_max_right f1 f2) h2

def isPostStart (t : STok) : Bool := t == .sym [':', ':'] || t == .sym ['['] || t == .sym ['(']

/-- the next token does not continue a postfix chain -/
def NoPost (ts : List STok) : Prop := ∀ t r, ts = t :: r → isPostStart t = false
/-- the next token is not a binary operator -/
def NoBin (ts : List STok) : Prop := ∀ t r, ts = t :: r → binop t = none

theorem PL.stop {c ts} (h : NoPost ts) : PL c ts c ts := by
  refine ⟨1, ?_⟩
  cases ts with
  | nil => simp [pPostLoop]
  | cons t r =>
    have := h t r rfl
    cases t with
    | sym s =>
      simp only [isPostStart, Bool.or_eq_false_iff, beq_eq_false_iff_ne, ne_eq, STok.sym.injEq] at this
      simp [pPostLoop, this.1.1, this.1.2, this.2]
    | _ => simp [pPostLoop]

theorem PBL.stop {m l ts} (h : NoBin ts) : PBL m l ts l ts := by
  refine ⟨1, ?_⟩
  cases ts with
  | nil => simp [pBinLoop]
  | cons t r => simp [pBinLoop, h t r rfl]

theorem PBL.step {m l t ts p name rhs r1 t' r2} (hop : binop t = some (p, name)) (hp : ¬ p < m)
    (he : PE (p + 1) ts rhs r1) (hb : PBL m (.bin name l rhs) r1 t' r2) : PBL m l (t :: ts) t' r2 := by
  obtain ⟨f1, h1⟩ := he; obtain ⟨f2, h2⟩ := hb
  refine ⟨max f1 f2 + 1, ?_⟩
  simp only [pBinLoop, hop, hp, if_false]
  rw [pExpr_mono (Nat.le_max_left f1 f2) h1]
  simpa using pBinLoop_mono (Nat.le_max_right f1 f2) h2

/-- a primary followed by its postfix chain, when the text does not start with a prefix operator -/
theorem PU.mk {ts p r1 t r2} (hp : PP ts p r1) (hl : PL p r1 t r2)
    (hh : ∀ s r, ts = .sym s :: r → isPrefixOp s = false) : PU ts t r2 := by
  obtain ⟨f1, h1⟩ := hp; obtain ⟨f2, h2⟩ := hl
  refine ⟨max f1 f2 + 1, ?_⟩
  have e1 := pPrimary_mono (Nat.le_max_left f1 f2) h1
  have e2 := pPostLoop_mono (Nat.le_max_right f1 f2) h2
  cases ts with
  | nil => simp only [pUnary]; rw [e1]; simpa using e2
  | cons t0 r0 =>
    cases t0 with
    | sym s =>
      simp only [pUnary, hh s r0 rfl, Bool.false_eq_true, if_false]; rw [e1]; simpa using e2
    | _ => simp only [pUnary]; rw [e1]; simpa using e2

theorem PU.prefix {s ts t r} (hs : isPrefixOp s = true) (h : PU ts t r) : PU (.sym s :: ts) (.un s t) r := by
  obtain ⟨f, h⟩ := h
  exact ⟨f + 1, by simp [pUnary, hs, h]⟩

theorem PP.parens {ts t r} (h : PE 0 ts t (.sym [')'] :: r)) : PP (.sym ['('] :: ts) t r := by
  obtain ⟨f, h⟩ := h
  exact ⟨f + 1, by simp [pPrimary, h, expectSym]⟩

theorem PL.cast {c ts ty r t r'} (ht : pType ts = some (ty, r)) (hb : bracketNext r = false)
    (h : PL (.cast c ty) r t r') : PL c (.sym [':', ':'] :: ts) t r' := by
  obtain ⟨f, h⟩ := h
  exact ⟨f + 1, by simp [pPostLoop, ht, hb, h]⟩

theorem PL.index {c ts i r t r'} (he : PE 0 ts i (.sym [']'] :: r)) (h : PL (.index c i) r t r') :
    PL c (.sym ['['] :: ts) t r' := by
  obtain ⟨f1, h1⟩ := he; obtain ⟨f2, h2⟩ := h
  refine ⟨max f1 f2 + 1, ?_⟩
  have e1 := pExpr_mono (Nat.le_max_left f1 f2) h1
  have e2 := pPostLoop_mono (Nat.le_max_right f1 f2) h2
  simp [pPostLoop, e1, expectSym, e2]

theorem PL.call {c ts as r t r'} (ha : PA [')'] ts as r) (h : PL (.call c as) r t r') :
    PL c (.sym ['('] :: ts) t r' := by
  obtain ⟨f1, h1⟩ := ha; obtain ⟨f2, h2⟩ := h
  refine ⟨max f1 f2 + 1, ?_⟩
  have e1 := pArgs_mono (Nat.le_max_left f1 f2) h1
  have e2 := pPostLoop_mono (Nat.le_max_right f1 f2) h2
  simp [pPostLoop, e1, e2]


/-! ### the tokens that end an expression -/

def isStop (t : STok) : Bool :=
  t == .sym [')'] || t == .sym [']'] || t == .sym [','] || t == .word ['w', 'h', 'e', 'n'] || t == .word ['t', 'h', 'e', 'n']
    || t == .word ['e', 'l', 's', 'e'] || t == .word ['e', 'n', 'd']

/-- nothing follows, or a token that ends an expression -/
def Stop (ts : List STok) : Prop := ∀ t r, ts = t :: r → isStop t = true

theorem Stop.nil : Stop [] := by intro t r h; cases h
theorem Stop.cons {t : STok} (h : isStop t = true) (r : List STok) : Stop (t :: r) := by
  intro t' r' e; cases e; exact h

theorem stop_cases {t : STok} (h : isStop t = true) :
    t = .sym [')'] ∨ t = .sym [']'] ∨ t = .sym [','] ∨ t = .word ['w', 'h', 'e', 'n'] ∨ t = .word ['t', 'h', 'e', 'n']
      ∨ t = .word ['e', 'l', 's', 'e'] ∨ t = .word ['e', 'n', 'd'] := by
  simpa [isStop, or_assoc] using h

theorem Stop.noPost {ts} (h : Stop ts) : NoPost ts := by
  intro t r e
  rcases stop_cases (h t r e) with rfl | rfl | rfl | rfl | rfl | rfl | rfl <;> decide

theorem Stop.noBin {ts} (h : Stop ts) : NoBin ts := by
  intro t r e
  rcases stop_cases (h t r e) with rfl | rfl | rfl | rfl | rfl | rfl | rfl <;> decide

theorem Stop.noBracket {ts} (h : Stop ts) : bracketNext ts = false := by
  cases ts with
  | nil => rfl
  | cons t r => rcases stop_cases (h t r rfl) with rfl | rfl | rfl | rfl | rfl | rfl | rfl <;> rfl

/-- an expression that is a postfix chain, followed by a stop -/
theorem PE.ofUnary {m ts t r} (hu : PU ts t r) (hs : Stop r) : PE m ts t r := PE.mk hu (PBL.stop hs.noBin)

/-! ### operators, types, keywords -/

def opPrec (op : Str) : Nat :=
  if op = ['O', 'R'] then 1 else if op = ['A', 'N', 'D'] then 2 else if op = ['i', 'n'] then 6
  else if op = ['+'] ∨ op = ['-'] then 8 else if op = ['*'] ∨ op = ['/'] ∨ op = ['%'] then 9 else 5

theorem binop_opTok (op : Str) (h : okOps.contains op = true) : binop (opTok op) = some (opPrec op, canonOp op) := by
  simp only [okOps, List.contains_cons, List.contains_nil, Bool.or_false, Bool.or_eq_true, beq_iff_eq] at h
  rcases h with rfl | rfl | rfl | rfl | rfl | rfl | rfl | rfl | rfl | rfl | rfl | rfl | rfl | rfl <;> decide

theorem opTok_noPost (op : Str) (h : okOps.contains op = true) (r : List STok) : NoPost (opTok op :: r) := by
  intro t r' e; cases e
  simp only [okOps, List.contains_cons, List.contains_nil, Bool.or_false, Bool.or_eq_true, beq_iff_eq] at h
  rcases h with rfl | rfl | rfl | rfl | rfl | rfl | rfl | rfl | rfl | rfl | rfl | rfl | rfl | rfl <;> decide

theorem pType_typeToks (ty : Str) (h : okTypes.contains ty = true) (r : List STok) :
    pType (typeToks ty ++ r) = some (ty, r) := by
  simp only [okTypes, List.contains_cons, List.contains_nil, Bool.or_false, Bool.or_eq_true, beq_iff_eq] at h
  rcases h with rfl | rfl | rfl | rfl | rfl | rfl | rfl | rfl | rfl <;> rfl

theorem kw_of_not_reserved {s k : Str} (h : isReserved s = false) (hk : k ∈ reserved) : kw s k = false := by
  cases hkw : kw s k with
  | false => rfl
  | true =>
    have e : lowerStr s = k := by simpa [kw] using hkw
    have : isReserved s = true := by
      simp only [isReserved, e]; exact List.contains_iff_mem.mpr hk
    rw [h] at this; cases this

/-- a name that is not reserved is read as a name -/
theorem PP.ident {name : Str} (h : isReserved name = false) (r : List STok) : PP (.word name :: r) (.ident name) r := by
  refine ⟨1, ?_⟩
  simp [pPrimary, kw_of_not_reserved h (k := ['n', 'u', 'l', 'l']) (by decide),
    kw_of_not_reserved h (k := ['t', 'r', 'u', 'e']) (by decide),
    kw_of_not_reserved h (k := ['f', 'a', 'l', 's', 'e']) (by decide),
    kw_of_not_reserved h (k := ['a', 'r', 'r', 'a', 'y']) (by decide),
    kw_of_not_reserved h (k := ['c', 'a', 's', 'e']) (by decide), h]


/-! ### argument lists, `case`, `ARRAY` -/

theorem PAM.last {close ts e r} (h : PE 0 ts e (.sym close :: r)) : PAM close ts [e] r := by
  obtain ⟨f, h⟩ := h
  exact ⟨f + 1, by simp [pArgsMore, h, expectSym]⟩

theorem PAM.cons {close ts e r1 es r} (h : PE 0 ts e (.sym [','] :: r1)) (hc : close ≠ [','])
    (hm : PAM close r1 es r) : PAM close ts (e :: es) r := by
  obtain ⟨f1, h1⟩ := h; obtain ⟨f2, h2⟩ := hm
  refine ⟨max f1 f2 + 1, ?_⟩
  have e1 := pExpr_mono (Nat.le_max_left f1 f2) h1
  have e2 := pArgsMore_mono (Nat.le_max_right f1 f2) h2
  have hc' : ¬ ([','] : Str) = close := fun e => hc e.symm
  simp [pArgsMore, e1, expectSym, hc', e2]

theorem PA.nil {close r} : PA close (.sym close :: r) [] r := ⟨1, by simp [pArgs, expectSym]⟩

theorem PA.more {close ts as r} (hn : expectSym close ts = none) (h : PAM close ts as r) : PA close ts as r := by
  obtain ⟨f, h⟩ := h
  exact ⟨f + 1, by simp [pArgs, hn, h]⟩

theorem PP.case_ {ts a r1 b r2 c r3 d r4}
    (ha : PE 0 ts a (.word ['w', 'h', 'e', 'n'] :: r1)) (hb : PE 0 r1 b (.word ['t', 'h', 'e', 'n'] :: r2))
    (hc : PE 0 r2 c (.word ['e', 'l', 's', 'e'] :: r3)) (hd : PE 0 r3 d (.word ['e', 'n', 'd'] :: r4)) :
    PP (.word ['c', 'a', 's', 'e'] :: ts) (.case_ a b c d) r4 := by
  obtain ⟨f1, h1⟩ := ha; obtain ⟨f2, h2⟩ := hb; obtain ⟨f3, h3⟩ := hc; obtain ⟨f4, h4⟩ := hd
  obtain ⟨F, hF1, hF2, hF3, hF4⟩ : ∃ F, f1 ≤ F ∧ f2 ≤ F ∧ f3 ≤ F ∧ f4 ≤ F :=
    ⟨f1 + f2 + f3 + f4, by omega, by omega, by omega, by omega⟩
  refine ⟨F + 1, ?_⟩
  have e1 := pExpr_mono hF1 h1
  have e2 := pExpr_mono hF2 h2
  have e3 := pExpr_mono hF3 h3
  have e4 := pExpr_mono hF4 h4
  have k1 : kw ['c', 'a', 's', 'e'] ['n', 'u', 'l', 'l'] = false := by decide
  have k2 : kw ['c', 'a', 's', 'e'] ['t', 'r', 'u', 'e'] = false := by decide
  have k3 : kw ['c', 'a', 's', 'e'] ['f', 'a', 'l', 's', 'e'] = false := by decide
  have k4 : kw ['c', 'a', 's', 'e'] ['a', 'r', 'r', 'a', 'y'] = false := by decide
  have k5 : kw ['c', 'a', 's', 'e'] ['c', 'a', 's', 'e'] = true := by decide
  have w1 : kw ['w', 'h', 'e', 'n'] ['w', 'h', 'e', 'n'] = true := by decide
  have w2 : kw ['t', 'h', 'e', 'n'] ['t', 'h', 'e', 'n'] = true := by decide
  have w3 : kw ['e', 'l', 's', 'e'] ['e', 'l', 's', 'e'] = true := by decide
  have w4 : kw ['e', 'n', 'd'] ['e', 'n', 'd'] = true := by decide
  simp [pPrimary, k1, k2, k3, k4, k5, e1, e2, e3, e4, expectKw, w1, w2, w3, w4]

theorem PP.array {ts as r} (h : PA [']'] ts as r) : PP (.word ['A', 'R', 'R', 'A', 'Y'] :: .sym ['['] :: ts) (.array as) r := by
  obtain ⟨f, h⟩ := h
  have k1 : kw ['A', 'R', 'R', 'A', 'Y'] ['n', 'u', 'l', 'l'] = false := by decide
  have k2 : kw ['A', 'R', 'R', 'A', 'Y'] ['t', 'r', 'u', 'e'] = false := by decide
  have k3 : kw ['A', 'R', 'R', 'A', 'Y'] ['f', 'a', 'l', 's', 'e'] = false := by decide
  have k4 : kw ['A', 'R', 'R', 'A', 'Y'] ['a', 'r', 'r', 'a', 'y'] = true := by decide
  exact ⟨f + 1, by simp [pPrimary, k1, k2, k3, k4, expectSym, h]⟩

/-! ### the first token of a token list -/

/-- the list starts with a token that is not a closing bracket -/
def HeadOk (ts : List STok) : Prop := ∃ t r, ts = t :: r ∧ t ≠ .sym [')'] ∧ t ≠ .sym [']']

theorem HeadOk.append {ts} (h : HeadOk ts) (X : List STok) : HeadOk (ts ++ X) := by
  obtain ⟨t, r, rfl, h1, h2⟩ := h; exact ⟨t, r ++ X, rfl, h1, h2⟩

theorem HeadOk.expect {ts} (h : HeadOk ts) (close : Str) (hc : close = [')'] ∨ close = [']']) :
    expectSym close ts = none := by
  obtain ⟨t, r, rfl, h1, h2⟩ := h
  cases t with
  | sym s =>
    have : ¬ s = close := by
      rcases hc with rfl | rfl
      · intro e; exact h1 (by rw [e])
      · intro e; exact h2 (by rw [e])
    simp [expectSym, this]
  | _ => simp [expectSym]

theorem wrapToks_head (b : Bool) (ts : List STok) (h : HeadOk ts) : HeadOk (wrapToks b ts) := by
  cases b
  · simpa [wrapToks] using h
  · exact ⟨.sym ['('], ts ++ [.sym [')']], rfl, by decide, by decide⟩

theorem Doc.toks_head : (d : Doc) → HeadOk d.toks
  | .ternary .. => ⟨_, _, by rw [Doc.toks]; rfl, by decide, by decide⟩
  | .binary .. => ⟨_, _, by rw [Doc.toks]; rfl, by decide, by decide⟩
  | .unary .. => ⟨_, _, by rw [Doc.toks]; rfl, by decide, by decide⟩
  | .ident _ => ⟨_, _, by rw [Doc.toks], by simp, by simp⟩
  | .lit l => by
    rw [Doc.toks]
    cases l with
    | bool b => cases b <;> exact ⟨_, _, rfl, by decide, by decide⟩
    | _ => exact ⟨_, _, rfl, by simp, by simp⟩
  | .parens .. => ⟨_, _, by rw [Doc.toks]; rfl, by decide, by decide⟩
  | .call f _ => by
    rw [Doc.toks]; exact ((wrapToks_head _ _ f.toks_head).append _).append _
  | .cast v _ => by
    rw [Doc.toks]; exact (wrapToks_head _ _ v.toks_head).append _
  | .access .. => ⟨_, _, by rw [Doc.toks]; rfl, by decide, by decide⟩
  | .array .. => ⟨_, _, by rw [Doc.toks]; rfl, by decide, by decide⟩
  | .index .. => ⟨_, _, by rw [Doc.toks]; rfl, by decide, by decide⟩

end Rscel.Sql
