import RscelModel.Lemmas.SerdePrim
/-
JSON-tree round trip of values, instructions and programs (`decJ ∘ encJ = jsonNorm`), by mutual
structural induction over `CVal` / `CInstr` and the lists nested in them.
-/
namespace Rscel.Serde
open Rscel

/-- The two infinities are the only bit patterns with all exponent bits set and no mantissa bit. -/
theorem isInf_cases (b : UInt64) (h : F.isInf b = true) : b = posInf ∨ b = negInf := by
  simp only [F.isInf, F.expBits, F.manBits, Bool.and_eq_true, beq_iff_eq] at h
  obtain ⟨h1, h2⟩ := h
  have e1 : (b >>> 52 &&& 0x7ff).toNat = b.toNat / 2^52 % 2^11 := by
    simp [UInt64.toNat_and, UInt64.toNat_shiftRight, Nat.shiftRight_eq_div_pow]
    exact Nat.and_two_pow_sub_one_eq_mod _ 11
  have e2 : (b &&& 0xfffffffffffff).toNat = b.toNat % 2^52 := by
    simp [UInt64.toNat_and]
    exact Nat.and_two_pow_sub_one_eq_mod _ 52
  rw [e1] at h1; rw [e2] at h2
  have hb := b.toNat_lt
  have : b.toNat = 0x7ff0000000000000 ∨ b.toNat = 0xfff0000000000000 := by omega
  rcases this with h | h
  · left; apply UInt64.toNat_inj.1; rw [h]; rfl
  · right; apply UInt64.toNat_inj.1; rw [h]; rfl

theorem decJFloat_enc (b : UInt64) : decJFloat (encJFloat b) = some (canonF b) := by
  unfold encJFloat canonF
  by_cases hn : F.isNaN b = true
  · simp [hn, decJFloat]
  · simp only [hn, Bool.false_eq_true, if_false]
    by_cases hi : F.isInf b = true
    · rcases isInf_cases b hi with rfl | rfl
      · have : F.signBit posInf = false := by decide
        simp [hi, this, decJFloat]
        decide
      · have : F.signBit negInf = true := by decide
        simp [hi, this, decJFloat]
        decide
    · simp at hn hi
      simp [hi, hn, decJFloat]

theorem decJOptStr_enc (s : Option Str) : decJOptStr (encJOptStr s) = some s := by
  cases s <;> rfl

theorem decJBytes_enc (b : List UInt8) : optMapM decJByte (b.map encJByte) = some b := by
  induction b with
  | nil => rfl
  | cons x xs ih =>
    have hx : x.toNat < 256 := x.toNat_lt
    simp only [List.map_cons, optMapM, encJByte, decJByte, ih]
    have : (0 : Int) ≤ (x.toNat : Int) ∧ (x.toNat : Int) < 256 := by omega
    simp [this]

theorem decJStrs_enc (l : List Str) : optMapM decJStr (l.map J.str) = some l := by
  induction l with
  | nil => rfl
  | cons x xs ih => simp [optMapM, decJStr, ih]

theorem decJErr_enc (e : CErr) (h : fitsErr e = true) : decJErr (encJErr e) = some e := by
  cases e with
  | syn l c m =>
    have hl : inU64 (l : Int) = true ∧ inU64 (c : Int) = true := by
      cases m <;> simp only [fitsErr, Bool.and_eq_true, fitsLen, decide_eq_true_eq] at h <;>
        simp only [inU64_iff] <;> omega
    simp [encJErr, decJErr, tagged, tagOfName_err, hl.1, hl.2, decJOptStr_enc]
  | divZero => simp [encJErr, decJErr, tagOfName_err]
  | attr p f => simp [encJErr, decJErr, tagged, tagOfName_err]
  | binding s => simp [encJErr, decJErr, tagged, tagOfName_err]
  | misc m => simp [encJErr, decJErr, tagged, tagOfName_err]
  | value m => simp [encJErr, decJErr, tagged, tagOfName_err]
  | argument m => simp [encJErr, decJErr, tagged, tagOfName_err]
  | invalidOp m => simp [encJErr, decJErr, tagged, tagOfName_err]
  | runtime m => simp [encJErr, decJErr, tagged, tagOfName_err]
  | internal m => simp [encJErr, decJErr, tagged, tagOfName_err]

end Rscel.Serde

namespace Rscel.Serde
open Rscel

theorem u32_range (n : Nat) (h : fitsU32 n = true) : (0 : Int) ≤ (n : Int) ∧ (n : Int) < 4294967296 := by
  simp only [fitsU32, decide_eq_true_eq] at h; omega

mutual
theorem decJVal_enc : ∀ (v : CVal) (fuel : Nat), fitsV v = true → depthV v ≤ fuel →
    decJVal fuel (encJVal v) = some (nanV (msV v))
  | .int i, fuel, h, hd => by
    obtain ⟨f, rfl⟩ : ∃ f, fuel = f + 1 := ⟨fuel - 1, by simp [depthV] at hd; omega⟩
    simp only [fitsV] at h
    simp [encJVal, decJVal, msV, nanV, tagged, tagOfName_value, h]
  | .uint n, fuel, h, hd => by
    obtain ⟨f, rfl⟩ : ∃ f, fuel = f + 1 := ⟨fuel - 1, by simp [depthV] at hd; omega⟩
    simp only [fitsV] at h
    simp [encJVal, decJVal, msV, nanV, tagged, tagOfName_value, h]
  | .float b, fuel, h, hd => by
    obtain ⟨f, rfl⟩ : ∃ f, fuel = f + 1 := ⟨fuel - 1, by simp [depthV] at hd; omega⟩
    simp [encJVal, decJVal, msV, nanV, tagged, tagOfName_value, decJFloat_enc]
  | .bool b, fuel, h, hd => by
    obtain ⟨f, rfl⟩ : ∃ f, fuel = f + 1 := ⟨fuel - 1, by simp [depthV] at hd; omega⟩
    simp [encJVal, decJVal, msV, nanV, tagged, tagOfName_value]
  | .str s, fuel, h, hd => by
    obtain ⟨f, rfl⟩ : ∃ f, fuel = f + 1 := ⟨fuel - 1, by simp [depthV] at hd; omega⟩
    simp [encJVal, decJVal, msV, nanV, tagged, tagOfName_value]
  | .ident s, fuel, h, hd => by
    obtain ⟨f, rfl⟩ : ∃ f, fuel = f + 1 := ⟨fuel - 1, by simp [depthV] at hd; omega⟩
    simp [encJVal, decJVal, msV, nanV, tagged, tagOfName_value]
  | .type s, fuel, h, hd => by
    obtain ⟨f, rfl⟩ : ∃ f, fuel = f + 1 := ⟨fuel - 1, by simp [depthV] at hd; omega⟩
    simp [encJVal, decJVal, msV, nanV, tagged, tagOfName_value]
  | .bytes b, fuel, h, hd => by
    obtain ⟨f, rfl⟩ : ∃ f, fuel = f + 1 := ⟨fuel - 1, by simp [depthV] at hd; omega⟩
    simp [encJVal, decJVal, msV, nanV, tagged, tagOfName_value, decJBytes_enc]
  | .null, fuel, h, hd => by
    obtain ⟨f, rfl⟩ : ∃ f, fuel = f + 1 := ⟨fuel - 1, by simp [depthV] at hd; omega⟩
    simp [encJVal, decJVal, msV, nanV, tagOfName_value]
  | .ts n, fuel, h, hd => by
    obtain ⟨f, rfl⟩ : ∃ f, fuel = f + 1 := ⟨fuel - 1, by simp [depthV] at hd; omega⟩
    simp only [fitsV] at h
    have h64 : inI64 (tsMs n) = true := by
      simp only [tsMsOk, Bool.and_eq_true, decide_eq_true_eq] at h
      rw [inI64_iff]; omega
    simp [encJVal, decJVal, msV, nanV, tagged, tagOfName_value, h, h64]
  | .dur n, fuel, h, hd => by
    obtain ⟨f, rfl⟩ : ∃ f, fuel = f + 1 := ⟨fuel - 1, by simp [depthV] at hd; omega⟩
    simp only [fitsV] at h
    have h64 : inI64 (durMs n) = true := by
      simp only [durMsOk, Bool.and_eq_true, decide_eq_true_eq] at h
      rw [inI64_iff]; omega
    simp [encJVal, decJVal, msV, nanV, tagged, tagOfName_value, h, h64]
  | .err e, fuel, h, hd => by
    obtain ⟨f, rfl⟩ : ∃ f, fuel = f + 1 := ⟨fuel - 1, by simp [depthV] at hd; omega⟩
    simp only [fitsV] at h
    simp [encJVal, decJVal, msV, nanV, tagged, tagOfName_value, decJErr_enc e h]
  | .list l, fuel, h, hd => by
    obtain ⟨f, rfl⟩ : ∃ f, fuel = f + 1 := ⟨fuel - 1, by simp [depthV] at hd; omega⟩
    simp only [fitsV, Bool.and_eq_true] at h
    simp only [depthV] at hd
    simp [encJVal, decJVal, msV, nanV, tagged, tagOfName_value, decJVals_enc l f h.2 (by omega)]
  | .map m, fuel, h, hd => by
    obtain ⟨f, rfl⟩ : ∃ f, fuel = f + 1 := ⟨fuel - 1, by simp [depthV] at hd; omega⟩
    simp only [fitsV, Bool.and_eq_true] at h
    simp only [depthV] at hd
    simp [encJVal, decJVal, msV, nanV, tagged, tagOfName_value, decJEntries_enc m f h.2 (by omega)]
  | .code c, fuel, h, hd => by
    obtain ⟨f, rfl⟩ : ∃ f, fuel = f + 1 := ⟨fuel - 1, by simp [depthV] at hd; omega⟩
    simp only [fitsV, Bool.and_eq_true] at h
    simp only [depthV] at hd
    simp [encJVal, decJVal, msV, nanV, tagged, tagOfName_value, decJInstrs_enc c f h.2 (by omega)]
theorem decJVals_enc : ∀ (l : List CVal) (fuel : Nat), fitsVs l = true → depthVs l ≤ fuel →
    optMapM (decJVal fuel) (encJVals l) = some (nanVs (msVs l))
  | [], _, _, _ => by simp [optMapM, encJVals, msVs, nanVs]
  | v :: vs, fuel, h, hd => by
    simp only [fitsVs, Bool.and_eq_true] at h
    simp only [depthVs] at hd
    simp only [optMapM, encJVals, msVs, nanVs, decJVal_enc v fuel h.1 (by omega), decJVals_enc vs fuel h.2 (by omega)]
theorem decJEntries_enc : ∀ (m : List (Str × CVal)) (fuel : Nat), fitsEs m = true → depthEs m ≤ fuel →
    optMapM (decJEntry (decJVal fuel)) (encJEntries m) = some (nanEs (msEs m))
  | [], _, _, _ => by simp [optMapM, encJEntries, msEs, nanEs]
  | (k, v) :: es, fuel, h, hd => by
    simp only [fitsEs, Bool.and_eq_true] at h
    simp only [depthEs] at hd
    simp only [optMapM, decJEntry, encJEntries, msEs, nanEs, decJVal_enc v fuel h.1.2 (by omega),
      decJEntries_enc es fuel h.2 (by omega)]
theorem decJInstr_enc : ∀ (i : CInstr) (fuel : Nat), fitsI i = true → depthI i ≤ fuel →
    decJInstr fuel (encJInstr i) = some (nanI (msI i))
  | .push v, fuel, h, hd => by
    obtain ⟨f, rfl⟩ : ∃ f, fuel = f + 1 := ⟨fuel - 1, by simp [depthI] at hd; omega⟩
    simp only [fitsI] at h
    simp only [depthI] at hd
    simp [encJInstr, decJInstr, msI, nanI, tagged, tagOfName_instr, decJVal_enc v f h (by omega)]
  | .jmp d, fuel, h, hd => by
    obtain ⟨f, rfl⟩ : ∃ f, fuel = f + 1 := ⟨fuel - 1, by simp [depthI] at hd; omega⟩
    simp only [fitsI] at h
    simp [encJInstr, decJInstr, msI, nanI, tagged, tagOfName_instr, h]
  | .jmpCond w d, fuel, h, hd => by
    obtain ⟨f, rfl⟩ : ∃ f, fuel = f + 1 := ⟨fuel - 1, by simp [depthI] at hd; omega⟩
    simp only [fitsI] at h
    simp [encJInstr, decJInstr, msI, nanI, tagged, tagOfName_instr, tagOfName_when, h]
  | .mkList n, fuel, h, hd => by
    obtain ⟨f, rfl⟩ : ∃ f, fuel = f + 1 := ⟨fuel - 1, by simp [depthI] at hd; omega⟩
    simp only [fitsI] at h
    simp [encJInstr, decJInstr, msI, nanI, tagged, tagOfName_instr, u32_range n h]
  | .mkDict n, fuel, h, hd => by
    obtain ⟨f, rfl⟩ : ∃ f, fuel = f + 1 := ⟨fuel - 1, by simp [depthI] at hd; omega⟩
    simp only [fitsI] at h
    simp [encJInstr, decJInstr, msI, nanI, tagged, tagOfName_instr, u32_range n h]
  | .call n, fuel, h, hd => by
    obtain ⟨f, rfl⟩ : ∃ f, fuel = f + 1 := ⟨fuel - 1, by simp [depthI] at hd; omega⟩
    simp only [fitsI] at h
    simp [encJInstr, decJInstr, msI, nanI, tagged, tagOfName_instr, u32_range n h]
  | .fmt n, fuel, h, hd => by
    obtain ⟨f, rfl⟩ : ∃ f, fuel = f + 1 := ⟨fuel - 1, by simp [depthI] at hd; omega⟩
    simp only [fitsI] at h
    simp [encJInstr, decJInstr, msI, nanI, tagged, tagOfName_instr, u32_range n h]
  | .pop, fuel, _, hd | .test, fuel, _, hd | .dup, fuel, _, hd | .or, fuel, _, hd
  | .and, fuel, _, hd | .not, fuel, _, hd | .neg, fuel, _, hd | .add, fuel, _, hd
  | .sub, fuel, _, hd | .mul, fuel, _, hd | .div, fuel, _, hd | .mod, fuel, _, hd
  | .lt, fuel, _, hd | .le, fuel, _, hd | .eq, fuel, _, hd | .ne, fuel, _, hd
  | .ge, fuel, _, hd | .gt, fuel, _, hd | .in_, fuel, _, hd | .index, fuel, _, hd
  | .access, fuel, _, hd => by
    obtain ⟨f, rfl⟩ : ∃ f, fuel = f + 1 := ⟨fuel - 1, by simp [depthI] at hd; omega⟩
    simp [encJInstr, decJInstr, msI, nanI, tagOfName_instr, unitInstr]
theorem decJInstrs_enc : ∀ (c : List CInstr) (fuel : Nat), fitsIs c = true → depthIs c ≤ fuel →
    optMapM (decJInstr fuel) (encJInstrs c) = some (nanIs (msIs c))
  | [], _, _, _ => by simp [optMapM, encJInstrs, msIs, nanIs]
  | i :: is, fuel, h, hd => by
    simp only [fitsIs, Bool.and_eq_true] at h
    simp only [depthIs] at hd
    simp only [optMapM, encJInstrs, msIs, nanIs, decJInstr_enc i fuel h.1 (by omega),
      decJInstrs_enc is fuel h.2 (by omega)]
end

end Rscel.Serde

namespace Rscel.Serde
open Rscel

theorem J.size_pos (j : J) : 0 < j.size := by cases j <;> simp [J.size]

mutual
theorem depthV_le_size : ∀ v : CVal, depthV v ≤ (encJVal v).size
  | .list l => by
    have := depthVs_le_size l
    simp only [depthV, encJVal, tagged, J.size, sizeEntries]; omega
  | .map m => by
    have := depthEs_le_size m
    simp only [depthV, encJVal, tagged, J.size, sizeEntries]; omega
  | .code c => by
    have := depthIs_le_size c
    simp only [depthV, encJVal, tagged, J.size, sizeEntries]; omega
  | .int _ | .uint _ | .float _ | .bool _ | .str _ | .bytes _ | .null | .ident _ | .type _ | .ts _ | .dur _
  | .err _ => by
    simp only [depthV]; exact J.size_pos _
theorem depthVs_le_size : ∀ l : List CVal, depthVs l ≤ sizeList (encJVals l)
  | [] => by simp [depthVs]
  | v :: vs => by
    have := depthV_le_size v
    have := depthVs_le_size vs
    simp only [depthVs, encJVals, sizeList]; omega
theorem depthEs_le_size : ∀ m : List (Str × CVal), depthEs m ≤ sizeEntries (encJEntries m)
  | [] => by simp [depthEs]
  | (_, v) :: es => by
    have := depthV_le_size v
    have := depthEs_le_size es
    simp only [depthEs, encJEntries, sizeEntries]; omega
theorem depthI_le_size : ∀ i : CInstr, depthI i ≤ (encJInstr i).size
  | .push v => by
    have := depthV_le_size v
    simp only [depthI, encJInstr, tagged, J.size, sizeEntries]; omega
  | .pop | .test | .dup | .or | .and | .not | .neg | .add | .sub | .mul | .div | .mod | .lt | .le | .eq | .ne
  | .ge | .gt | .in_ | .index | .access | .jmp _ | .jmpCond _ _ | .mkList _ | .mkDict _ | .call _ | .fmt _ => by
    simp only [depthI]; exact J.size_pos _
theorem depthIs_le_size : ∀ c : List CInstr, depthIs c ≤ sizeList (encJInstrs c)
  | [] => by simp [depthIs]
  | i :: is => by
    have := depthI_le_size i
    have := depthIs_le_size is
    simp only [depthIs, encJInstrs, sizeList]; omega
end

theorem decJProg_enc (p : CProg) (h : p.fits = true) (fuel : Nat) (hf : depthIs p.code ≤ fuel) :
    decJProg fuel (encJ p) = some (jsonNorm p) := by
  simp only [CProg.fits, Bool.and_eq_true] at h
  simp [decJProg, encJ, decJOptStr_enc, decJStrs_enc, decJInstrs_enc p.code fuel h.2 hf, jsonNorm]

theorem encJ_size (p : CProg) : depthIs p.code ≤ (encJ p).size := by
  have := depthIs_le_size p.code
  simp only [encJ, J.size, sizeEntries]; omega

end Rscel.Serde
