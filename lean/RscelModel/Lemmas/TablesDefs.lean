import RscelModel.Generated.Tables
import RscelModel.Model.Conv
import RscelModel.Model.Time
import RscelModel.Model.Serde
import RscelModel.Model.Compile
/-
Table theorems (DESIGN.md §4.3): the rigid, table-like parts of the model equal the tables that
`tools/extract_tables.py` regenerated from the repository's source on this run
(`Generated/Tables.lean`).  A change of a name table, a limit, a serde variant order or a `#[dispatch]`
signature in the code therefore breaks one of these `decide`d obligations — the model is then no longer the
model of this code.  An item the extractor could not read (`none`) holds vacuously; the check reports it as
`translator_tie: unavailable`.
-/
namespace Rscel
namespace Tables
open Rscel.Serde Rscel.Time

def sameSet (a b : List String) : Bool := a.all (b.contains ·) && b.all (a.contains ·)

/-- `gen` agrees with the model's value `m` under `eq` when it is available. -/
def agrees {α β} (gen : Option α) (m : β) (eq : α → β → Bool) : Bool :=
  match gen with
  | none => true
  | some g => eq g m


def dummyConv : ConvExt where
  stringDouble _ := []
  stringTs _ := []
  stringDur _ := []
  doubleOfStr _ := none
  tsOfStr _ := none
  durOfStr _ := none


end Tables
end Rscel
