import RscelModel.Lemmas.Cert
/-
Nested code blocks (C10, compiler side): `NestedCert` mirrors `nestedOk` with "has a certificate" in place
of "the inferred table is accepted", and the value operations the compiler applies when folding constants
never create a code block (they only rearrange the operands' parts or return scalars).
-/
namespace Rscel
namespace Cert

mutual
/-- Every code block nested in the instructions (as a push operand, at any depth inside the operand value)
    has a height certificate `0 ↦ 1`, recursively. -/
def NestedCert : List Instr → Prop
  | [] => True
  | i :: is => NestedCertI i ∧ NestedCert is
def NestedCertI : Instr → Prop
  | .push v => NestedCertV v
  | _ => True
def NestedCertV : Val → Prop
  | .code c => (∃ H, checkHeights c H 0 1 = true) ∧ NestedCert c
  | .list l => NestedCertL l
  | .map m => NestedCertM m
  | _ => True
def NestedCertL : List Val → Prop
  | [] => True
  | v :: vs => NestedCertV v ∧ NestedCertL vs
def NestedCertM : List (Str × Val) → Prop
  | [] => True
  | (_, v) :: vs => NestedCertV v ∧ NestedCertM vs
end

@[simp] theorem nc_nil : NestedCert [] := by simp [NestedCert]

@[simp] theorem nc_cons {i : Instr} {c : List Instr} : NestedCert (i :: c) ↔ NestedCertI i ∧ NestedCert c := by
  simp [NestedCert]

@[simp] theorem nc_append {a b : List Instr} : NestedCert (a ++ b) ↔ NestedCert a ∧ NestedCert b := by
  induction a with
  | nil => simp
  | cons i a ih => simp [ih, and_assoc]

theorem nc_iff {c : List Instr} : NestedCert c ↔ ∀ i ∈ c, NestedCertI i := by
  induction c with
  | nil => simp
  | cons i a ih => simp [ih]

theorem ncL_iff {l : List Val} : NestedCertL l ↔ ∀ v ∈ l, NestedCertV v := by
  induction l with
  | nil => simp [NestedCertL]
  | cons v l ih => simp [NestedCertL, ih]

theorem ncM_iff {m : List (Str × Val)} : NestedCertM m ↔ ∀ e ∈ m, NestedCertV e.2 := by
  induction m with
  | nil => simp [NestedCertM]
  | cons e m ih => obtain ⟨k, v⟩ := e; simp [NestedCertM, ih]

@[simp] theorem ncI_push {v : Val} : NestedCertI (.push v) ↔ NestedCertV v := by simp [NestedCertI]

/-- The inferred table is a certificate. -/
theorem cert_of_wfFlat {code : List Instr} {h0 hf : Nat} (h : wfFlat code h0 hf = true) :
    ∃ H, checkHeights code H h0 hf = true := by
  unfold wfFlat at h
  split at h
  · cases h
  · exact ⟨_, h⟩

mutual
/-- Everything `nestedOk` accepts is certified (the inferred table is one certificate). -/
theorem nc_of_nestedOk : (c : List Instr) → nestedOk c = true → NestedCert c
  | [], _ => nc_nil
  | i :: is, h => by
    simp only [nestedOk, Bool.and_eq_true] at h
    exact nc_cons.mpr ⟨ncI_of_nestedOkI i h.1, nc_of_nestedOk is h.2⟩
theorem ncI_of_nestedOkI : (i : Instr) → nestedOkI i = true → NestedCertI i
  | .push v, h => by
    simp only [nestedOkI] at h
    exact ncI_push.mpr (ncV_of_nestedOkV v h)
  | .pop, _ | .test, _ | .dup, _ | .or, _ | .and, _ | .not, _ | .neg, _ | .add, _ | .sub, _ | .mul, _
  | .div, _ | .mod, _ | .lt, _ | .le, _ | .eq, _ | .ne, _ | .ge, _ | .gt, _ | .in_, _ | .jmp _, _
  | .jmpCond _ _, _ | .mkList _, _ | .mkDict _, _ | .index, _ | .access, _ | .call _, _ | .fmt _, _ => by
    simp [NestedCertI]
theorem ncV_of_nestedOkV : (v : Val) → nestedOkV v = true → NestedCertV v
  | .code c, h => by
    simp only [nestedOkV, Bool.and_eq_true] at h
    simp only [NestedCertV]
    exact ⟨cert_of_wfFlat h.1, nc_of_nestedOk c h.2⟩
  | .list l, h => by
    simp only [nestedOkV] at h
    simp only [NestedCertV]
    exact ncL_of_nestedOkL l h
  | .map m, h => by
    simp only [nestedOkV] at h
    simp only [NestedCertV]
    exact ncM_of_nestedOkM m h
  | .int _, _ | .uint _, _ | .float _, _ | .bool _, _ | .str _, _ | .bytes _, _ | .null, _ | .ident _, _
  | .type _, _ | .ts _, _ | .dur _, _ | .err _, _ => by simp [NestedCertV]
theorem ncL_of_nestedOkL : (l : List Val) → nestedOkL l = true → NestedCertL l
  | [], _ => by simp [NestedCertL]
  | v :: vs, h => by
    simp only [nestedOkL, Bool.and_eq_true] at h
    simp only [NestedCertL]
    exact ⟨ncV_of_nestedOkV v h.1, ncL_of_nestedOkL vs h.2⟩
theorem ncM_of_nestedOkM : (m : List (Str × Val)) → nestedOkM m = true → NestedCertM m
  | [], _ => by simp [NestedCertM]
  | (_, v) :: vs, h => by
    simp only [nestedOkM, Bool.and_eq_true] at h
    simp only [NestedCertM]
    exact ⟨ncV_of_nestedOkV v h.1, ncM_of_nestedOkM vs h.2⟩
end

theorem nc_replicate (i : Instr) (h : NestedCertI i) (n : Nat) : NestedCert (List.replicate n i) := by
  rw [nc_iff]; intro j hj; rw [(List.mem_replicate.mp hj).2]; exact h

theorem nc_flatten {cs : List (List Instr)} (h : ∀ c ∈ cs, NestedCert c) : NestedCert cs.flatten := by
  induction cs with
  | nil => simp
  | cons c cs ih =>
    simp only [List.flatten_cons, nc_append]
    exact ⟨h c (by simp), ih (fun x hx => h x (by simp [hx]))⟩

theorem nc_chainTail (w : Bool) (op : BinOp) :
    ∀ cs : List (List Instr), (∀ c ∈ cs, NestedCert c) → NestedCert (chainTail w op.instr cs)
  | [], _ => by simp [chainTail]
  | c :: cs, h => by
    have h1 := h c (by simp)
    have h2 := nc_chainTail w op cs (fun x hx => h x (by simp [hx]))
    have h3 : NestedCertI op.instr := by cases op <;> simp [BinOp.instr, NestedCertI]
    simp [chainTail, NestedCertI, h1, h2, h3]

theorem nc_ternCode {c t f : List Instr} (hc : NestedCert c) (ht : NestedCert t) (hf : NestedCert f) :
    NestedCert (ternCode c t f) := by
  simp [ternCode, NestedCertI, hc, ht, hf]

theorem nc_matchTail :
    ∀ cases : List (List Instr × List Instr), (∀ pe ∈ cases, NestedCert pe.1 ∧ NestedCert pe.2) →
      NestedCert (matchTail cases)
  | [], _ => by simp [matchTail, NestedCertI, NestedCertV]
  | (p, e) :: rest, h => by
    have h1 := h (p, e) (by simp)
    have h2 := nc_matchTail rest (fun x hx => h x (by simp [hx]))
    simp [matchTail, NestedCertI, h1.1, h1.2, h2]

/-! ### Constant folding does not create code blocks -/

/-- A value without parts. -/
def Val.scalar : Val → Bool
  | .code _ | .list _ | .map _ => false
  | _ => true

theorem ncV_scalar {v : Val} (h : Val.scalar v = true) : NestedCertV v := by
  cases v <;> simp [Val.scalar] at h <;> simp [NestedCertV]

theorem errProp_nc {l r : Val} {f : Val → Val → Val} (h : NestedCertV (f l r)) :
    NestedCertV (errProp l r f) := by
  unfold errProp
  split
  · simp [NestedCertV]
  · split
    · simp [NestedCertV]
    · exact h

theorem errProp_scalar {l r : Val} {f : Val → Val → Val} (h : Val.scalar (f l r) = true) :
    Val.scalar (errProp l r f) = true := by
  unfold errProp
  split
  · rfl
  · split
    · rfl
    · exact h

theorem widen_nc {l r : Val} (hl : NestedCertV l) (hr : NestedCertV r) :
    NestedCertV (widen l r).1 ∧ NestedCertV (widen l r).2 := by
  unfold widen
  split <;> (try split) <;> simp [NestedCertV, hl, hr]

theorem narrowI_scalar (r : Int) : Val.scalar (narrowI r) = true := by unfold narrowI; split <;> rfl
theorem narrowU_scalar (r : Int) : Val.scalar (narrowU r) = true := by unfold narrowU; split <;> rfl
theorem narrowTs_scalar (r : Int) : Val.scalar (narrowTs r) = true := by unfold narrowTs; split <;> rfl
theorem narrowDur_scalar (r : Int) : Val.scalar (narrowDur r) = true := by unfold narrowDur; split <;> rfl

theorem intArm_scalar (op : ArithOp) (a b : Int) : Val.scalar (intArm op a b) = true := by
  unfold intArm; split
  · rfl
  · exact narrowI_scalar _

theorem uintArm_scalar (op : ArithOp) (a b : Nat) : Val.scalar (uintArm op a b) = true := by
  unfold uintArm; split
  · rfl
  · exact narrowU_scalar _

theorem ncV_list_append {a b : List Val} (ha : NestedCertV (.list a)) (hb : NestedCertV (.list b)) :
    NestedCertV (.list (a ++ b)) := by
  simp only [NestedCertV, ncL_iff] at *
  intro v hv
  rcases List.mem_append.mp hv with h | h
  · exact ha v h
  · exact hb v h

theorem otherArm_nc (op : ArithOp) {l r : Val} (hl : NestedCertV l) (hr : NestedCertV r) :
    NestedCertV (otherArm op l r) := by
  unfold otherArm
  split <;> first
    | exact ncV_list_append hl hr
    | exact ncV_scalar (narrowTs_scalar _)
    | exact ncV_scalar (narrowDur_scalar _)
    | simp [NestedCertV]

theorem arith_nc (op : ArithOp) {l r : Val} (hl : NestedCertV l) (hr : NestedCertV r) :
    NestedCertV (arith op l r) := by
  unfold arith
  apply errProp_nc
  unfold arithCore
  have hw := widen_nc hl hr
  split
  · exact ncV_scalar (intArm_scalar _ _ _)
  · exact ncV_scalar (intArm_scalar _ _ _)
  · exact ncV_scalar (intArm_scalar _ _ _)
  · exact ncV_scalar (uintArm_scalar _ _ _)
  · split <;> simp [NestedCertV]
  · rename_i l' r' _ _ _ _ _ heq
    rw [heq] at hw
    exact otherArm_nc op hw.1 hw.2

theorem eqScalar_scalar (l r : Val) : Val.scalar (eqScalar l r) = true := by
  unfold eqScalar; split <;> rfl

theorem eqList_scalar : ∀ a b : List Val, Val.scalar (eqList a b) = true
  | [], _ => by simp [eqList, Val.scalar]
  | _ :: _, [] => by simp [eqList, Val.scalar]
  | x :: xs, y :: ys => by
    rw [eqList]
    split
    · rfl
    · exact eqList_scalar xs ys
    · rfl

theorem valEq_scalar (l r : Val) : Val.scalar (valEq l r) = true := by
  unfold valEq
  split
  · rfl
  · split
    · rfl
    · exact eqList_scalar _ _
  · rfl
  · rfl
  · exact eqScalar_scalar _ _

theorem valNe_scalar (l r : Val) : Val.scalar (valNe l r) = true := by
  unfold valNe
  apply errProp_scalar
  have := valEq_scalar l r
  split
  · rfl
  · exact this

theorem rel_scalar (op : RelOp) (l r : Val) : Val.scalar (rel op l r) = true := by
  unfold rel
  apply errProp_scalar
  split <;> rfl

theorem inOp_scalar (l r : Val) : Val.scalar (inOp l r) = true := by
  unfold inOp
  apply errProp_scalar
  split <;> rfl

theorem vOr_scalar (l r : Val) : Val.scalar (vOr l r) = true := by
  unfold vOr
  split <;> (try split) <;> rfl

theorem vAnd_scalar (l r : Val) : Val.scalar (vAnd l r) = true := by
  unfold vAnd
  apply errProp_scalar
  rfl

/-- Folding a binary operator on certified constants gives a certified constant. -/
theorem binOp_apply_nc (op : BinOp) {a b : Val} (ha : NestedCertV a) (hb : NestedCertV b) :
    NestedCertV (op.apply a b) := by
  cases op <;> simp only [BinOp.apply]
  · exact ncV_scalar (vOr_scalar _ _)
  · exact ncV_scalar (vAnd_scalar _ _)
  · exact ncV_scalar (rel_scalar _ _ _)
  · exact ncV_scalar (rel_scalar _ _ _)
  · exact ncV_scalar (rel_scalar _ _ _)
  · exact ncV_scalar (rel_scalar _ _ _)
  · exact ncV_scalar (valEq_scalar _ _)
  · exact ncV_scalar (valNe_scalar _ _)
  · exact ncV_scalar (inOp_scalar _ _)
  · exact arith_nc _ ha hb
  · exact arith_nc _ ha hb
  · exact arith_nc _ ha hb
  · exact arith_nc _ ha hb
  · exact arith_nc _ ha hb

theorem getD_nc {l : List Val} (h : NestedCertL l) (n : Nat) : NestedCertV (l.getD n .null) := by
  rw [ncL_iff] at h
  rw [List.getD_eq_getElem?_getD]
  cases hn : l[n]? with
  | none => simp [NestedCertV]
  | some v => exact h v (List.mem_of_getElem? hn)

theorem mapGet_nc : ∀ {m : VMap} {k : Str} {v : Val}, NestedCertM m → Map.get m k = some v → NestedCertV v
  | [], _, _, _, h => by simp [Map.get] at h
  | (k', v') :: rest, k, v, hm, h => by
    simp only [NestedCertM] at hm
    simp only [Map.get] at h
    split at h
    · cases h; exact hm.1
    · exact mapGet_nc hm.2 h

theorem mapInsert_nc : ∀ {m : VMap} {k : Str} {v : Val}, NestedCertM m → NestedCertV v →
    NestedCertM (Map.insert m k v)
  | [], _, _, _, hv => by simp [Map.insert, NestedCertM, hv]
  | (k', v') :: rest, k, v, hm, hv => by
    simp only [NestedCertM] at hm
    simp only [Map.insert]
    split
    · simp [NestedCertM, hm.1, hm.2, hv]
    · split
      · simp only [NestedCertM]; exact ⟨hm.1, mapInsert_nc hm.2 hv⟩
      · simp [NestedCertM, hm.2, hv]

theorem index_nc {o i : Val} (ho : NestedCertV o) : NestedCertV (index o i) := by
  unfold index
  apply errProp_nc
  split
  · split
    · simp [NestedCertV]
    · exact getD_nc (by simpa [NestedCertV] using ho) _
  · dsimp only
    split
    · split
      · simp [NestedCertV]
      · exact getD_nc (by simpa [NestedCertV] using ho) _
    · split
      · simp [NestedCertV]
      · exact getD_nc (by simpa [NestedCertV] using ho) _
  · simp [NestedCertV]
  · split
    · rename_i hg; exact mapGet_nc (by simpa [NestedCertV] using ho) hg
    · simp [NestedCertV]
  · simp [NestedCertV]
  · simp [NestedCertV]

theorem foldAccess_nc {o v : Val} {name : Str} (ho : NestedCertV o) (h : foldAccess o name = some v) :
    NestedCertV v := by
  unfold foldAccess at h
  split at h
  · rename_i m
    unfold accessVal at h
    dsimp only at h
    split at h
    · cases h
    · rename_i hne
      cases h
      split
      · rename_i hg; exact mapGet_nc (by simpa [NestedCertV] using ho) hg
      · simp [NestedCertV]
  · cases h

theorem foldMap_nc : ∀ (vs : List Val) (m : VMap), NestedCertL vs → NestedCertM m →
    NestedCertV (foldMap vs m) := by
  intro vs m
  fun_induction foldMap vs m with
  | case1 v k rest m ih =>
    intro hv hm
    simp only [NestedCertL] at hv
    exact ih hv.2.2 (mapInsert_nc hm hv.1)
  | case2 => intros; simp [NestedCertV]
  | case3 => intro _ hm; simpa [NestedCertV] using hm

theorem allConst_nc : ∀ {cs : List CP} {vs : List Val}, allConst cs = some vs →
    (∀ c ∈ cs, NestedCert c.toCode) → NestedCertL vs
  | [], _, h, _ => by simp [allConst] at h; subst h; simp [NestedCertL]
  | .const v :: rest, vs, h, hc => by
    simp only [allConst, Option.map_eq_some_iff] at h
    obtain ⟨vs', h1, rfl⟩ := h
    have hv := hc (.const v) (by simp)
    simp only [CP.toCode, nc_cons, ncI_push] at hv
    exact ⟨hv.1, allConst_nc h1 (fun c hx => hc c (by simp [hx]))⟩
  | .code _ :: _, _, h, _ => by simp [allConst] at h

end Cert
end Rscel
