import RscelModel.Lemmas.Seq
/-
Sequencing lemmas, part 2: the well-formedness invariant "values are data" (no identifier and no code
block at any depth — such a value is returned unchanged by every `pop`, is never run by `resolve_args`,
and every element taken out of it is data again), the environments and built-ins that preserve it, and
the instruction-level lemmas for MKDICT, INDEX, ACCESS, CALL and FMT.
-/
set_option autoImplicit false
namespace Rscel
namespace Seq

/-! ### data values -/

mutual
/-- No `.ident` and no `.code` at any depth. -/
def isData : Val → Bool
  | .ident _ => false
  | .code _ => false
  | .list l => isDataList l
  | .map m => isDataMap m
  | _ => true
def isDataList : List Val → Bool
  | [] => true
  | x :: xs => isData x && isDataList xs
def isDataMap : List (Str × Val) → Bool
  | [] => true
  | (_, x) :: xs => isData x && isDataMap xs
end

/-- `v` is plain data. -/
def Data (v : Val) : Prop := isData v = true

theorem isDataList_iff (l : List Val) : isDataList l = true ↔ ∀ x ∈ l, Data x := by
  induction l with
  | nil => simp [isDataList]
  | cons x xs ih => simp [isDataList, ih, Data]

theorem isDataMap_iff (m : List (Str × Val)) : isDataMap m = true ↔ ∀ p ∈ m, Data p.2 := by
  induction m with
  | nil => simp [isDataMap]
  | cons p ps ih => obtain ⟨k, x⟩ := p; simp [isDataMap, ih, Data]

theorem data_list {l : List Val} : Data (.list l) ↔ ∀ x ∈ l, Data x := by
  simp only [Data, isData]; exact isDataList_iff l

theorem data_map {m : List (Str × Val)} : Data (.map m) ↔ ∀ p ∈ m, Data p.2 := by
  simp only [Data, isData]; exact isDataMap_iff m

theorem Data.plain {v : Val} (h : Data v) : Plain v := by
  intro n hn; subst hn; simp [Data, isData] at h

theorem data_err (k : ErrKind) : Data (.err k) := rfl
theorem data_bool (b : Bool) : Data (.bool b) := rfl
theorem data_null : Data .null := rfl
theorem data_str (s : Str) : Data (.str s) := rfl

theorem data_of_boe {v : Val} (h : BoolOrErr v) : Data v := by
  rcases h with ⟨b, rfl⟩ | ⟨k, rfl⟩ <;> rfl

theorem data_vTest (v : Val) : Data (vTest v) := data_of_boe (boolOrErr_vTest v)
theorem data_vNot (v : Val) : Data (vNot v) := data_of_boe (boolOrErr_vNot v)

theorem data_narrowI (r : Int) : Data (narrowI r) := by unfold narrowI; split <;> rfl
theorem data_narrowU (r : Int) : Data (narrowU r) := by unfold narrowU; split <;> rfl
theorem data_narrowTs (r : Int) : Data (narrowTs r) := by unfold narrowTs; split <;> rfl
theorem data_narrowDur (r : Int) : Data (narrowDur r) := by unfold narrowDur; split <;> rfl

theorem data_neg (v : Val) : Data (neg v) := by
  cases v <;> simp [neg, Data, isData]
  exact data_narrowI _

theorem data_errProp {f : Val → Val → Val} {a b : Val} (hf : Data (f a b)) : Data (errProp a b f) := by
  unfold errProp
  split
  · rfl
  · split
    · rfl
    · exact hf

theorem data_vAnd (a b : Val) : Data (vAnd a b) := data_errProp rfl
theorem data_vOr (a b : Val) : Data (vOr a b) := by
  unfold vOr
  split
  · split <;> rfl
  · split <;> rfl
  · rfl

theorem data_valEq (a b : Val) : Data (valEq a b) := data_of_boe (boe_valEq a b)
theorem data_valNe (a b : Val) : Data (valNe a b) := data_of_boe (boe_valNe a b)
theorem data_rel (op : RelOp) (a b : Val) : Data (rel op a b) := data_of_boe (boe_rel op a b)
theorem data_cmp (op : CmpOp) (a b : Val) : Data (op.apply a b) := data_of_boe (boe_cmp op a b)

theorem data_inOp (a b : Val) : Data (inOp a b) := by
  unfold inOp
  apply data_errProp
  split <;> rfl

theorem widen_list_left {l r l' r' : Val} (h : widen l r = (l', r')) {a : List Val} (hl : l' = .list a) :
    l = .list a := by
  subst hl
  cases l <;> cases r <;> simp [widen] at h <;> (try split at h) <;> simp_all

theorem widen_list_right {l r l' r' : Val} (h : widen l r = (l', r')) {a : List Val} (hr : r' = .list a) :
    r = .list a := by
  subst hr
  cases l <;> cases r <;> simp [widen] at h <;> (try split at h) <;> simp_all

theorem data_arith (op : ArithOp) {a b : Val} (ha : Data a) (hb : Data b) : Data (arith op a b) := by
  unfold arith
  apply data_errProp
  unfold arithCore
  split
  · unfold intArm; split <;> first | rfl | exact data_narrowI _
  · unfold intArm; split <;> first | rfl | exact data_narrowI _
  · unfold intArm; split <;> first | rfl | exact data_narrowI _
  · unfold uintArm; split <;> first | rfl | exact data_narrowU _
  · split <;> rfl
  · rename_i l' r' _ _ _ _ _ hw
    unfold otherArm
    split <;> first | rfl | exact data_narrowTs _ | exact data_narrowDur _ | skip
    rename_i x y
    have h1 := widen_list_left hw rfl
    have h2 := widen_list_right hw rfl
    subst h1 h2
    rw [data_list] at ha hb ⊢
    intro z hz
    rcases List.mem_append.mp hz with h | h
    · exact ha z h
    · exact hb z h

theorem data_apply (op : BinOp) {a b : Val} (ha : Data a) (hb : Data b) : Data (op.apply a b) := by
  cases op <;> simp only [BinOp.apply]
  · exact data_vOr _ _
  · exact data_vAnd _ _
  · exact data_rel _ _ _
  · exact data_rel _ _ _
  · exact data_rel _ _ _
  · exact data_rel _ _ _
  · exact data_valEq _ _
  · exact data_valNe _ _
  · exact data_inOp _ _
  · exact data_arith _ ha hb
  · exact data_arith _ ha hb
  · exact data_arith _ ha hb
  · exact data_arith _ ha hb
  · exact data_arith _ ha hb

theorem data_applyN {f : Val → Val} (hf : ∀ v, Data (f v)) {v : Val} (hv : Data v) (n : Nat) :
    Data (applyN f n v) := by
  cases n with
  | zero => exact hv
  | succ n => exact hf _

theorem data_getD {l : List Val} (hl : ∀ x ∈ l, Data x) (n : Nat) : Data (l.getD n .null) := by
  rw [List.getD_eq_getElem?_getD]
  cases h : l[n]? with
  | none => rfl
  | some x => exact hl x (List.mem_of_getElem? h)

theorem data_mapGet {m : VMap} (hm : ∀ p ∈ m, Data p.2) {k : Str} {v : Val} (h : Map.get m k = some v) :
    Data v := by
  induction m with
  | nil => simp [Map.get] at h
  | cons p ps ih =>
    obtain ⟨k', v'⟩ := p
    simp only [Map.get] at h
    split at h
    · cases h; exact hm _ (List.mem_cons_self ..)
    · exact ih (fun q hq => hm q (List.mem_cons_of_mem _ hq)) h

theorem data_index {o i : Val} (ho : Data o) : Data (index o i) := by
  unfold index
  apply data_errProp
  split
  · split
    · rfl
    · exact data_getD (data_list.mp ho) _
  · split
    · dsimp only
      split
      · rfl
      · exact data_getD (data_list.mp ho) _
    · split
      · rfl
      · exact data_getD (data_list.mp ho) _
  · rfl
  · split
    · rename_i v hv; exact data_mapGet (data_map.mp ho) hv
    · rfl
  · rfl
  · rfl

theorem data_fieldOf {o : Val} (ho : Data o) (name : Str) : Data (fieldOf o name) := by
  unfold fieldOf
  split
  · rfl
  · split
    · rename_i v hv
      unfold fieldEntry at hv
      split at hv
      · exact data_mapGet (data_map.mp ho) hv
      · cases hv
    · rfl

theorem data_mapInsert {m : VMap} (hm : ∀ p ∈ m, Data p.2) (k : Str) {v : Val} (hv : Data v) :
    ∀ p ∈ Map.insert m k v, Data p.2 := by
  induction m with
  | nil => intro p hp; simp [Map.insert] at hp; subst hp; exact hv
  | cons q qs ih =>
    obtain ⟨k', v'⟩ := q
    intro p hp
    simp only [Map.insert] at hp
    split at hp
    · rcases List.mem_cons.mp hp with rfl | hp
      · exact hv
      · exact hm p hp
    · split at hp
      · rcases List.mem_cons.mp hp with rfl | hp
        · exact hm _ (List.mem_cons_self ..)
        · exact ih (fun q hq => hm q (List.mem_cons_of_mem _ hq)) p hp
      · rcases List.mem_cons.mp hp with rfl | hp
        · exact hv
        · exact hm p (List.mem_cons_of_mem _ hp)

theorem data_foldInsert (es : List (Str × Val)) (hes : ∀ p ∈ es, Data p.2) :
    ∀ m : VMap, (∀ p ∈ m, Data p.2) → ∀ p ∈ es.foldl (fun m e => Map.insert m e.1 e.2) m, Data p.2 := by
  induction es with
  | nil => intro m hm; simpa using hm
  | cons e es ih =>
    intro m hm
    simp only [List.foldl_cons]
    exact ih (fun p hp => hes p (List.mem_cons_of_mem _ hp)) _
      (data_mapInsert hm _ (hes e (List.mem_cons_self ..)))

theorem strKeys_mem {kvs : List (Val × Val)} {es : List (Str × Val)} (h : strKeys kvs = some es) :
    ∀ p ∈ es, ∃ q ∈ kvs, q.2 = p.2 := by
  induction kvs generalizing es with
  | nil => simp [strKeys] at h; subst h; simp
  | cons q qs ih =>
    obtain ⟨k, v⟩ := q
    cases k <;> simp only [strKeys] at h <;> try cases h
    rename_i s
    cases hr : strKeys qs with
    | none => simp [hr] at h
    | some es' =>
      simp only [hr, Option.map_some, Option.some.injEq] at h
      subst h
      intro p hp
      rcases List.mem_cons.mp hp with rfl | hp
      · exact ⟨_, List.mem_cons_self .., rfl⟩
      · obtain ⟨q, hq, e⟩ := ih hr p hp
        exact ⟨q, List.mem_cons_of_mem _ hq, e⟩

theorem data_mkMap {kvs : List (Val × Val)} (h : ∀ q ∈ kvs, Data q.2) : Data (mkMap kvs) := by
  unfold mkMap
  split
  · rename_i es hes
    rw [data_map]
    apply data_foldInsert es _ [] (by simp)
    intro p hp
    obtain ⟨q, hq, e⟩ := strKeys_mem hes p hp
    rw [← e]; exact h q hq
  · rfl

theorem data_fmtVal (vs : List Val) : Data (fmtVal vs) := by
  unfold fmtVal; split <;> rfl

theorem data_ternVal {vc vt vf : Val} (ht : Data vt) (hf : Data vf) : Data (ternVal vc vt vf) := by
  unfold ternVal
  split
  · rfl
  · split <;> assumption

theorem data_chainVal {wf : Bool} {f : Val → Val → Val} (hf : ∀ a b, Data (f a b)) :
    ∀ (vs : List Val) (x : Val), Data x → Data (chainVal wf f x vs) := by
  intro vs
  induction vs with
  | nil => intro x hx; exact hx
  | cons v vs ih =>
    intro x hx
    simp only [chainVal]
    split
    · exact data_vTest _
    · exact ih _ (hf _ _)

/-! ### environments and built-ins that keep values data -/

/-- The environments of the theorems of `C05Compile2`: no stored programs and no recording of the
    unresolved-name flag (`NoProgs`: every run-time environment; the compile-time run is related to one by
    `Lemmas/Unres.lean`), bindings present, no functions bound by the caller, every parameter bound to plain
    data. -/
structure EnvOK (env : Env) : Prop where
  noProgs : NoProgs env
  binds : env.hasBinds = true
  noUser : env.userFns = []
  params : ∀ n v, env.getParam n = some v → Data v

/-- Built-in functions and constructors return data when given data. -/
structure BuiltinsOK (B : Builtins) : Prop where
  func : ∀ name f this args, B.func name = some f → Data this → (∀ a ∈ args, Data a) → Data (f this args)
  ctor : ∀ tn args, (∀ a ∈ args, Data a) → Data (B.ctor tn args)

theorem EnvOK.plainParams {env : Env} (h : EnvOK env) : PlainParams env :=
  fun n v hv => (h.params n v hv).plain

theorem EnvOK.bind {env : Env} (h : EnvOK env) (x : Str) {v : Val} (hv : Data v) : EnvOK (env.bind x v) := by
  refine ⟨?_, h.binds, h.noUser, ?_⟩
  · exact ⟨h.noProgs.prog, h.noProgs.untracked⟩
  · intro n w hw
    simp only [Env.getParam, Env.bind, h.binds, if_true, lookup] at hw
    split at hw
    · cases hw; exact hv
    · exact h.params n w (by simpa [Env.getParam, h.binds] using hw)

theorem data_getType {env : Env} {n : Str} {t : Val} (h : env.getType n = some t) : Data t := by
  unfold Env.getType typeByName at h
  split at h
  · rw [Option.map_eq_some_iff] at h
    obtain ⟨_, _, rfl⟩ := h
    rfl
  · cases h

theorem data_resolveIdent {env : Env} (h : EnvOK env) (n : Str) : Data (resolveIdent env n) := by
  unfold resolveIdent
  split
  · rename_i t ht; exact data_getType ht
  · split
    · rename_i v hv; exact h.params n v hv
    · rfl

theorem isMacro_default {env : Env} {name : Str} (h : env.isMacro name = true) :
    defaultMacros.any (·.toList = name) = true := by
  unfold Env.isMacro at h
  simp only [Bool.and_eq_true] at h
  obtain ⟨_, h⟩ := h
  split at h
  · simp only [compileMacros, defaultMacros, List.any_cons, List.any_nil, Bool.or_false, Bool.or_eq_true,
      decide_eq_true_eq] at h ⊢
    rcases h with h | h | h | h | h | h <;> simp [h]
  · exact h

theorem callable_none {B : Builtins} {env : Env} (h : EnvOK env) {name : Str}
    (hn : callableName B name = false) : env.callable B name = none := by
  simp only [callableName, Bool.or_eq_false_iff] at hn
  obtain ⟨h1, h2⟩ := hn
  have hm : env.isMacro name = false := by
    cases hh : env.isMacro name
    · rfl
    · rw [isMacro_default hh] at h2; cases h2
  simp [Env.callable, Env.getFunc, h.binds, h.noUser, lookup, h1, hm]

theorem getFunc_eq {B : Builtins} {env : Env} (h : EnvOK env) (name : Str) :
    env.getFunc B name = if (B.func name).isSome then some (.builtin name) else none := by
  simp [Env.getFunc, h.binds, h.noUser, lookup]

/-! ### more single instructions -/

section
variable {B : Builtins} {rec top : Rec} {env : Env}

/-- `l; r; OP` when the result of this application is not an identifier. -/
theorem runs_binop' (hnp : NoProgs env) {i : Instr} {f : Val → Val → Val}
    (hi : ∀ len pc s, step B rec top env len i pc s = liftNext pc (binop rec f env s))
    {l r : List Instr} {a b : Val} (hf : Plain (f a b))
    (hl : Runs B rec top env l a) (hr : Runs B rec top env r b) :
    Runs B rec top env (l ++ r ++ [i]) (f a b) := by
  obtain ⟨wl, kl, rfl, hkl, gl⟩ := hl
  obtain ⟨wr, kr, rfl, hkr, gr⟩ := hr
  refine ⟨f (resolve env wl) (resolve env wr), kl + kr + 1, resolve_plain hf, by simp <;> omega, ?_⟩
  rw [List.append_assoc]
  have g1 := gl.head_app (r ++ [i])
  have g2 := (((gr.head_app [i]).skip_app l).frame [.val wl])
  have g3 := ((go_binop hnp hi wl wr []).skip_app r).skip_app l
  exact ((g1.trans (g2.cast rfl (by omega) rfl)).trans (g3.cast rfl (by omega) rfl)).cast rfl rfl (by simp <;> omega)

theorem step_index (len pc : Nat) (s : St) :
    step B rec top env len .index pc s = liftNext pc (binop rec index env s) := rfl

/-- `o; i; INDEX`. -/
theorem runs_index (hnp : NoProgs env) {l r : List Instr} {o i : Val} (ho : Data o)
    (hl : Runs B rec top env l o) (hr : Runs B rec top env r i) :
    Runs B rec top env (l ++ r ++ [.index]) (index o i) :=
  runs_binop' hnp step_index (data_index ho).plain hl hr

/-! ### MKDICT -/

/-- The code order of a map literal's children: value, key, value, key, … -/
def interleaveKV {α : Type} : List (α × α) → List α
  | [] => []
  | (k, v) :: rest => v :: k :: interleaveKV rest

theorem interleaveKV_append {α : Type} (a b : List (α × α)) :
    interleaveKV (a ++ b) = interleaveKV a ++ interleaveKV b := by
  induction a with
  | nil => rfl
  | cons p ps ih => obtain ⟨k, v⟩ := p; simp [interleaveKV, ih]

theorem interleaveKV_length {α : Type} (a : List (α × α)) : (interleaveKV a).length = 2 * a.length := by
  induction a with
  | nil => rfl
  | cons p ps ih => obtain ⟨k, v⟩ := p; simp [interleaveKV, ih]; omega

theorem interleaveKV_map {α β : Type} (f : α → β) (a : List (α × α)) :
    (interleaveKV a).map f = interleaveKV (a.map (fun p => (f p.1, f p.2))) := by
  induction a with
  | nil => rfl
  | cons p ps ih => obtain ⟨k, v⟩ := p; simp [interleaveKV, ih]

/-- What `popEntries` collects from the popped values, top of the stack first: key, value, key, value, … -/
def flatEntries : List Val → Option (List (Str × Val))
  | k :: v :: rest =>
    (match k, flatEntries rest with
     | .str key, some es => some ((key, v) :: es)
     | _, _ => none)
  | _ => some []

theorem popEntries_resolve (hnp : NoProgs env) : ∀ (n : Nat) (ws : List Val), ws.length = 2 * n →
    ∀ (st : List SVal) (log : Log),
    popEntries rec env n { stack := ws.map .val ++ st, log := log } =
      .ok (flatEntries (ws.map (resolve env))) { stack := st, log := log } := by
  intro n
  induction n with
  | zero =>
    intro ws h st log
    have : ws = [] := List.eq_nil_of_length_eq_zero (by omega)
    subst this; simp [popEntries, flatEntries]
  | succ n ih =>
    intro ws h st log
    match ws, h with
    | k :: v :: rest, h =>
      have hr : rest.length = 2 * n := by simp at h; omega
      simp only [popEntries, List.map_cons, List.cons_append, popV_resolve hnp, ih rest hr, flatEntries]
      cases resolve env k <;> (try rfl)
      cases flatEntries (rest.map (resolve env)) <;> rfl

theorem strKeys_append (a b : List (Val × Val)) :
    strKeys (a ++ b) = match strKeys a, strKeys b with
      | some x, some y => some (x ++ y)
      | _, _ => none := by
  induction a with
  | nil => simp only [List.nil_append, strKeys]; cases strKeys b <;> rfl
  | cons p ps ih =>
    obtain ⟨k, v⟩ := p
    cases k <;> simp only [List.cons_append, strKeys] <;> try (cases strKeys b <;> rfl)
    rw [ih]
    cases strKeys ps <;> cases strKeys b <;> rfl

theorem strKeys_reverse (a : List (Val × Val)) : strKeys a.reverse = (strKeys a).map List.reverse := by
  induction a with
  | nil => rfl
  | cons p ps ih =>
    obtain ⟨k, v⟩ := p
    rw [List.reverse_cons, strKeys_append, ih]
    cases k <;> simp only [strKeys] <;> (try (cases strKeys ps <;> simp))

/-- The popped values of `MKDICT` are the reversed code order, and give the entries last pair first. -/
theorem flatEntries_interleave' (R : List (Val × Val)) :
    flatEntries (interleaveKV R.reverse).reverse = strKeys R := by
  induction R with
  | nil => rfl
  | cons p ps ih =>
    obtain ⟨k, v⟩ := p
    rw [List.reverse_cons, interleaveKV_append, List.reverse_append]
    simp only [interleaveKV, List.reverse_cons, List.reverse_nil, List.nil_append, List.cons_append,
      flatEntries, ih]
    cases k <;> try rfl
    simp only [strKeys]
    cases strKeys ps <;> rfl

theorem flatEntries_interleave (kvs : List (Val × Val)) :
    flatEntries (interleaveKV kvs).reverse = strKeys kvs.reverse := by
  have := flatEntries_interleave' kvs.reverse
  rwa [List.reverse_reverse] at this

theorem go_mkDict (hnp : NoProgs env) (n : Nat) (ws : List Val) (hws : ws.length = 2 * n) (r : List Instr) :
    Go B rec top env (.mkDict n :: r) 1 0 (ws.map .val) 1
      [.val (match flatEntries (ws.map (resolve env)) with
        | some es => .map (Map.ofList es.reverse)
        | none => .err .value)] :=
  Go.instr (fun pre post st log => by
    simp only [step, popEntries_resolve hnp n ws hws]
    cases flatEntries (ws.map (resolve env)) <;> simp [pushV])

/-- `v₁; k₁; …; vₙ; kₙ; MKDICT n`: the map of the entries in source order (`mkMap`). -/
theorem runs_mkDict (hnp : NoProgs env) (kvs : List ((List Instr × Val) × (List Instr × Val)))
    (hk : ∀ p ∈ kvs, Runs B rec top env p.1.1 p.1.2) (hv : ∀ p ∈ kvs, Runs B rec top env p.2.1 p.2.2) :
    Runs B rec top env (((interleaveKV kvs).map (·.1)).flatten ++ [.mkDict kvs.length])
      (mkMap (kvs.map (fun p => (p.1.2, p.2.2)))) := by
  have hcv : ∀ p ∈ interleaveKV kvs, Runs B rec top env p.1 p.2 := by
    intro p hp
    induction kvs with
    | nil => simp [interleaveKV] at hp
    | cons q qs ih =>
      obtain ⟨k, v⟩ := q
      simp only [interleaveKV, List.mem_cons] at hp
      rcases hp with rfl | rfl | hp
      · exact hv _ (List.mem_cons_self ..)
      · exact hk _ (List.mem_cons_self ..)
      · exact ih (fun p hp => hk p (List.mem_cons_of_mem _ hp)) (fun p hp => hv p (List.mem_cons_of_mem _ hp)) hp
  obtain ⟨ws, k, hws, hkl, g⟩ := go_seq (interleaveKV kvs) hcv
  have hlen : ws.reverse.length = 2 * kvs.length := by
    have := congrArg List.length hws
    simp only [List.length_map, interleaveKV_length] at this
    simpa using this
  have hval : (match flatEntries (ws.reverse.map (resolve env)) with
        | some es => Val.map (Map.ofList es.reverse)
        | none => .err .value) = mkMap (kvs.map (fun p => (p.1.2, p.2.2))) := by
    rw [List.map_reverse, hws, interleaveKV_map, flatEntries_interleave, strKeys_reverse]
    unfold mkMap
    cases strKeys (kvs.map (fun p => (p.1.2, p.2.2))) <;> simp only [Option.map_none, Option.map_some, List.reverse_reverse]
  refine ⟨_, k + 1, resolve_plain ?_, by simp only [List.length_append, List.length_cons, List.length_nil]; omega, ?_⟩
  · intro n hn
    have : Plain (mkMap (kvs.map (fun p => (p.1.2, p.2.2)))) := by
      unfold mkMap; split <;> (intro _ h; cases h)
    exact this n hn
  · have g1 := g.head_app [.mkDict kvs.length]
    have g2 := (go_mkDict (B := B) (rec := rec) (top := top) hnp kvs.length ws.reverse hlen []).skip_app
      ((interleaveKV kvs).map (·.1)).flatten
    rw [hval] at g2
    exact (g1.trans (g2.cast rfl (by omega) rfl)).cast rfl rfl (by simp)

/-- Compile-time construction gives the same map. -/
theorem foldMap_eq_mkMap (kvs : List (Val × Val)) : ∀ m : VMap,
    foldMap (interleaveKV kvs) m = match strKeys kvs with
      | some es => .map (es.foldl (fun m e => Map.insert m e.1 e.2) m)
      | none => .err .value := by
  induction kvs with
  | nil => intro m; simp [interleaveKV, foldMap, strKeys]
  | cons p ps ih =>
    obtain ⟨k, v⟩ := p
    intro m
    cases k <;> simp only [interleaveKV, foldMap, strKeys]
    rw [ih]
    cases strKeys ps <;> simp

theorem foldMap_nil_eq_mkMap (kvs : List (Val × Val)) : foldMap (interleaveKV kvs) [] = mkMap kvs := by
  rw [foldMap_eq_mkMap]; rfl

/-! ### ACCESS -/

/-- `code` runs from its start to its end and leaves the one stack entry `e` (a value or a bound method). -/
def RunsE (B : Builtins) (rec top : Rec) (env : Env) (code : List Instr) (e : SVal) : Prop :=
  ∃ k, k ≤ code.length ∧ Go B rec top env code k 0 [] code.length [e]

theorem runsE_of_runs {c : List Instr} {v : Val} (h : Runs B rec top env c v) :
    ∃ w, resolve env w = v ∧ RunsE B rec top env c (.val w) := by
  obtain ⟨w, k, hw, hk, g⟩ := h
  exact ⟨w, hw, k, hk, g⟩

theorem runs_of_runsE {c : List Instr} {w : Val} (h : RunsE B rec top env c (.val w)) :
    Runs B rec top env c (resolve env w) := by
  obtain ⟨k, hk, g⟩ := h
  exact ⟨w, k, rfl, hk, g⟩

/-- The stack entry `ACCESS name` leaves for the object value `obj`: the entry of a map; else the bound
    function or macro of that name; else a failure value. -/
def accessEntry (B : Builtins) (env : Env) (obj : Val) (name : Str) : SVal :=
  match fieldEntry obj name with
  | some v => .val v
  | none =>
    match env.callable B name with
    | some c => .bound c obj
    | none => if obj.isErr then .val obj else .val (.err .attribute)

theorem go_access (hnp : NoProgs env) (hb : env.hasBinds = true) (w : Val) (name : Str) (r : List Instr) :
    Go B rec top env (.access :: r) 1 0 [.val (.ident name), .val w] 1 [accessEntry B env (resolve env w) name] :=
  Go.instr (fun pre post st log => by
    simp only [step, popRaw, List.cons_append, List.nil_append, popV_resolve hnp, accessEntry, fieldEntry, hb]
    cases resolve env w with
    | map m =>
      simp only []
      cases Map.get m name with
      | some v => simp [pushV]
      | none => cases env.callable B name <;> simp [pushV, Val.isErr, markUnres_untracked hnp.untracked]
    | _ =>
      simp only [Bool.not_true, Bool.false_eq_true, if_false]
      cases env.callable B name <;> simp [pushV, Val.isErr, markUnres_untracked hnp.untracked])

/-- `c; PUSH name; ACCESS`. -/
theorem runsE_access (hnp : NoProgs env) (hb : env.hasBinds = true) {c : List Instr} {o : Val}
    (hc : Runs B rec top env c o) (name : Str) :
    RunsE B rec top env (c ++ [.push (.ident name), .access]) (accessEntry B env o name) := by
  obtain ⟨w, k, rfl, hk, g⟩ := hc
  refine ⟨k + 1 + 1, by simp; omega, ?_⟩
  have g1 := g.head_app [.push (.ident name), .access]
  have g2 := ((go_push (B := B) (rec := rec) (top := top) (env := env) (.ident name) [.access]).skip_app c).frame [.val w]
  have g3 := ((go_access (B := B) (rec := rec) (top := top) hnp hb w name []).skip_cons (.push (.ident name))).skip_app c
  exact ((g1.trans (g2.cast rfl (by omega) rfl)).trans (g3.cast rfl (by omega) rfl)).cast rfl rfl (by simp)

/-- `o.name` for a name that is neither a function nor a macro: the field, by `fieldOf`. -/
theorem accessEntry_field {o : Val} {name : Str} (hc : env.callable B name = none) :
    accessEntry B env o name = .val (fieldOf o name) := by
  unfold accessEntry fieldOf
  cases o <;> simp [fieldEntry, hc, Val.isErr]
  rename_i m
  cases Map.get m name <;> rfl

theorem runs_access_field (henv : EnvOK env) {c : List Instr} {o : Val} (ho : Data o)
    (hc : Runs B rec top env c o) {name : Str} (hn : callableName B name = false) :
    Runs B rec top env (c ++ [.push (.ident name), .access]) (fieldOf o name) := by
  have h := runsE_access henv.noProgs henv.binds hc name
  rw [accessEntry_field (callable_none henv hn)] at h
  have := runs_of_runsE h
  rwa [resolve_plain (data_fieldOf ho name).plain] at this

/-! ### CALL -/

theorem go_pushes (vs : List Val) (r : List Instr) :
    Go B rec top env (vs.map .push ++ r) vs.length 0 [] vs.length (vs.reverse.map .val) := by
  induction vs generalizing r with
  | nil => exact Go.refl _ 0 []
  | cons v vs ih =>
    have g1 := go_push (B := B) (rec := rec) (top := top) (env := env) v (vs.map .push ++ r)
    have g2 := ((ih r).skip_cons (.push v)).frame [.val v]
    have hst : (v :: vs).reverse.map SVal.val = vs.reverse.map SVal.val ++ [.val v] := by simp
    rw [hst]
    exact (g1.trans (g2.cast rfl (by omega) rfl)).cast (by simp; omega) rfl (by simp)

/-- What `CALL n` does with the callee entry on top of the `n` argument entries `argv` (first argument on
    top): it replaces them by the value `r`, leaving the log as it is. -/
def CallStep (B : Builtins) (rec top : Rec) (env : Env) (callee : SVal) (argv : List Val) (r : Val) : Prop :=
  ∀ (len pc : Nat) (st : List SVal) (log : Log),
    step B rec top env len (.call argv.length) pc { stack := callee :: (argv.map .val ++ st), log := log } =
      .ok pc { stack := .val r :: st, log := log }

theorem go_callStep {callee : SVal} {argv : List Val} {r : Val} (hstep : CallStep B rec top env callee argv r)
    (rest : List Instr) :
    Go B rec top env (.call argv.length :: rest) 1 0 (callee :: argv.map .val) 1 [.val r] :=
  Go.instr (fun pre post st log => by
    have := hstep (pre ++ (Instr.call argv.length :: rest) ++ post).length (pre.length + 0 + 1) st log
    simpa using this)

/-- `PUSH aₙ; …; PUSH a₁; callee code; CALL n`. -/
theorem runs_call {cc : List Instr} {callee : SVal} (hc : RunsE B rec top env cc callee) (argv : List Val)
    {r : Val} (hr : Plain r) (hstep : CallStep B rec top env callee argv r) :
    Runs B rec top env (argv.reverse.map .push ++ cc ++ [.call argv.length]) r := by
  obtain ⟨kc, hkc, gc⟩ := hc
  refine ⟨r, argv.length + kc + 1, resolve_plain hr, by simp; omega, ?_⟩
  have g1 := go_pushes (B := B) (rec := rec) (top := top) (env := env) argv.reverse (cc ++ [.call argv.length])
  simp only [List.reverse_reverse, List.length_reverse] at g1
  have g2 := (((gc.head_app [.call argv.length]).skip_app (argv.reverse.map .push)).frame (argv.map .val))
  have g3 := go_callStep hstep []
  have g3' := (g3.skip_app cc).skip_app (argv.reverse.map .push)
  rw [List.append_assoc]
  exact ((g1.trans (g2.cast rfl (by simp) rfl)).trans (g3'.cast rfl (by simp) rfl)).cast
    (by omega) rfl (by simp)

/-- Outcome of `resolve_args`: the argument values, or the failure of the first failing block. -/
abbrev ArgsRes := Except ErrKind (List Val)

/-- The outcome for argument blocks with the values `vals`. -/
def argsRes (vals : List Val) : ArgsRes :=
  match firstErr vals with
  | some k => .error k
  | none => .ok vals

/-- `resolve_args` on `argv` has the outcome `res` (and leaves the log alone). -/
def ArgsEval (rec : Rec) (env : Env) (argv : List Val) (res : ArgsRes) : Prop :=
  ∀ log, resolveArgs rec env argv log =
    match res with
    | .error k => .error (.err k, log)
    | .ok vals => .ok (vals, log)

/-- A function applied to the outcome of the arguments. -/
def applyRes (f : List Val → Val) : ArgsRes → Val
  | .error k => .err k
  | .ok vs => f vs

theorem applyRes_argsRes (f : List Val → Val) (vals : List Val) : applyRes f (argsRes vals) = applyArgs f vals := by
  unfold argsRes applyArgs
  cases firstErr vals <;> rfl

/-- Argument blocks, each of which runs (one level down) to its value. -/
theorem argsEval_blocks (bvs : List (List Instr × Val))
    (h : ∀ p ∈ bvs, ∀ log, rec env p.1 true log = outOf p.2 log) :
    ArgsEval rec env (bvs.map (fun p => .code p.1)) (argsRes (bvs.map (·.2))) := by
  induction bvs with
  | nil => intro log; rfl
  | cons p ps ih =>
    obtain ⟨c, v⟩ := p
    intro log
    have h1 := h (c, v) (List.mem_cons_self ..) log
    have ih' := ih (fun q hq => h q (List.mem_cons_of_mem _ hq)) log
    simp only [List.map_cons, resolveArgs, h1, argsRes] at ih' ⊢
    cases v <;> simp only [outOf, firstErr, ih'] <;> (try (cases firstErr (ps.map (·.2)) <;> rfl))

/-- A single argument that is a value already (not a block) is passed as it is, failing or not. -/
theorem argsEval_single {v : Val} (hv : Data v) : ArgsEval rec env [v] (.ok [v]) := by
  intro log
  cases v <;> simp_all [resolveArgs, Data, isData]

theorem popN_plain (hnp : NoProgs env) (argv : List Val) (hp : ∀ a ∈ argv, Plain a) (st : List SVal) (log : Log) :
    popN rec env argv.length { stack := argv.map .val ++ st, log := log } = .ok argv { stack := st, log := log } := by
  rw [popN_resolve hnp]
  congr 1
  rw [List.map_congr_left (fun a ha => resolve_plain (hp a ha)), List.map_id']

theorem plain_code (c : List Instr) : Plain (.code c) := fun _ h => by cases h

/-- Built-in function bound to its receiver. -/
theorem callStep_builtin (hnp : NoProgs env) {name : Str} {f : Val → List Val → Val} (hf : B.func name = some f)
    (this : Val) {argv : List Val} {res : ArgsRes} (hp : ∀ a ∈ argv, Plain a) (hev : ArgsEval rec env argv res) :
    CallStep B rec top env (.bound (.builtin name) this) argv (applyRes (f this) res) := by
  intro len pc st log
  simp only [step, popRaw, popN_plain hnp argv hp, invoke, hev log, hf, applyRes]
  cases res <;> simp [liftNext, pushV, Abort.kind]

/-- Type constructor (the callee is a type value). -/
theorem callStep_type (hnp : NoProgs env) (tn : Str) {argv : List Val} {res : ArgsRes} (hp : ∀ a ∈ argv, Plain a)
    (hev : ArgsEval rec env argv res) :
    CallStep B rec top env (.val (.type tn)) argv (applyRes (B.ctor tn) res) := by
  intro len pc st log
  simp only [step, popRaw, popN_plain hnp argv hp, hev log, applyRes]
  cases res <;> simp [pushV, Abort.kind]

/-- Any other data value as callee: a Runtime failure. -/
theorem callStep_other (hnp : NoProgs env) {v : Val} (hv : Data v) (hnt : ∀ tn, v ≠ .type tn)
    {argv : List Val} (hp : ∀ a ∈ argv, Plain a) :
    CallStep B rec top env (.val v) argv (.err .runtime) := by
  intro len pc st log
  simp only [step, popRaw, popN_plain hnp argv hp]
  cases v <;> simp_all [pushV, Data, isData]

/-- A macro bound to its receiver; all arguments are blocks. -/
theorem callStep_macro (hnp : NoProgs env) (name : Str) (this : Val) (blocks : List (List Instr)) {r : Val}
    (hmac : ∀ log, callMacro rec top env name this blocks log = (r, log)) :
    CallStep B rec top env (.bound (.macro_ name) this) (blocks.map .code) r := by
  intro len pc st log
  have hca : ∀ bl : List (List Instr), codeArgs (bl.map Val.code) = some bl := by
    intro bl
    induction bl with
    | nil => rfl
    | cons b bs ih => simp [codeArgs, ih]
  have hca := hca blocks
  simp only [step, popRaw, popN_plain hnp (blocks.map .code) (by
    intro a ha; obtain ⟨c, _, rfl⟩ := List.mem_map.mp ha; exact plain_code c), invoke, hca, hmac log]
  simp [liftNext, pushV]

theorem data_fieldEntry {o : Val} (ho : Data o) {name : Str} {v : Val} (h : fieldEntry o name = some v) : Data v := by
  unfold fieldEntry at h
  split at h
  · exact data_mapGet (data_map.mp ho) h
  · cases h

/-- A function or constructor applied to the outcome of its arguments. -/
def callRes (B : Builtins) : CallKind → ArgsRes → Val
  | .func f this, res => applyRes (f this) res
  | .ctor tn, res => applyRes (B.ctor tn) res
  | .macro_ _, _ => notCovered
  | .none, _ => .err .runtime

theorem callRes_argsRes (k : CallKind) (vals : List Val) : callRes B k (argsRes vals) = callStrict B k vals := by
  cases k <;> simp [callRes, callStrict, applyRes_argsRes]

theorem callRes_ok (k : CallKind) (vals : List Val) : callRes B k (.ok vals) = callRaw B k vals := by
  cases k <;> rfl

/-- What the spec asks of the result `r` of a call whose callee denotes `k`: a macro gives what `callMacro`
    gives on the argument blocks; everything else is `callRes`. -/
def CallResult (B : Builtins) (rec top : Rec) (env : Env) (k : CallKind) (name : Str) (argv : List Val)
    (res : ArgsRes) (r : Val) : Prop :=
  match k with
  | .macro_ this => ∃ blocks, argv = blocks.map .code ∧ ∀ log, callMacro rec top env name this blocks log = (r, log)
  | k => r = callRes B k res

/-- `f(..)`: the callee is the unresolved name. -/
theorem callStep_ident (henv : EnvOK env) (fname : Str) {argv : List Val} {res : ArgsRes}
    (hp : ∀ a ∈ argv, Plain a) (hev : ArgsEval rec env argv res) {r : Val}
    (hr : CallResult B rec top env (fnKind B env fname) fname argv res r) :
    CallStep B rec top env (.val (.ident fname)) argv r := by
  unfold CallResult fnKind at hr
  cases hf : B.func fname with
  | some f =>
    simp only [hf, callRes] at hr
    subst hr
    intro len pc st log
    simp only [step, popRaw, popN_plain henv.noProgs argv hp, getFunc_eq henv, hf, Option.isSome_some, if_true,
      invoke, hev log, applyRes]
    cases res <;> simp [liftNext, pushV, Abort.kind]
  | none =>
    simp only [hf] at hr
    cases hm : env.isMacro fname with
    | true =>
      simp only [hm, if_true] at hr
      obtain ⟨blocks, rfl, hmac⟩ := hr
      intro len pc st log
      have := callStep_macro (B := B) henv.noProgs fname .null blocks hmac len pc st log
      simp only [step, popRaw, getFunc_eq henv, hf, Option.isSome_none, hm] at this ⊢
      exact this
    | false =>
      simp only [hm] at hr
      intro len pc st log
      simp only [step, popRaw, popN_plain henv.noProgs argv hp, getFunc_eq henv, hf, Option.isSome_none, hm]
      cases ht : env.getType fname with
      | none => simp only [ht, callRes] at hr; subst hr; simp [pushV, markUnres_untracked henv.noProgs.untracked]
      | some t =>
        cases t <;> simp only [ht, callRes] at hr <;> subst hr <;>
          (try simp [pushV, markUnres_untracked henv.noProgs.untracked])
        simp only [hev log, applyRes]
        cases res <;> simp [pushV, Abort.kind]

/-- `o.name(..)`: the callee is what `ACCESS name` left. -/
theorem callStep_access (henv : EnvOK env) {o : Val} (ho : Data o) (name : Str) {argv : List Val} {res : ArgsRes}
    (hp : ∀ a ∈ argv, Plain a) (hev : ArgsEval rec env argv res) {r : Val}
    (hr : CallResult B rec top env (methodKind B env o name) name argv res r) :
    CallStep B rec top env (accessEntry B env o name) argv r := by
  unfold CallResult methodKind at hr
  unfold accessEntry
  cases hfe : fieldEntry o name with
  | some v =>
    have hv := data_fieldEntry ho hfe
    simp only [hfe] at hr ⊢
    by_cases ht : ∃ tn, v = .type tn
    · obtain ⟨tn, rfl⟩ := ht
      simp only [callRes] at hr; subst hr
      exact callStep_type henv.noProgs tn hp hev
    · have hr' : r = .err .runtime := by
        cases v <;> first | exact hr | exact absurd ⟨_, rfl⟩ ht
      subst hr'
      exact callStep_other henv.noProgs hv (fun tn h => ht ⟨tn, h⟩) hp
  | none =>
    simp only [hfe] at hr ⊢
    simp only [Env.callable, getFunc_eq henv]
    cases hf : B.func name with
    | some f =>
      simp only [hf, callRes] at hr; subst hr
      simp only [Option.isSome_some, if_true]
      exact callStep_builtin henv.noProgs hf o hp hev
    | none =>
      simp only [hf, Option.isSome_none] at hr ⊢
      cases hm : env.isMacro name with
      | true =>
        simp only [hm, if_true] at hr ⊢
        obtain ⟨blocks, rfl, hmac⟩ := hr
        exact callStep_macro henv.noProgs name o blocks hmac
      | false =>
        have hr' : r = .err .runtime := by simpa [hm, callRes] using hr
        subst hr'
        simp only [Bool.false_eq_true, if_false]
        by_cases he : o.isErr = true
        · simp only [he, if_true]
          exact callStep_other henv.noProgs ho (by intro tn h; subst h; simp [Val.isErr] at he) hp
        · simp only [he, if_false]
          exact callStep_other henv.noProgs (data_err _) (by intro tn h; cases h) hp

/-- What a call kind needs for its results to be data. -/
def KindOK (B : Builtins) : CallKind → Prop
  | .func f this => (∃ name, B.func name = some f) ∧ Data this
  | .macro_ this => Data this
  | _ => True

theorem kindOK_fnKind (name : Str) : KindOK B (fnKind B env name) := by
  unfold fnKind
  split
  · rename_i f hf; exact ⟨⟨name, hf⟩, data_null⟩
  · split
    · exact data_null
    · split <;> trivial

theorem kindOK_methodKind {o : Val} (ho : Data o) (name : Str) : KindOK B (methodKind B env o name) := by
  unfold methodKind
  split
  · trivial
  · trivial
  · split
    · rename_i f hf; exact ⟨⟨name, hf⟩, ho⟩
    · split
      · exact ho
      · trivial

theorem data_callRaw (hB : BuiltinsOK B) {k : CallKind} (hk : KindOK B k) {vs : List Val} (hvs : ∀ a ∈ vs, Data a) :
    Data (callRaw B k vs) := by
  cases k with
  | func f this => obtain ⟨⟨n, hn⟩, ht⟩ := hk; exact hB.func n f this vs hn ht hvs
  | macro_ this => rfl
  | ctor tn => exact hB.ctor tn vs hvs
  | none => rfl

theorem data_applyArgs {f : List Val → Val} {vs : List Val} (h : Data (f vs)) : Data (applyArgs f vs) := by
  unfold applyArgs; split
  · rfl
  · exact h

theorem data_callStrict (hB : BuiltinsOK B) {k : CallKind} (hk : KindOK B k) {vs : List Val} (hvs : ∀ a ∈ vs, Data a) :
    Data (callStrict B k vs) := by
  cases k with
  | func f this => obtain ⟨⟨n, hn⟩, ht⟩ := hk; exact data_applyArgs (hB.func n f this vs hn ht hvs)
  | macro_ this => rfl
  | ctor tn => exact data_applyArgs (hB.ctor tn vs hvs)
  | none => rfl

theorem callResult_of_not_macro {k : CallKind} (h : ∀ this, k ≠ .macro_ this) (name : Str) (argv : List Val)
    (res : ArgsRes) : CallResult B rec top env k name argv res (callRes B k res) := by
  unfold CallResult
  cases k with
  | macro_ this => exact absurd rfl (h this)
  | _ => rfl

theorem fnKind_not_macro {name : Str} (h : env.isMacro name = false) : ∀ this, fnKind B env name ≠ .macro_ this := by
  intro this
  unfold fnKind
  split
  · intro hh; cases hh
  · rw [h]; simp only [Bool.false_eq_true, if_false]
    split <;> (intro hh; cases hh)

theorem isMacro_type : env.isMacro "type".toList = false := by
  unfold Env.isMacro
  cases env.hasBinds <;> cases env.compileMode <;> decide

theorem isMacro_string : env.isMacro "string".toList = false := by
  unfold Env.isMacro
  cases env.hasBinds <;> cases env.compileMode <;> decide

/-- A type pattern `case T:` on top of the copy of the scrutinee: `type(v) == T`. -/
theorem go_pat_type (henv : EnvOK env) (hB : BuiltinsOK B) {v : Val} (hv : Data v) (name : Str) :
    ∃ k, k ≤ [Instr.push (.ident "type".toList), .call 1, .push (.ident name), .eq].length ∧
      Go B rec top env [.push (.ident "type".toList), .call 1, .push (.ident name), .eq] k 0 [.val v]
        [Instr.push (.ident "type".toList), .call 1, .push (.ident name), .eq].length
        [.val (valEq (callRaw B (fnKind B env "type".toList) [v]) (resolveIdent env name))] := by
  have hnm := fnKind_not_macro (B := B) (env := env) isMacro_type
  have hstep : CallStep B rec top env (.val (.ident "type".toList)) [v]
      (callRaw B (fnKind B env "type".toList) [v]) := by
    have := callStep_ident (B := B) (rec := rec) (top := top) henv "type".toList (argv := [v]) (res := .ok [v])
      (by intro a ha; simp only [List.mem_singleton] at ha; subst ha; exact hv.plain)
      (argsEval_single hv) (callResult_of_not_macro hnm _ _ _)
    rwa [callRes_ok] at this
  have hd : Data (callRaw B (fnKind B env "type".toList) [v]) :=
    data_callRaw hB (kindOK_fnKind _) (by intro a ha; simp only [List.mem_singleton] at ha; subst ha; exact hv)
  refine ⟨4, by simp, ?_⟩
  have g1 := (go_push (B := B) (rec := rec) (top := top) (env := env) (.ident "type".toList)
    [.call 1, .push (.ident name), .eq]).frame [.val v]
  have g2 := (go_callStep hstep [.push (.ident name), .eq]).skip_cons (.push (.ident "type".toList))
  have g3 := (((go_push (B := B) (rec := rec) (top := top) (env := env) (.ident name) [.eq]).skip_cons
    (.call 1)).skip_cons (.push (.ident "type".toList))).frame [.val (callRaw B (fnKind B env "type".toList) [v])]
  have g4 := (((go_binop (B := B) (rec := rec) (top := top) henv.noProgs (i := .eq) (f := valEq) (fun _ _ _ => rfl)
    (callRaw B (fnKind B env "type".toList) [v]) (.ident name) []).skip_cons (.push (.ident name))).skip_cons
    (.call 1)).skip_cons (.push (.ident "type".toList))
  rw [resolve_plain hd.plain] at g4
  exact (((g1.trans g2).trans g3).trans g4).cast rfl rfl rfl

/-! ### FMT -/

theorem go_fmt (hnp : NoProgs env) (ws : List Val) (r : List Instr) :
    Go B rec top env (.fmt ws.length :: r) 1 0 (ws.map .val) 1
      [.val (fmtVal (ws.map (resolve env)).reverse)] :=
  Go.instr (fun pre post st log => by
    simp only [step, popN_resolve hnp, fmtVal]
    cases concatStrs (ws.map (resolve env)).reverse <;> simp [pushV])

/-- `seg₁; …; segₙ; FMT n`. -/
theorem runs_fmt (hnp : NoProgs env) (cvs : List (List Instr × Val))
    (hcv : ∀ p ∈ cvs, Runs B rec top env p.1 p.2) :
    Runs B rec top env ((cvs.map (·.1)).flatten ++ [.fmt cvs.length]) (fmtVal (cvs.map (·.2))) := by
  obtain ⟨ws, k, hws, hk, g⟩ := go_seq cvs hcv
  have hlen : ws.reverse.length = cvs.length := by
    have := congrArg List.length hws
    simpa using this
  refine ⟨fmtVal (cvs.map (·.2)), k + 1, resolve_plain (data_fmtVal _).plain,
    by simp only [List.length_append, List.length_cons, List.length_nil]; omega, ?_⟩
  have g1 := g.head_app [.fmt cvs.length]
  have g2 := (go_fmt (B := B) (rec := rec) (top := top) hnp ws.reverse []).skip_app (cvs.map (·.1)).flatten
  rw [hlen] at g2
  have hv : (ws.reverse.map (resolve env)).reverse = cvs.map (·.2) := by
    rw [List.map_reverse, List.reverse_reverse, hws]
  rw [hv] at g2
  exact (g1.trans (g2.cast rfl (by omega) rfl)).cast rfl rfl (by simp)

end

/-! ### the macro loops against their declarative folds

`g v` is the value of the body for the element `v`; the callback runs the body block to `outOf (g v)`
(a failure value is a failed run) and leaves the log alone. -/

section
variable {rec : Rec} {env : Env}

theorem outOf_cases (v : Val) (log : Log) :
    (∃ k, v = .err k ∧ outOf v log = { res := .error (.err k), log := log }) ∨
    ((∀ k, v ≠ .err k) ∧ outOf v log = { res := .ok v, log := log }) := by
  cases v <;> simp [outOf]

theorem andThen_err (k : ErrKind) (f : Val → Val) : (Val.err k).andThen f = .err k := rfl

theorem andThen_nonerr {v : Val} (h : ∀ k, v ≠ .err k) (f : Val → Val) : v.andThen f = f v := by
  cases v <;> first | rfl | exact absurd rfl (h _)

theorem data_andThen {v : Val} {f : Val → Val} (h : Data (f v)) : Data (v.andThen f) := by
  cases v <;> first | exact h | rfl

theorem data_consVal {x v : Val} (hx : Data x) (hv : Data v) : Data (consVal x v) := by
  cases v <;> simp only [consVal] <;> try exact hv
  rw [data_list] at hv ⊢
  intro z hz
  rcases List.mem_cons.mp hz with rfl | hz
  · exact hx
  · exact hv z hz

theorem consVal_acc (acc : List Val) (x v : Val) :
    (match consVal x v with
     | .list out => Val.list (acc.reverse ++ out)
     | e => e) =
    (match v with
     | .list out => Val.list ((x :: acc).reverse ++ out)
     | e => e) := by
  cases v <;> simp [consVal]

/-- How one element's body run looks to the loops. -/
theorem runBody_eq {x : Str} {body : List Instr} {v r : Val} (h : ∀ log, rec (env.bind x v) body true log = outOf r log)
    (log : Log) : runBody rec env x v body log = outOf r log := h log

theorem loop_all (x : Str) (body : List Instr) (g : Val → Val) : ∀ (l : List Val) (log : Log),
    (∀ v ∈ l, ∀ log, rec (env.bind x v) body true log = outOf (g v) log) →
    loopList rec env x body (fun (_ : Unit) _ r => if truthy r then .inr () else .inl (.bool false))
      (fun _ => .bool true) l () log = (allVal g l, log) := by
  intro l
  induction l with
  | nil => intro log _; rfl
  | cons v vs ih =>
    intro log h
    have ih' := ih log (fun w hw => h w (List.mem_cons_of_mem _ hw))
    rw [loopList, runBody_eq (h v (List.mem_cons_self ..)), allVal]
    rcases outOf_cases (g v) log with ⟨k, hk, ho⟩ | ⟨hne, ho⟩
    · rw [ho, hk]; rfl
    · rw [ho, andThen_nonerr hne]
      by_cases ht : truthy (g v) = true <;> simp [ht, ih']

theorem loop_exists (x : Str) (body : List Instr) (g : Val → Val) : ∀ (l : List Val) (log : Log),
    (∀ v ∈ l, ∀ log, rec (env.bind x v) body true log = outOf (g v) log) →
    loopList rec env x body (fun (_ : Unit) _ r => if truthy r then .inl (.bool true) else .inr ())
      (fun _ => .bool false) l () log = (existsVal g l, log) := by
  intro l
  induction l with
  | nil => intro log _; rfl
  | cons v vs ih =>
    intro log h
    have ih' := ih log (fun w hw => h w (List.mem_cons_of_mem _ hw))
    rw [loopList, runBody_eq (h v (List.mem_cons_self ..)), existsVal]
    rcases outOf_cases (g v) log with ⟨k, hk, ho⟩ | ⟨hne, ho⟩
    · rw [ho, hk]; rfl
    · rw [ho, andThen_nonerr hne]
      by_cases ht : truthy (g v) = true <;> simp [ht, ih']

theorem loop_one (x : Str) (body : List Instr) (g : Val → Val) : ∀ (l : List Val) (n : Nat) (log : Log),
    (∀ v ∈ l, ∀ log, rec (env.bind x v) body true log = outOf (g v) log) →
    loopList rec env x body
      (fun (n : Nat) _ r => if truthy r then (if n ≥ 1 then .inl (.bool false) else .inr (n + 1)) else .inr n)
      (fun n => .bool (n == 1)) l n log = (oneVal g l n, log) := by
  intro l
  induction l with
  | nil => intro n log _; rfl
  | cons v vs ih =>
    intro n log h
    have ih' := fun m => ih m log (fun w hw => h w (List.mem_cons_of_mem _ hw))
    rw [loopList, runBody_eq (h v (List.mem_cons_self ..)), oneVal]
    rcases outOf_cases (g v) log with ⟨k, hk, ho⟩ | ⟨hne, ho⟩
    · rw [ho, hk]; rfl
    · rw [ho, andThen_nonerr hne]
      by_cases ht : truthy (g v) = true
      · by_cases hn : n ≥ 1
        · simp [ht, hn]
        · simp [ht, hn, ih']
      · simp [ht, ih']

theorem loop_filter (x : Str) (body : List Instr) (g : Val → Val) : ∀ (l acc : List Val) (log : Log),
    (∀ v ∈ l, ∀ log, rec (env.bind x v) body true log = outOf (g v) log) →
    loopList rec env x body (fun (acc : List Val) v r => .inr (if truthy r then v :: acc else acc))
      (fun acc => .list acc.reverse) l acc log =
      (match filterVal g l with
       | .list out => .list (acc.reverse ++ out)
       | e => e, log) := by
  intro l
  induction l with
  | nil => intro acc log _; simp [loopList, filterVal]
  | cons v vs ih =>
    intro acc log h
    have ih' := fun a => ih a log (fun w hw => h w (List.mem_cons_of_mem _ hw))
    rw [loopList, runBody_eq (h v (List.mem_cons_self ..)), filterVal]
    rcases outOf_cases (g v) log with ⟨k, hk, ho⟩ | ⟨hne, ho⟩
    · rw [ho, hk]; rfl
    · rw [ho, andThen_nonerr hne]
      by_cases ht : truthy (g v) = true
      · simp only [ht, if_true, ih', consVal_acc]
      · simp [ht, ih']

theorem loop_map (x : Str) (body : List Instr) (g : Val → Val) : ∀ (l acc : List Val) (log : Log),
    (∀ v ∈ l, ∀ log, rec (env.bind x v) body true log = outOf (g v) log) →
    loopList rec env x body (fun (acc : List Val) _ r => .inr (r :: acc))
      (fun acc => .list acc.reverse) l acc log =
      (match mapVal g l with
       | .list out => .list (acc.reverse ++ out)
       | e => e, log) := by
  intro l
  induction l with
  | nil => intro acc log _; simp [loopList, mapVal]
  | cons v vs ih =>
    intro acc log h
    have ih' := fun a => ih a log (fun w hw => h w (List.mem_cons_of_mem _ hw))
    rw [loopList, runBody_eq (h v (List.mem_cons_self ..)), mapVal]
    rcases outOf_cases (g v) log with ⟨k, hk, ho⟩ | ⟨hne, ho⟩
    · rw [ho, hk]; rfl
    · rw [ho, andThen_nonerr hne]
      simp only [ih', consVal_acc]

theorem loop_map3 (x : Str) (p e : List Instr) (gp ge : Val → Val) : ∀ (l acc : List Val) (log : Log),
    (∀ v ∈ l, ∀ log, rec (env.bind x v) p true log = outOf (gp v) log) →
    (∀ v ∈ l, ∀ log, rec (env.bind x v) e true log = outOf (ge v) log) →
    loopMap3 rec env x p e l acc log =
      (match map3Val gp ge l with
       | .list out => .list (acc.reverse ++ out)
       | e => e, log) := by
  intro l
  induction l with
  | nil => intro acc log _ _; simp [loopMap3, map3Val]
  | cons v vs ih =>
    intro acc log hp he
    have ih' := fun a => ih a log (fun w hw => hp w (List.mem_cons_of_mem _ hw)) (fun w hw => he w (List.mem_cons_of_mem _ hw))
    rw [loopMap3, runBody_eq (hp v (List.mem_cons_self ..)), map3Val]
    rcases outOf_cases (gp v) log with ⟨k, hk, ho⟩ | ⟨hne, ho⟩
    · rw [ho, hk]; rfl
    · rw [ho, andThen_nonerr hne]
      by_cases ht : truthy (gp v) = true
      · simp only [ht, if_true]
        rw [runBody_eq (he v (List.mem_cons_self ..))]
        rcases outOf_cases (ge v) log with ⟨k, hk2, ho2⟩ | ⟨hne2, ho2⟩
        · rw [ho2, hk2]; rfl
        · rw [ho2, andThen_nonerr hne2]
          simp only [ih', consVal_acc]
      · simp only [ht, if_false, ih']
        simp

theorem loop_filter' (x : Str) (body : List Instr) (g : Val → Val) (l : List Val) (log : Log)
    (h : ∀ v ∈ l, ∀ log, rec (env.bind x v) body true log = outOf (g v) log) :
    loopList rec env x body (fun (acc : List Val) v r => .inr (if truthy r then v :: acc else acc))
      (fun acc => .list acc.reverse) l [] log = (filterVal g l, log) := by
  rw [loop_filter x body g l [] log h]; cases filterVal g l <;> simp

theorem loop_map' (x : Str) (body : List Instr) (g : Val → Val) (l : List Val) (log : Log)
    (h : ∀ v ∈ l, ∀ log, rec (env.bind x v) body true log = outOf (g v) log) :
    loopList rec env x body (fun (acc : List Val) _ r => .inr (r :: acc))
      (fun acc => .list acc.reverse) l [] log = (mapVal g l, log) := by
  rw [loop_map x body g l [] log h]; cases mapVal g l <;> simp

theorem loop_map3' (x : Str) (p e : List Instr) (gp ge : Val → Val) (l : List Val) (log : Log)
    (hp : ∀ v ∈ l, ∀ log, rec (env.bind x v) p true log = outOf (gp v) log)
    (he : ∀ v ∈ l, ∀ log, rec (env.bind x v) e true log = outOf (ge v) log) :
    loopMap3 rec env x p e l [] log = (map3Val gp ge l, log) := by
  rw [loop_map3 x p e gp ge l [] log hp he]; cases map3Val gp ge l <;> simp

theorem loop_reduce (cur nxt : Str) (step : List Instr) (g : Val → Val → Val) (P : Val → Prop) :
    ∀ (l : List Val) (acc : Val) (log : Log), P acc →
    (∀ v ∈ l, ∀ acc, P acc → P (g acc v)) →
    (∀ v ∈ l, ∀ acc, P acc → ∀ log, rec ((env.bind nxt v).bind cur acc) step true log = outOf (g acc v) log) →
    loopReduce rec env cur nxt step l acc log = (reduceVal g l acc, log) := by
  intro l
  induction l with
  | nil => intro acc log _ _ _; rfl
  | cons v vs ih =>
    intro acc log hacc hP h
    rw [loopReduce, h v (List.mem_cons_self ..) acc hacc log, reduceVal]
    rcases outOf_cases (g acc v) log with ⟨k, hk, ho⟩ | ⟨hne, ho⟩
    · rw [ho, hk]; rfl
    · rw [ho, andThen_nonerr hne]
      exact ih _ log (hP v (List.mem_cons_self ..) acc hacc) (fun w hw => hP w (List.mem_cons_of_mem _ hw))
        (fun w hw => h w (List.mem_cons_of_mem _ hw))

theorem loop_coalesce : ∀ (bvs : List (List Instr × Val)) (log : Log),
    (∀ p ∈ bvs, ∀ log, rec env p.1 true log = outOf p.2 log) →
    coalesceLoop rec env (bvs.map (·.1)) log = (coalesceVal (bvs.map (·.2)), log) := by
  intro bvs
  induction bvs with
  | nil => intro log _; rfl
  | cons p ps ih =>
    obtain ⟨c, v⟩ := p
    intro log h
    have h1 := h (c, v) (List.mem_cons_self ..) log
    have ih' := ih log (fun q hq => h q (List.mem_cons_of_mem _ hq))
    simp only [List.map_cons, coalesceLoop, h1]
    cases v <;> simp only [outOf, coalesceVal, ih'] <;> try rfl
    rename_i k
    cases k <;> simp [absentKind, ih', Abort.kind]

/-! data-ness of the folds -/

theorem data_allVal (g : Val → Val) (l : List Val) : Data (allVal g l) := by
  induction l with
  | nil => rfl
  | cons v vs ih =>
    rw [allVal]; apply data_andThen
    split
    · exact ih
    · rfl

theorem data_existsVal (g : Val → Val) (l : List Val) : Data (existsVal g l) := by
  induction l with
  | nil => rfl
  | cons v vs ih =>
    rw [existsVal]; apply data_andThen
    split
    · rfl
    · exact ih

theorem data_oneVal (g : Val → Val) (l : List Val) : ∀ n, Data (oneVal g l n) := by
  induction l with
  | nil => intro n; rfl
  | cons v vs ih =>
    intro n; rw [oneVal]; apply data_andThen
    split
    · split
      · rfl
      · exact ih _
    · exact ih _

theorem data_filterVal (g : Val → Val) (l : List Val) (hl : ∀ v ∈ l, Data v) : Data (filterVal g l) := by
  induction l with
  | nil => rfl
  | cons v vs ih =>
    have ih' := ih (fun w hw => hl w (List.mem_cons_of_mem _ hw))
    rw [filterVal]; apply data_andThen
    split
    · exact data_consVal (hl v (List.mem_cons_self ..)) ih'
    · exact ih'

theorem data_mapVal (g : Val → Val) (l : List Val) (hg : ∀ v ∈ l, Data (g v)) : Data (mapVal g l) := by
  induction l with
  | nil => rfl
  | cons v vs ih =>
    have ih' := ih (fun w hw => hg w (List.mem_cons_of_mem _ hw))
    rw [mapVal]; apply data_andThen
    exact data_consVal (hg v (List.mem_cons_self ..)) ih'

theorem data_map3Val (gp ge : Val → Val) (l : List Val) (hg : ∀ v ∈ l, Data (ge v)) : Data (map3Val gp ge l) := by
  induction l with
  | nil => rfl
  | cons v vs ih =>
    have ih' := ih (fun w hw => hg w (List.mem_cons_of_mem _ hw))
    rw [map3Val]; apply data_andThen
    split
    · apply data_andThen
      exact data_consVal (hg v (List.mem_cons_self ..)) ih'
    · exact ih'

theorem data_reduceVal (g : Val → Val → Val) (l : List Val) (hg : ∀ v ∈ l, ∀ acc, Data acc → Data (g acc v)) :
    ∀ acc, Data acc → Data (reduceVal g l acc) := by
  induction l with
  | nil => intro acc h; exact h
  | cons v vs ih =>
    intro acc h
    rw [reduceVal]; apply data_andThen
    exact ih (fun w hw => hg w (List.mem_cons_of_mem _ hw)) _ (hg v (List.mem_cons_self ..) acc h)

theorem data_coalesceVal (vs : List Val) (h : ∀ v ∈ vs, Data v) : Data (coalesceVal vs) := by
  induction vs with
  | nil => rfl
  | cons v vs ih =>
    have ih' := ih (fun w hw => h w (List.mem_cons_of_mem _ hw))
    have hv := h v (List.mem_cons_self ..)
    cases v <;> simp only [coalesceVal] <;> first | exact hv | exact ih' | skip
    split
    · exact ih'
    · rfl

theorem data_hasVal (v : Val) : Data (hasVal v) := by
  cases v <;> simp only [hasVal] <;> first | rfl | skip
  split <;> rfl

theorem data_rangeOf {allowMap : Bool} {this : Val} {l : List Val} (ht : Data this)
    (h : rangeOf allowMap this = some l) : ∀ v ∈ l, Data v := by
  cases this with
  | list l' =>
    simp only [rangeOf, Option.some.injEq] at h
    subst h
    exact data_list.mp ht
  | map m =>
    simp only [rangeOf] at h
    split at h
    · cases h
      intro v hv
      obtain ⟨p, _, rfl⟩ := List.mem_map.mp hv
      rfl
    · cases h
  | _ => simp [rangeOf] at h

end

end Seq
end Rscel
