import RscelModel.Lemmas.Seq
/-
Sequencing lemmas, part 2: the well-formedness invariant "values are data" (no identifier and no code
block at any depth — such a value is returned unchanged by every `pop`, is never run by `resolve_args`,
and every element taken out of it is data again), the environments and built-ins that preserve it, and
the instruction-level lemmas for MKDICT, INDEX, ACCESS, CALL and FMT.
-/
set_option autoImplicit false
namespace Rscel
namespace Seq

/-! ### data values -/

mutual
/-- No `.ident` and no `.code` at any depth. -/
def isData : Val → Bool
  | .ident _ => false
  | .code _ => false
  | .list l => isDataList l
  | .map m => isDataMap m
  | _ => true
def isDataList : List Val → Bool
  | [] => true
  | x :: xs => isData x && isDataList xs
def isDataMap : List (Str × Val) → Bool
  | [] => true
  | (_, x) :: xs => isData x && isDataMap xs
end

/-- `v` is plain data. -/
def Data (v : Val) : Prop := isData v = true

theorem isDataList_iff (l : List Val) : isDataList l = true ↔ ∀ x ∈ l, Data x := by
  induction l with
  | nil => simp [isDataList]
  | cons x xs ih => simp [isDataList, ih, Data]

theorem isDataMap_iff (m : List (Str × Val)) : isDataMap m = true ↔ ∀ p ∈ m, Data p.2 := by
  induction m with
  | nil => simp [isDataMap]
  | cons p ps ih => obtain ⟨k, x⟩ := p; simp [isDataMap, ih, Data]

theorem data_list {l : List Val} : Data (.list l) ↔ ∀ x ∈ l, Data x := by
  simp only [Data, isData]; exact isDataList_iff l

theorem data_map {m : List (Str × Val)} : Data (.map m) ↔ ∀ p ∈ m, Data p.2 := by
  simp only [Data, isData]; exact isDataMap_iff m

theorem Data.plain {v : Val} (h : Data v) : Plain v := by
  intro n hn; subst hn; simp [Data, isData] at h

theorem data_err (k : ErrKind) : Data (.err k) := rfl
theorem data_bool (b : Bool) : Data (.bool b) := rfl
theorem data_null : Data .null := rfl
theorem data_str (s : Str) : Data (.str s) := rfl

theorem data_of_boe {v : Val} (h : BoolOrErr v) : Data v := by
  rcases h with ⟨b, rfl⟩ | ⟨k, rfl⟩ <;> rfl

theorem data_vTest (v : Val) : Data (vTest v) := data_of_boe (boolOrErr_vTest v)
theorem data_vNot (v : Val) : Data (vNot v) := data_of_boe (boolOrErr_vNot v)

theorem data_narrowI (r : Int) : Data (narrowI r) := by unfold narrowI; split <;> rfl
theorem data_narrowU (r : Int) : Data (narrowU r) := by unfold narrowU; split <;> rfl
theorem data_narrowTs (r : Int) : Data (narrowTs r) := by unfold narrowTs; split <;> rfl
theorem data_narrowDur (r : Int) : Data (narrowDur r) := by unfold narrowDur; split <;> rfl

theorem data_neg (v : Val) : Data (neg v) := by
  cases v <;> simp [neg, Data, isData]
  exact data_narrowI _

theorem data_errProp {f : Val → Val → Val} {a b : Val} (hf : Data (f a b)) : Data (errProp a b f) := by
  unfold errProp
  split
  · rfl
  · split
    · rfl
    · exact hf

theorem data_vAnd (a b : Val) : Data (vAnd a b) := data_errProp rfl
theorem data_vOr (a b : Val) : Data (vOr a b) := by
  unfold vOr
  split
  · split <;> rfl
  · split <;> rfl
  · rfl

theorem data_valEq (a b : Val) : Data (valEq a b) := data_of_boe (boe_valEq a b)
theorem data_valNe (a b : Val) : Data (valNe a b) := data_of_boe (boe_valNe a b)
theorem data_rel (op : RelOp) (a b : Val) : Data (rel op a b) := data_of_boe (boe_rel op a b)
theorem data_cmp (op : CmpOp) (a b : Val) : Data (op.apply a b) := data_of_boe (boe_cmp op a b)

theorem data_inOp (a b : Val) : Data (inOp a b) := by
  unfold inOp
  apply data_errProp
  split <;> rfl

theorem widen_list_left {l r l' r' : Val} (h : widen l r = (l', r')) {a : List Val} (hl : l' = .list a) :
    l = .list a := by
  subst hl
  cases l <;> cases r <;> simp [widen] at h <;> (try split at h) <;> simp_all

theorem widen_list_right {l r l' r' : Val} (h : widen l r = (l', r')) {a : List Val} (hr : r' = .list a) :
    r = .list a := by
  subst hr
  cases l <;> cases r <;> simp [widen] at h <;> (try split at h) <;> simp_all

theorem data_arith (op : ArithOp) {a b : Val} (ha : Data a) (hb : Data b) : Data (arith op a b) := by
  unfold arith
  apply data_errProp
  unfold arithCore
  split
  · unfold intArm; split <;> first | rfl | exact data_narrowI _
  · unfold intArm; split <;> first | rfl | exact data_narrowI _
  · unfold intArm; split <;> first | rfl | exact data_narrowI _
  · unfold uintArm; split <;> first | rfl | exact data_narrowU _
  · split <;> rfl
  · rename_i l' r' _ _ _ _ _ hw
    unfold otherArm
    split <;> first | rfl | exact data_narrowTs _ | exact data_narrowDur _ | skip
    rename_i x y
    have h1 := widen_list_left hw rfl
    have h2 := widen_list_right hw rfl
    subst h1 h2
    rw [data_list] at ha hb ⊢
    intro z hz
    rcases List.mem_append.mp hz with h | h
    · exact ha z h
    · exact hb z h

theorem data_apply (op : BinOp) {a b : Val} (ha : Data a) (hb : Data b) : Data (op.apply a b) := by
  cases op <;> simp only [BinOp.apply]
  · exact data_vOr _ _
  · exact data_vAnd _ _
  · exact data_rel _ _ _
  · exact data_rel _ _ _
  · exact data_rel _ _ _
  · exact data_rel _ _ _
  · exact data_valEq _ _
  · exact data_valNe _ _
  · exact data_inOp _ _
  · exact data_arith _ ha hb
  · exact data_arith _ ha hb
  · exact data_arith _ ha hb
  · exact data_arith _ ha hb
  · exact data_arith _ ha hb

theorem data_applyN {f : Val → Val} (hf : ∀ v, Data (f v)) {v : Val} (hv : Data v) (n : Nat) :
    Data (applyN f n v) := by
  cases n with
  | zero => exact hv
  | succ n => exact hf _

theorem data_getD {l : List Val} (hl : ∀ x ∈ l, Data x) (n : Nat) : Data (l.getD n .null) := by
  rw [List.getD_eq_getElem?_getD]
  cases h : l[n]? with
  | none => rfl
  | some x => exact hl x (List.mem_of_getElem? h)

theorem data_mapGet {m : VMap} (hm : ∀ p ∈ m, Data p.2) {k : Str} {v : Val} (h : Map.get m k = some v) :
    Data v := by
  induction m with
  | nil => simp [Map.get] at h
  | cons p ps ih =>
    obtain ⟨k', v'⟩ := p
    simp only [Map.get] at h
    split at h
    · cases h; exact hm _ (List.mem_cons_self ..)
    · exact ih (fun q hq => hm q (List.mem_cons_of_mem _ hq)) h

theorem data_index {o i : Val} (ho : Data o) : Data (index o i) := by
  unfold index
  apply data_errProp
  split
  · split
    · rfl
    · exact data_getD (data_list.mp ho) _
  · split
    · dsimp only
      split
      · rfl
      · exact data_getD (data_list.mp ho) _
    · split
      · rfl
      · exact data_getD (data_list.mp ho) _
  · rfl
  · split
    · rename_i v hv; exact data_mapGet (data_map.mp ho) hv
    · rfl
  · rfl
  · rfl

theorem data_fieldOf {o : Val} (ho : Data o) (name : Str) : Data (fieldOf o name) := by
  unfold fieldOf
  split
  · rfl
  · split
    · rename_i v hv
      unfold fieldEntry at hv
      split at hv
      · exact data_mapGet (data_map.mp ho) hv
      · cases hv
    · rfl

theorem data_mapInsert {m : VMap} (hm : ∀ p ∈ m, Data p.2) (k : Str) {v : Val} (hv : Data v) :
    ∀ p ∈ Map.insert m k v, Data p.2 := by
  induction m with
  | nil => intro p hp; simp [Map.insert] at hp; subst hp; exact hv
  | cons q qs ih =>
    obtain ⟨k', v'⟩ := q
    intro p hp
    simp only [Map.insert] at hp
    split at hp
    · rcases List.mem_cons.mp hp with rfl | hp
      · exact hv
      · exact hm p hp
    · split at hp
      · rcases List.mem_cons.mp hp with rfl | hp
        · exact hm _ (List.mem_cons_self ..)
        · exact ih (fun q hq => hm q (List.mem_cons_of_mem _ hq)) p hp
      · rcases List.mem_cons.mp hp with rfl | hp
        · exact hv
        · exact hm p (List.mem_cons_of_mem _ hp)

theorem data_foldInsert (es : List (Str × Val)) (hes : ∀ p ∈ es, Data p.2) :
    ∀ m : VMap, (∀ p ∈ m, Data p.2) → ∀ p ∈ es.foldl (fun m e => Map.insert m e.1 e.2) m, Data p.2 := by
  induction es with
  | nil => intro m hm; simpa using hm
  | cons e es ih =>
    intro m hm
    simp only [List.foldl_cons]
    exact ih (fun p hp => hes p (List.mem_cons_of_mem _ hp)) _
      (data_mapInsert hm _ (hes e (List.mem_cons_self ..)))

theorem strKeys_mem {kvs : List (Val × Val)} {es : List (Str × Val)} (h : strKeys kvs = some es) :
    ∀ p ∈ es, ∃ q ∈ kvs, q.2 = p.2 := by
  induction kvs generalizing es with
  | nil => simp [strKeys] at h; subst h; simp
  | cons q qs ih =>
    obtain ⟨k, v⟩ := q
    cases k <;> simp only [strKeys] at h <;> try cases h
    rename_i s
    cases hr : strKeys qs with
    | none => simp [hr] at h
    | some es' =>
      simp only [hr, Option.map_some, Option.some.injEq] at h
      subst h
      intro p hp
      rcases List.mem_cons.mp hp with rfl | hp
      · exact ⟨_, List.mem_cons_self .., rfl⟩
      · obtain ⟨q, hq, e⟩ := ih hr p hp
        exact ⟨q, List.mem_cons_of_mem _ hq, e⟩

theorem data_mkMap {kvs : List (Val × Val)} (h : ∀ q ∈ kvs, Data q.2) : Data (mkMap kvs) := by
  unfold mkMap
  split
  · rename_i es hes
    rw [data_map]
    apply data_foldInsert es _ [] (by simp)
    intro p hp
    obtain ⟨q, hq, e⟩ := strKeys_mem hes p hp
    rw [← e]; exact h q hq
  · rfl

theorem data_fmtVal (vs : List Val) : Data (fmtVal vs) := by
  unfold fmtVal; split <;> rfl

theorem data_ternVal {vc vt vf : Val} (ht : Data vt) (hf : Data vf) : Data (ternVal vc vt vf) := by
  unfold ternVal
  split
  · rfl
  · split <;> assumption

theorem data_chainVal {wf : Bool} {f : Val → Val → Val} (hf : ∀ a b, Data (f a b)) :
    ∀ (vs : List Val) (x : Val), Data x → Data (chainVal wf f x vs) := by
  intro vs
  induction vs with
  | nil => intro x hx; exact hx
  | cons v vs ih =>
    intro x hx
    simp only [chainVal]
    split
    · exact data_vTest _
    · exact ih _ (hf _ _)

/-! ### environments and built-ins that keep values data -/

/-- The environments of the theorems of `C05Compile2`: no stored programs, bindings present, no functions
    bound by the caller, every parameter bound to plain data. -/
structure EnvOK (env : Env) : Prop where
  noProgs : NoProgs env
  binds : env.hasBinds = true
  noUser : env.userFns = []
  params : ∀ n v, env.getParam n = some v → Data v

/-- Built-in functions and constructors return data when given data. -/
structure BuiltinsOK (B : Builtins) : Prop where
  func : ∀ name f this args, B.func name = some f → Data this → (∀ a ∈ args, Data a) → Data (f this args)
  ctor : ∀ tn args, (∀ a ∈ args, Data a) → Data (B.ctor tn args)

theorem EnvOK.plainParams {env : Env} (h : EnvOK env) : PlainParams env :=
  fun n v hv => (h.params n v hv).plain

theorem EnvOK.bind {env : Env} (h : EnvOK env) (x : Str) {v : Val} (hv : Data v) : EnvOK (env.bind x v) := by
  refine ⟨?_, h.binds, h.noUser, ?_⟩
  · intro n; exact h.noProgs n
  · intro n w hw
    simp only [Env.getParam, Env.bind, h.binds, if_true, lookup] at hw
    split at hw
    · cases hw; exact hv
    · exact h.params n w (by simpa [Env.getParam, h.binds] using hw)

theorem data_getType {env : Env} {n : Str} {t : Val} (h : env.getType n = some t) : Data t := by
  unfold Env.getType typeByName at h
  split at h
  · rw [Option.map_eq_some_iff] at h
    obtain ⟨_, _, rfl⟩ := h
    rfl
  · cases h

theorem data_resolveIdent {env : Env} (h : EnvOK env) (n : Str) : Data (resolveIdent env n) := by
  unfold resolveIdent
  split
  · rename_i t ht; exact data_getType ht
  · split
    · rename_i v hv; exact h.params n v hv
    · rfl

theorem isMacro_default {env : Env} {name : Str} (h : env.isMacro name = true) :
    defaultMacros.any (·.toList = name) = true := by
  unfold Env.isMacro at h
  simp only [Bool.and_eq_true] at h
  obtain ⟨_, h⟩ := h
  split at h
  · simp only [compileMacros, defaultMacros, List.any_cons, List.any_nil, Bool.or_false, Bool.or_eq_true,
      decide_eq_true_eq] at h ⊢
    rcases h with h | h | h | h | h | h <;> simp [h]
  · exact h

theorem callable_none {B : Builtins} {env : Env} (h : EnvOK env) {name : Str}
    (hn : callableName B name = false) : env.callable B name = none := by
  simp only [callableName, Bool.or_eq_false_iff] at hn
  obtain ⟨h1, h2⟩ := hn
  have hm : env.isMacro name = false := by
    cases hh : env.isMacro name
    · rfl
    · rw [isMacro_default hh] at h2; cases h2
  simp [Env.callable, Env.getFunc, h.binds, h.noUser, lookup, h1, hm]

theorem getFunc_eq {B : Builtins} {env : Env} (h : EnvOK env) (name : Str) :
    env.getFunc B name = if (B.func name).isSome then some (.builtin name) else none := by
  simp [Env.getFunc, h.binds, h.noUser, lookup]

/-! ### more single instructions -/

section
variable {B : Builtins} {rec top : Rec} {env : Env}

/-- `l; r; OP` when the result of this application is not an identifier. -/
theorem runs_binop' (hnp : NoProgs env) {i : Instr} {f : Val → Val → Val}
    (hi : ∀ len pc s, step B rec top env len i pc s = liftNext pc (binop rec f env s))
    {l r : List Instr} {a b : Val} (hf : Plain (f a b))
    (hl : Runs B rec top env l a) (hr : Runs B rec top env r b) :
    Runs B rec top env (l ++ r ++ [i]) (f a b) := by
  obtain ⟨wl, kl, rfl, hkl, gl⟩ := hl
  obtain ⟨wr, kr, rfl, hkr, gr⟩ := hr
  refine ⟨f (resolve env wl) (resolve env wr), kl + kr + 1, resolve_plain hf, by simp <;> omega, ?_⟩
  rw [List.append_assoc]
  have g1 := gl.head_app (r ++ [i])
  have g2 := (((gr.head_app [i]).skip_app l).frame [.val wl])
  have g3 := ((go_binop hnp hi wl wr []).skip_app r).skip_app l
  exact ((g1.trans (g2.cast rfl (by omega) rfl)).trans (g3.cast rfl (by omega) rfl)).cast rfl rfl (by simp <;> omega)

theorem step_index (len pc : Nat) (s : St) :
    step B rec top env len .index pc s = liftNext pc (binop rec index env s) := rfl

/-- `o; i; INDEX`. -/
theorem runs_index (hnp : NoProgs env) {l r : List Instr} {o i : Val} (ho : Data o)
    (hl : Runs B rec top env l o) (hr : Runs B rec top env r i) :
    Runs B rec top env (l ++ r ++ [.index]) (index o i) :=
  runs_binop' hnp step_index (data_index ho).plain hl hr

/-! ### MKDICT -/

/-- The code order of a map literal's children: value, key, value, key, … -/
def interleaveKV {α : Type} : List (α × α) → List α
  | [] => []
  | (k, v) :: rest => v :: k :: interleaveKV rest

theorem interleaveKV_append {α : Type} (a b : List (α × α)) :
    interleaveKV (a ++ b) = interleaveKV a ++ interleaveKV b := by
  induction a with
  | nil => rfl
  | cons p ps ih => obtain ⟨k, v⟩ := p; simp [interleaveKV, ih]

theorem interleaveKV_length {α : Type} (a : List (α × α)) : (interleaveKV a).length = 2 * a.length := by
  induction a with
  | nil => rfl
  | cons p ps ih => obtain ⟨k, v⟩ := p; simp [interleaveKV, ih]; omega

theorem interleaveKV_map {α β : Type} (f : α → β) (a : List (α × α)) :
    (interleaveKV a).map f = interleaveKV (a.map (fun p => (f p.1, f p.2))) := by
  induction a with
  | nil => rfl
  | cons p ps ih => obtain ⟨k, v⟩ := p; simp [interleaveKV, ih]

/-- What `popEntries` collects from the popped values, top of the stack first: key, value, key, value, … -/
def flatEntries : List Val → Option (List (Str × Val))
  | k :: v :: rest =>
    (match k, flatEntries rest with
     | .str key, some es => some ((key, v) :: es)
     | _, _ => none)
  | _ => some []

theorem popEntries_resolve (hnp : NoProgs env) : ∀ (n : Nat) (ws : List Val), ws.length = 2 * n →
    ∀ (st : List SVal) (log : Log),
    popEntries rec env n { stack := ws.map .val ++ st, log := log } =
      .ok (flatEntries (ws.map (resolve env))) { stack := st, log := log } := by
  intro n
  induction n with
  | zero =>
    intro ws h st log
    have : ws = [] := List.eq_nil_of_length_eq_zero (by omega)
    subst this; simp [popEntries, flatEntries]
  | succ n ih =>
    intro ws h st log
    match ws, h with
    | k :: v :: rest, h =>
      have hr : rest.length = 2 * n := by simp at h; omega
      simp only [popEntries, List.map_cons, List.cons_append, popV_resolve hnp, ih rest hr, flatEntries]
      cases resolve env k <;> (try rfl)
      cases flatEntries (rest.map (resolve env)) <;> rfl

theorem strKeys_append (a b : List (Val × Val)) :
    strKeys (a ++ b) = match strKeys a, strKeys b with
      | some x, some y => some (x ++ y)
      | _, _ => none := by
  induction a with
  | nil => simp only [List.nil_append, strKeys]; cases strKeys b <;> rfl
  | cons p ps ih =>
    obtain ⟨k, v⟩ := p
    cases k <;> simp only [List.cons_append, strKeys] <;> try (cases strKeys b <;> rfl)
    rw [ih]
    cases strKeys ps <;> cases strKeys b <;> rfl

theorem strKeys_reverse (a : List (Val × Val)) : strKeys a.reverse = (strKeys a).map List.reverse := by
  induction a with
  | nil => rfl
  | cons p ps ih =>
    obtain ⟨k, v⟩ := p
    rw [List.reverse_cons, strKeys_append, ih]
    cases k <;> simp only [strKeys] <;> (try (cases strKeys ps <;> simp))

/-- The popped values of `MKDICT` are the reversed code order, and give the entries last pair first. -/
theorem flatEntries_interleave' (R : List (Val × Val)) :
    flatEntries (interleaveKV R.reverse).reverse = strKeys R := by
  induction R with
  | nil => rfl
  | cons p ps ih =>
    obtain ⟨k, v⟩ := p
    rw [List.reverse_cons, interleaveKV_append, List.reverse_append]
    simp only [interleaveKV, List.reverse_cons, List.reverse_nil, List.nil_append, List.cons_append,
      flatEntries, ih]
    cases k <;> try rfl
    simp only [strKeys]
    cases strKeys ps <;> rfl

theorem flatEntries_interleave (kvs : List (Val × Val)) :
    flatEntries (interleaveKV kvs).reverse = strKeys kvs.reverse := by
  have := flatEntries_interleave' kvs.reverse
  rwa [List.reverse_reverse] at this

theorem go_mkDict (hnp : NoProgs env) (n : Nat) (ws : List Val) (hws : ws.length = 2 * n) (r : List Instr) :
    Go B rec top env (.mkDict n :: r) 1 0 (ws.map .val) 1
      [.val (match flatEntries (ws.map (resolve env)) with
        | some es => .map (Map.ofList es.reverse)
        | none => .err .value)] :=
  Go.instr (fun pre post st log => by
    simp only [step, popEntries_resolve hnp n ws hws]
    cases flatEntries (ws.map (resolve env)) <;> simp [pushV])

/-- `v₁; k₁; …; vₙ; kₙ; MKDICT n`: the map of the entries in source order (`mkMap`). -/
theorem runs_mkDict (hnp : NoProgs env) (kvs : List ((List Instr × Val) × (List Instr × Val)))
    (hk : ∀ p ∈ kvs, Runs B rec top env p.1.1 p.1.2) (hv : ∀ p ∈ kvs, Runs B rec top env p.2.1 p.2.2) :
    Runs B rec top env (((interleaveKV kvs).map (·.1)).flatten ++ [.mkDict kvs.length])
      (mkMap (kvs.map (fun p => (p.1.2, p.2.2)))) := by
  have hcv : ∀ p ∈ interleaveKV kvs, Runs B rec top env p.1 p.2 := by
    intro p hp
    induction kvs with
    | nil => simp [interleaveKV] at hp
    | cons q qs ih =>
      obtain ⟨k, v⟩ := q
      simp only [interleaveKV, List.mem_cons] at hp
      rcases hp with rfl | rfl | hp
      · exact hv _ (List.mem_cons_self ..)
      · exact hk _ (List.mem_cons_self ..)
      · exact ih (fun p hp => hk p (List.mem_cons_of_mem _ hp)) (fun p hp => hv p (List.mem_cons_of_mem _ hp)) hp
  obtain ⟨ws, k, hws, hkl, g⟩ := go_seq (interleaveKV kvs) hcv
  have hlen : ws.reverse.length = 2 * kvs.length := by
    have := congrArg List.length hws
    simp only [List.length_map, interleaveKV_length] at this
    simpa using this
  have hval : (match flatEntries (ws.reverse.map (resolve env)) with
        | some es => Val.map (Map.ofList es.reverse)
        | none => .err .value) = mkMap (kvs.map (fun p => (p.1.2, p.2.2))) := by
    rw [List.map_reverse, hws, interleaveKV_map, flatEntries_interleave, strKeys_reverse]
    unfold mkMap
    cases strKeys (kvs.map (fun p => (p.1.2, p.2.2))) <;> simp only [Option.map_none, Option.map_some, List.reverse_reverse]
  refine ⟨_, k + 1, resolve_plain ?_, by simp only [List.length_append, List.length_cons, List.length_nil]; omega, ?_⟩
  · intro n hn
    have : Plain (mkMap (kvs.map (fun p => (p.1.2, p.2.2)))) := by
      unfold mkMap; split <;> (intro _ h; cases h)
    exact this n hn
  · have g1 := g.head_app [.mkDict kvs.length]
    have g2 := (go_mkDict (B := B) (rec := rec) (top := top) hnp kvs.length ws.reverse hlen []).skip_app
      ((interleaveKV kvs).map (·.1)).flatten
    rw [hval] at g2
    exact (g1.trans (g2.cast rfl (by omega) rfl)).cast rfl rfl (by simp)

/-- Compile-time construction gives the same map. -/
theorem foldMap_eq_mkMap (kvs : List (Val × Val)) : ∀ m : VMap,
    foldMap (interleaveKV kvs) m = match strKeys kvs with
      | some es => .map (es.foldl (fun m e => Map.insert m e.1 e.2) m)
      | none => .err .value := by
  induction kvs with
  | nil => intro m; simp [interleaveKV, foldMap, strKeys]
  | cons p ps ih =>
    obtain ⟨k, v⟩ := p
    intro m
    cases k <;> simp only [interleaveKV, foldMap, strKeys]
    rw [ih]
    cases strKeys ps <;> simp

theorem foldMap_nil_eq_mkMap (kvs : List (Val × Val)) : foldMap (interleaveKV kvs) [] = mkMap kvs := by
  rw [foldMap_eq_mkMap]; rfl

end

end Seq
end Rscel
