import RscelModel.Model.Compile
/-
The unresolved-name flag is write-only for the VM.

`Interpreter::unresolved` (model: the reserved log entry `unresMarker`, appended by `markUnres` when the
environment has `trackUnres`) is set by the VM and read by nobody but `check_for_const`.  So a run in an
environment that records the flag and the run in the same environment without recording it (`Env.untracked`)
take the same steps, on the same stacks, to the same result — whatever the two logs are (the VM only ever
appends to a log).  This is what lets the theorems about compiled code (`Lemmas/Seq*.lean`,
`Theorems/C05Compile2.lean`: "the log stays as it is") speak about run-time environments only and still
cover the compile-time run of `check_for_const`:

  `runAt_untracked`      `(runAt B b env code r log).res = (runAt B b env.untracked code r log').res`
  `compileRun_untracked` the instance for `compileEnv` / `compileEnv0`
  `checkForConst_const`  a call that `check_for_const` folded to `v`: the marker-free twin of the
                         compile-time run returned `v`, and the run itself left no marker
  `checkForConst_cases`  the three outcomes of `check_for_const`

Also here: the markers are the only thing the flag adds to a log (`eraseLog`, `markUnres_erase`) and
run-time environments never record one (`markUnres_runtime`).
-/
set_option autoImplicit false
namespace Rscel

/-- The same interpreter, not recording the unresolved-name flag. -/
def Env.untracked (e : Env) : Env := { e with trackUnres := false }

@[simp] theorem Env.untracked_trackUnres (e : Env) : e.untracked.trackUnres = false := rfl
@[simp] theorem Env.untracked_hasBinds (e : Env) : e.untracked.hasBinds = e.hasBinds := rfl
@[simp] theorem Env.untracked_compileMode (e : Env) : e.untracked.compileMode = e.compileMode := rfl
@[simp] theorem Env.untracked_getType (e : Env) (n : Str) : e.untracked.getType n = e.getType n := rfl
@[simp] theorem Env.untracked_getParam (e : Env) (n : Str) : e.untracked.getParam n = e.getParam n := rfl
@[simp] theorem Env.untracked_getProg (e : Env) (n : Str) : e.untracked.getProg n = e.getProg n := rfl
@[simp] theorem Env.untracked_isMacro (e : Env) (n : Str) : e.untracked.isMacro n = e.isMacro n := rfl
@[simp] theorem Env.untracked_getFunc (B : Builtins) (e : Env) (n : Str) :
    e.untracked.getFunc B n = e.getFunc B n := rfl
@[simp] theorem Env.untracked_callable (B : Builtins) (e : Env) (n : Str) :
    e.untracked.callable B n = e.callable B n := rfl
@[simp] theorem Env.untracked_bind (e : Env) (k : Str) (v : Val) :
    (e.bind k v).untracked = e.untracked.bind k v := rfl
theorem Env.untracked_of_untracked {e : Env} (h : e.trackUnres = false) : e.untracked = e := by
  cases e; simp only [Env.untracked] at *; simp [h]

/-- A run-time environment (anything but the interpreter of `check_for_const`) records no marker. -/
theorem markUnres_runtime {env : Env} (h : env.trackUnres = false) (l : Log) : markUnres env l = l :=
  markUnres_untracked h l

/-- The compile-time environment without the flag: what the theorems about compiled code are applied to. -/
def compileEnv0 : Env := compileEnv.untracked

/-- A log without its markers. -/
def eraseLog (l : Log) : Log := l.filter (fun e => !e.isMarker)

theorem markUnres_erase (env : Env) (l : Log) : eraseLog (markUnres env l) = eraseLog l := by
  unfold markUnres eraseLog
  split
  · simp [List.filter_append, LogEntry.isMarker]
  · rfl

theorem metUnres_markUnres {env : Env} (h : env.trackUnres = true) (l : Log) : (markUnres env l).metUnres = true := by
  simp [markUnres, h, Log.metUnres, LogEntry.isMarker]

namespace Unres

/-- Two results that agree but for their logs. -/
def RSim {α : Type} : R α → R α → Prop
  | .ok a s, .ok a' s' => a = a' ∧ s.stack = s'.stack
  | .fail e _, .fail e' _ => e = e'
  | _, _ => False

/-- `rec'` run without the flag (on any log) returns what `rec` returns. -/
def Twin (rec rec' : Rec) : Prop :=
  ∀ env code r log log', (rec env code r log).res = (rec' env.untracked code r log').res

/-- Results of `resolveArgs` that agree but for their logs. -/
def ESim : Except (Abort × Log) (List Val × Log) → Except (Abort × Log) (List Val × Log) → Prop
  | .ok (vs, _), .ok (vs', _) => vs = vs'
  | .error (a, _), .error (a', _) => a = a'
  | _, _ => False

section
variable {B : Builtins} {rec rec' top top' : Rec} {env : Env}

theorem popS_sim (hT : Twin rec rec') {s s' : St} (hs : s.stack = s'.stack) :
    RSim (popS rec env s) (popS rec' env.untracked s') := by
  obtain ⟨stk, log⟩ := s
  obtain ⟨stk', log'⟩ := s'
  simp only at hs
  subst hs
  unfold popS
  cases stk with
  | nil => simp [RSim]
  | cons x rest =>
    cases x with
    | bound c t => simp [RSim]
    | val v =>
      cases v
      case ident name =>
        simp only [Env.untracked_getType, Env.untracked_getParam, Env.untracked_getProg]
        cases env.getType name <;> simp [RSim]
        cases env.getParam name <;> simp
        cases env.getProg name <;> simp
        rename_i code
        rw [hT env code true log log']
        cases (rec' env.untracked code true log').res <;> simp
      all_goals simp [RSim]

theorem popV_sim (hT : Twin rec rec') {s s' : St} (hs : s.stack = s'.stack) :
    RSim (popV rec env s) (popV rec' env.untracked s') := by
  have h := popS_sim (env := env) hT hs
  unfold popV
  generalize popS rec env s = r1 at h ⊢
  generalize popS rec' env.untracked s' = r2 at h ⊢
  cases r1 <;> cases r2 <;> simp only [RSim] at h
  · rename_i a s1 a' s2
    obtain ⟨rfl, h2⟩ := h
    cases a <;> simp [RSim, h2]
  · subst h; simp [RSim]

theorem popRaw_sim {s s' : St} (hs : s.stack = s'.stack) : RSim (popRaw s) (popRaw s') := by
  obtain ⟨stk, log⟩ := s
  obtain ⟨stk', log'⟩ := s'
  simp only at hs
  subst hs
  unfold popRaw
  cases stk <;> simp [RSim]

theorem popN_sim (hT : Twin rec rec') : ∀ (n : Nat) {s s' : St}, s.stack = s'.stack →
    RSim (popN rec env n s) (popN rec' env.untracked n s')
  | 0, s, s', hs => by simp [popN, RSim, hs]
  | n + 1, s, s', hs => by
    have h := popV_sim (env := env) hT hs
    unfold popN
    generalize popV rec env s = r1 at h ⊢
    generalize popV rec' env.untracked s' = r2 at h ⊢
    cases r1 <;> cases r2 <;> simp only [RSim] at h
    · rename_i a s1 a' s2
      obtain ⟨rfl, h2⟩ := h
      have ih := popN_sim hT n h2
      simp only
      generalize popN rec env n s1 = q1 at ih ⊢
      generalize popN rec' env.untracked n s2 = q2 at ih ⊢
      cases q1 <;> cases q2 <;> simp only [RSim] at ih
      · obtain ⟨rfl, h3⟩ := ih; simp [RSim, h3]
      · subst ih; simp [RSim]
    · subst h; simp [RSim]

theorem resolveArgs_sim (hT : Twin rec rec') : ∀ (args : List Val) (log log' : Log),
    ESim (resolveArgs rec env args log) (resolveArgs rec' env.untracked args log')
  | [], log, log' => by simp [resolveArgs, ESim]
  | a :: rest, log, log' => by
    have tail : ∀ (v : Val) (l l' : Log),
        ESim (match resolveArgs rec env rest l with
              | .error e => .error e
              | .ok (vs, l2) => .ok (v :: vs, l2))
             (match resolveArgs rec' env.untracked rest l' with
              | .error e => .error e
              | .ok (vs, l2) => .ok (v :: vs, l2)) := by
      intro v l l'
      have ih := resolveArgs_sim hT rest l l'
      generalize resolveArgs rec env rest l = q1 at ih ⊢
      generalize resolveArgs rec' env.untracked rest l' = q2 at ih ⊢
      rcases q1 with ⟨a1, l1⟩ | ⟨vs1, l1⟩ <;> rcases q2 with ⟨a2, l2⟩ | ⟨vs2, l2⟩ <;> simp only [ESim] at ih ⊢
      · exact ih
      · rw [ih]
    cases a
    case code c =>
      simp only [resolveArgs]
      rw [hT env c true log log']
      cases (rec' env.untracked c true log').res with
      | error e => simp [ESim]
      | ok v => exact tail v _ _
    all_goals (simp only [resolveArgs]; exact tail _ _ _)

theorem evalIdent_sim (hT : Twin top top') (block : List Instr) : evalIdent top block = evalIdent top' block := by
  unfold evalIdent
  have := hT { hasCtx := false, hasBinds := false } block false [] []
  simp only [Env.untracked] at this
  simp only [this]

theorem loopList_sim (hT : Twin rec rec') {σ : Type} (x : Str) (body : List Instr)
    (k : σ → Val → Val → Sum Val σ) (fin : σ → Val) : ∀ (l : List Val) (acc : σ) (log log' : Log),
    (loopList rec env x body k fin l acc log).1 = (loopList rec' env.untracked x body k fin l acc log').1
  | [], acc, log, log' => by simp [loopList]
  | v :: vs, acc, log, log' => by
    simp only [loopList, runBody]
    rw [hT (env.bind x v) body true log log']
    simp only [Env.untracked_bind]
    cases (rec' (env.untracked.bind x v) body true log').res with
    | error a => rfl
    | ok r =>
      simp only
      cases k acc v r with
      | inl res => rfl
      | inr acc' => exact loopList_sim hT x body k fin vs acc' _ _

theorem loopMap3_sim (hT : Twin rec rec') (x : Str) (p e : List Instr) : ∀ (l acc : List Val) (log log' : Log),
    (loopMap3 rec env x p e l acc log).1 = (loopMap3 rec' env.untracked x p e l acc log').1
  | [], acc, log, log' => by simp [loopMap3]
  | v :: vs, acc, log, log' => by
    simp only [loopMap3, runBody]
    rw [hT (env.bind x v) p true log log']
    simp only [Env.untracked_bind]
    cases (rec' (env.untracked.bind x v) p true log').res with
    | error a => rfl
    | ok r =>
      simp only
      by_cases ht : truthy r = true
      · simp only [ht, if_true]
        rw [hT (env.bind x v) e true _ (rec' (env.untracked.bind x v) p true log').log]
        simp only [Env.untracked_bind]
        cases (rec' (env.untracked.bind x v) e true (rec' (env.untracked.bind x v) p true log').log).res with
        | error a => rfl
        | ok r2 => exact loopMap3_sim hT x p e vs _ _ _
      · simp only [ht]
        exact loopMap3_sim hT x p e vs _ _ _

theorem loopReduce_sim (hT : Twin rec rec') (cur nxt : Str) (stp : List Instr) :
    ∀ (l : List Val) (acc : Val) (log log' : Log),
    (loopReduce rec env cur nxt stp l acc log).1 = (loopReduce rec' env.untracked cur nxt stp l acc log').1
  | [], acc, log, log' => by simp [loopReduce]
  | v :: vs, acc, log, log' => by
    simp only [loopReduce]
    rw [hT ((env.bind nxt v).bind cur acc) stp true log log']
    simp only [Env.untracked_bind]
    cases (rec' ((env.untracked.bind nxt v).bind cur acc) stp true log').res with
    | error a => rfl
    | ok r => exact loopReduce_sim hT cur nxt stp vs r _ _

theorem coalesceLoop_sim (hT : Twin rec rec') : ∀ (as : List (List Instr)) (log log' : Log),
    (coalesceLoop rec env as log).1 = (coalesceLoop rec' env.untracked as log').1
  | [], log, log' => by simp [coalesceLoop]
  | a :: as, log, log' => by
    unfold coalesceLoop
    simp only
    rw [hT env a true log log']
    generalize (rec' env.untracked a true log').res = q
    split <;> first | rfl | exact coalesceLoop_sim hT as _ _

theorem callMacro_sim (hT : Twin rec rec') (hTop : Twin top top') (name : Str) (this : Val)
    (args : List (List Instr)) (log log' : Log) :
    (callMacro rec top env name this args log).1 = (callMacro rec' top' env.untracked name this args log').1 := by
  unfold callMacro
  simp only [evalIdent_sim hTop]
  split
  · -- has
    split
    · rename_i a
      rw [hT env a true log log']
      generalize (rec' env.untracked a true log').res = q
      split <;> rfl
    · rfl
  · split
    · exact coalesceLoop_sim hT args log log'
    · split
      · -- reduce
        split
        · rename_i c n stp seed
          cases evalIdent top' c with
          | error k => rfl
          | ok cur =>
            simp only
            cases evalIdent top' n with
            | error k => rfl
            | ok nxt =>
              simp only
              rw [hT env seed true log log']
              cases (rec' env.untracked seed true log').res with
              | error a => rfl
              | ok s0 =>
                simp only
                cases this <;> first | rfl | exact loopReduce_sim hT cur nxt stp _ s0 _ _
        · rfl
      · split
        · -- map
          split
          · rename_i xb e
            cases evalIdent top' xb with
            | error k => rfl
            | ok x =>
              simp only
              cases rangeOf true this with
              | none => rfl
              | some l => exact loopList_sim hT x e _ _ l [] log log'
          · rename_i xb pp e
            cases evalIdent top' xb with
            | error k => rfl
            | ok x =>
              simp only
              cases rangeOf true this with
              | none => rfl
              | some l => exact loopMap3_sim hT x pp e l [] log log'
          · rfl
        · split
          · rename_i xb body
            cases evalIdent top' xb with
            | error k => rfl
            | ok x =>
              simp only
              split
              · cases rangeOf true this with
                | none => rfl
                | some l => exact loopList_sim hT x body _ _ l [] log log'
              · cases rangeOf false this with
                | none => rfl
                | some l =>
                  simp only
                  split
                  · exact loopList_sim hT x body _ _ l () log log'
                  · split
                    · exact loopList_sim hT x body _ _ l () log log'
                    · exact loopList_sim hT x body _ _ l 0 log log'
          · rfl

theorem RSim.ok_iff {α : Type} {a a' : α} {s s' : St} : RSim (.ok a s) (.ok a' s') ↔ a = a' ∧ s.stack = s'.stack :=
  Iff.rfl

theorem RSim.fail_iff {α : Type} {e e' : Abort} {l l' : Log} : RSim (α := α) (.fail e l) (.fail e' l') ↔ e = e' :=
  Iff.rfl

theorem invoke_sim (hT : Twin rec rec') (hTop : Twin top top') (c : Callee) (this : Val) (args : List Val)
    {s s' : St} (hs : s.stack = s'.stack) :
    RSim (invoke B rec top env c this args s) (invoke B rec' top' env.untracked c this args s') := by
  unfold invoke
  cases c with
  | macro_ name =>
    simp only
    cases codeArgs args with
    | none => simp [RSim]
    | some blocks =>
      simp only
      have h := callMacro_sim (env := env) hT hTop name this blocks s.log s'.log
      generalize callMacro rec top env name this blocks s.log = p1 at h ⊢
      generalize callMacro rec' top' env.untracked name this blocks s'.log = p2 at h ⊢
      obtain ⟨v1, l1⟩ := p1
      obtain ⟨v2, l2⟩ := p2
      simp only at h
      subst h
      simp [RSim, pushV, hs]
  | user name f =>
    simp only
    have h := resolveArgs_sim (env := env) hT args s.log s'.log
    generalize resolveArgs rec env args s.log = q1 at h ⊢
    generalize resolveArgs rec' env.untracked args s'.log = q2 at h ⊢
    rcases q1 with ⟨a1, l1⟩ | ⟨vs1, l1⟩ <;> rcases q2 with ⟨a2, l2⟩ | ⟨vs2, l2⟩ <;> simp only [ESim] at h
    · subst h; simp [RSim, pushV, hs]
    · subst h; simp [RSim, pushV, hs]
  | builtin name =>
    simp only
    have h := resolveArgs_sim (env := env) hT args s.log s'.log
    generalize resolveArgs rec env args s.log = q1 at h ⊢
    generalize resolveArgs rec' env.untracked args s'.log = q2 at h ⊢
    rcases q1 with ⟨a1, l1⟩ | ⟨vs1, l1⟩ <;> rcases q2 with ⟨a2, l2⟩ | ⟨vs2, l2⟩ <;> simp only [ESim] at h
    · subst h; simp [RSim, pushV, hs]
    · subst h
      cases B.func name <;> simp [RSim, pushV, hs]

theorem unop_sim (hT : Twin rec rec') (f : Val → Val) {s s' : St} (hs : s.stack = s'.stack) :
    RSim (unop rec f env s) (unop rec' f env.untracked s') := by
  have h := popV_sim (env := env) hT hs
  unfold unop
  generalize popV rec env s = r1 at h ⊢
  generalize popV rec' env.untracked s' = r2 at h ⊢
  cases r1 <;> cases r2 <;> simp only [RSim] at h
  · obtain ⟨rfl, h2⟩ := h; simp [RSim, pushV, h2]
  · subst h; simp [RSim]

theorem binop_sim (hT : Twin rec rec') (f : Val → Val → Val) {s s' : St} (hs : s.stack = s'.stack) :
    RSim (binop rec f env s) (binop rec' f env.untracked s') := by
  have h := popV_sim (env := env) hT hs
  unfold binop
  generalize popV rec env s = r1 at h ⊢
  generalize popV rec' env.untracked s' = r2 at h ⊢
  cases r1 <;> cases r2 <;> simp only [RSim] at h
  · rename_i a s1 a' s2
    obtain ⟨rfl, h2⟩ := h
    have h' := popV_sim (env := env) hT h2
    simp only
    generalize popV rec env s1 = q1 at h' ⊢
    generalize popV rec' env.untracked s2 = q2 at h' ⊢
    cases q1 <;> cases q2 <;> simp only [RSim] at h'
    · obtain ⟨rfl, h3⟩ := h'; simp [RSim, pushV, h3]
    · subst h'; simp [RSim]
  · subst h; simp [RSim]

theorem popEntries_sim (hT : Twin rec rec') : ∀ (n : Nat) {s s' : St}, s.stack = s'.stack →
    RSim (popEntries rec env n s) (popEntries rec' env.untracked n s')
  | 0, s, s', hs => by simp [popEntries, RSim, hs]
  | n + 1, s, s', hs => by
    have h := popV_sim (env := env) hT hs
    unfold popEntries
    generalize popV rec env s = r1 at h ⊢
    generalize popV rec' env.untracked s' = r2 at h ⊢
    cases r1 <;> cases r2 <;> simp only [RSim] at h
    · rename_i k s1 k' s2
      obtain ⟨rfl, h2⟩ := h
      have h' := popV_sim (env := env) hT h2
      simp only
      generalize popV rec env s1 = q1 at h' ⊢
      generalize popV rec' env.untracked s2 = q2 at h' ⊢
      cases q1 <;> cases q2 <;> simp only [RSim] at h'
      · rename_i v t1 v' t2
        obtain ⟨rfl, h3⟩ := h'
        have ih := popEntries_sim hT n h3
        simp only
        generalize popEntries rec env n t1 = u1 at ih ⊢
        generalize popEntries rec' env.untracked n t2 = u2 at ih ⊢
        cases u1 <;> cases u2 <;> simp only [RSim] at ih
        · obtain ⟨rfl, h4⟩ := ih
          simp only
          split <;> simp [RSim, h4]
        · subst ih; simp [RSim]
      · subst h'; simp [RSim]
    · subst h; simp [RSim]

theorem liftNext_sim {pc : Nat} {r r' : R Unit} (h : RSim r r') : RSim (liftNext pc r) (liftNext pc r') := by
  cases r <;> cases r' <;> simp only [RSim] at h
  · simp [liftNext, RSim, h.2]
  · subst h; simp [liftNext, RSim]

/-- One instruction: same next `pc`, same stack. -/
theorem step_sim (hT : Twin rec rec') (hTop : Twin top top') (len : Nat) (i : Instr) (pc : Nat)
    {s s' : St} (hs : s.stack = s'.stack) :
    RSim (step B rec top env len i pc s) (step B rec' top' env.untracked len i pc s') := by
  cases i
  case push v => simp [step, RSim, pushV, hs]
  case pop =>
    simp only [step]
    apply liftNext_sim
    have h := popV_sim (env := env) hT hs
    generalize popV rec env s = r1 at h ⊢
    generalize popV rec' env.untracked s' = r2 at h ⊢
    cases r1 <;> cases r2 <;> simp only [RSim] at h
    · simp [RSim, h.2]
    · subst h; simp [RSim]
  case dup =>
    simp only [step]
    have h := popV_sim (env := env) hT hs
    generalize popV rec env s = r1 at h ⊢
    generalize popV rec' env.untracked s' = r2 at h ⊢
    cases r1 <;> cases r2 <;> simp only [RSim] at h
    · obtain ⟨rfl, h2⟩ := h; simp [RSim, pushV, h2]
    · subst h; simp [RSim]
  case jmp d =>
    simp only [step]
    cases jumpTarget pc d len <;> simp [RSim, hs]
  case jmpCond w d =>
    simp only [step]
    generalize jumpTarget pc d len = jt
    have h := popV_sim (env := env) hT hs
    generalize popV rec env s = r1 at h ⊢
    generalize popV rec' env.untracked s' = r2 at h ⊢
    cases r1 <;> cases r2 <;> simp only [RSim] at h
    · rename_i v s1 v' s2
      obtain ⟨rfl, h2⟩ := h
      cases v
      case bool b => cases b <;> cases w <;> cases jt <;> simp [RSim, h2]
      case err k => cases w <;> cases jt <;> simp [RSim, h2]
      all_goals simp [RSim]
    · subst h; simp [RSim]
  case mkList n =>
    simp only [step]
    have h := popN_sim (env := env) hT n hs
    generalize popN rec env n s = r1 at h ⊢
    generalize popN rec' env.untracked n s' = r2 at h ⊢
    cases r1 <;> cases r2 <;> simp only [RSim] at h
    · obtain ⟨rfl, h2⟩ := h; simp [RSim, pushV, h2]
    · subst h; simp [RSim]
  case mkDict n =>
    simp only [step]
    have h := popEntries_sim (env := env) hT n hs
    generalize popEntries rec env n s = r1 at h ⊢
    generalize popEntries rec' env.untracked n s' = r2 at h ⊢
    cases r1 <;> cases r2 <;> simp only [RSim] at h
    · rename_i es s1 es' s2
      obtain ⟨rfl, h2⟩ := h
      cases es <;> simp [RSim, pushV, h2]
    · subst h; simp [RSim]
  case fmt n =>
    simp only [step]
    have h := popN_sim (env := env) hT n hs
    generalize popN rec env n s = r1 at h ⊢
    generalize popN rec' env.untracked n s' = r2 at h ⊢
    cases r1 <;> cases r2 <;> simp only [RSim] at h
    · rename_i segs s1 segs' s2
      obtain ⟨rfl, h2⟩ := h
      simp only
      cases concatStrs segs.reverse <;> simp [RSim, pushV, h2]
    · subst h; simp [RSim]
  case access =>
    simp only [step]
    have h := popRaw_sim hs
    generalize popRaw s = r1 at h ⊢
    generalize popRaw s' = r2 at h ⊢
    cases r1 <;> cases r2 <;> simp only [RSim] at h
    · rename_i x s1 x' s2
      obtain ⟨rfl, h2⟩ := h
      have hv := popV_sim (env := env) hT h2
      cases x with
      | bound c t => simp [RSim]
      | val v =>
        cases v
        case ident name =>
          simp only
          generalize popV rec env s1 = q1 at hv ⊢
          generalize popV rec' env.untracked s2 = q2 at hv ⊢
          cases q1 <;> cases q2 <;> simp only [RSim] at hv
          · rename_i obj t1 obj' t2
            obtain ⟨rfl, h3⟩ := hv
            simp only [Env.untracked_callable, Env.untracked_hasBinds]
            cases obj
            case map m =>
              simp only
              cases Map.get m name with
              | some v => simp [RSim, pushV, h3]
              | none => cases env.callable B name <;> simp [RSim, pushV, h3]
            all_goals
              simp only
              by_cases hb : env.hasBinds = true
              · simp only [hb, Bool.not_true, Bool.false_eq_true, if_false]
                cases env.callable B name <;> simp [RSim, pushV, h3, Val.isErr]
              · simp [hb, RSim]
          · subst hv; simp [RSim]
        all_goals
          simp only
          generalize popV rec env s1 = q1 at hv ⊢
          generalize popV rec' env.untracked s2 = q2 at hv ⊢
          cases q1 <;> cases q2 <;> simp only [RSim] at hv
          · simp [RSim, pushV, hv.2]
          · subst hv; simp [RSim]
    · subst h; simp [RSim]
  case call n =>
    simp only [step]
    have h := popRaw_sim hs
    generalize popRaw s = r1 at h ⊢
    generalize popRaw s' = r2 at h ⊢
    cases r1 <;> cases r2 <;> simp only [RSim] at h
    · rename_i x s1 x' s2
      obtain ⟨rfl, h2⟩ := h
      have hn := popN_sim (env := env) hT n h2
      cases x with
      | bound c this =>
        simp only
        generalize popN rec env n s1 = q1 at hn ⊢
        generalize popN rec' env.untracked n s2 = q2 at hn ⊢
        cases q1 <;> cases q2 <;> simp only [RSim] at hn
        · obtain ⟨rfl, h3⟩ := hn
          exact liftNext_sim (invoke_sim hT hTop c this _ h3)
        · subst hn; simp [RSim]
      | val callee =>
        simp only
        generalize popN rec env n s1 = q1 at hn ⊢
        generalize popN rec' env.untracked n s2 = q2 at hn ⊢
        cases q1 <;> cases q2 <;> simp only [RSim] at hn
        · rename_i args t1 args' t2
          obtain ⟨rfl, h3⟩ := hn
          have hctor : ∀ tn : Str,
              RSim (match resolveArgs rec env args t1.log with
                    | .error (a, l) => R.ok pc (pushV (.err a.kind) { t1 with log := l })
                    | .ok (vs, l) => R.ok pc (pushV (B.ctor tn vs) { t1 with log := l }))
                   (match resolveArgs rec' env.untracked args t2.log with
                    | .error (a, l) => R.ok pc (pushV (.err a.kind) { t2 with log := l })
                    | .ok (vs, l) => R.ok pc (pushV (B.ctor tn vs) { t2 with log := l })) := by
            intro tn
            have hr := resolveArgs_sim (env := env) hT args t1.log t2.log
            generalize resolveArgs rec env args t1.log = u1 at hr ⊢
            generalize resolveArgs rec' env.untracked args t2.log = u2 at hr ⊢
            rcases u1 with ⟨a1, l1⟩ | ⟨vs1, l1⟩ <;> rcases u2 with ⟨a2, l2⟩ | ⟨vs2, l2⟩ <;> simp only [ESim] at hr
            · subst hr; simp [RSim, pushV, h3]
            · subst hr; simp [RSim, pushV, h3]
          cases callee
          case ident fname =>
            simp only [Env.untracked_getFunc, Env.untracked_isMacro, Env.untracked_getType]
            cases env.getFunc B fname with
            | some c => exact liftNext_sim (invoke_sim hT hTop c .null _ h3)
            | none =>
              simp only
              by_cases hm : env.isMacro fname = true
              · simp only [hm, if_true]
                exact liftNext_sim (invoke_sim hT hTop (.macro_ fname) .null _ h3)
              · simp only [hm]
                cases env.getType fname with
                | none => simp [RSim, pushV, h3]
                | some t =>
                  cases t
                  case type tn => exact hctor tn
                  all_goals simp [RSim, pushV, h3]
          case type tn => exact hctor tn
          all_goals simp [RSim, pushV, h3]
        · subst hn; simp [RSim]
    · subst h; simp [RSim]
  all_goals
    first
      | exact liftNext_sim (unop_sim hT _ hs)
      | exact liftNext_sim (binop_sim hT _ hs)

theorem loop_sim (hT : Twin rec rec') (hTop : Twin top top') (code : List Instr) :
    ∀ (fuel pc : Nat) {s s' : St}, s.stack = s'.stack →
    RSim (loop B rec top env code fuel pc s) (loop B rec' top' env.untracked code fuel pc s')
  | 0, pc, s, s', hs => by
    simp only [loop]
    split <;> simp [RSim, hs]
  | fuel + 1, pc, s, s', hs => by
    simp only [loop]
    cases code[pc]? with
    | none => simp [RSim, hs]
    | some i =>
      simp only
      have h := step_sim (B := B) (env := env) hT hTop code.length i (pc + 1) hs
      generalize step B rec top env code.length i (pc + 1) s = r1 at h ⊢
      generalize step B rec' top' env.untracked code.length i (pc + 1) s' = r2 at h ⊢
      cases r1 <;> cases r2 <;> simp only [RSim] at h
      · obtain ⟨rfl, h2⟩ := h
        exact loop_sim hT hTop code fuel _ h2
      · subst h; simp [RSim]

theorem finish_sim (hT : Twin rec rec') (resolve : Bool) {s s' : St} (hs : s.stack = s'.stack) :
    (finish rec env resolve s).res = (finish rec' env.untracked resolve s').res := by
  unfold finish
  cases resolve with
  | true =>
    simp only [if_true]
    have h := popS_sim (env := env) hT hs
    generalize popS rec env s = r1 at h ⊢
    generalize popS rec' env.untracked s' = r2 at h ⊢
    cases r1 <;> cases r2 <;> simp only [RSim] at h
    · rename_i x s1 x' s2
      obtain ⟨rfl, h2⟩ := h
      cases x with
      | bound c t => rfl
      | val v => cases v <;> rfl
    · subst h; rfl
  | false =>
    simp only [Bool.false_eq_true, if_false]
    obtain ⟨stk, log⟩ := s
    obtain ⟨stk', log'⟩ := s'
    simp only at hs
    subst hs
    simp only [Env.untracked_getParam]
    split
    · rfl
    · rfl
    · split <;> rfl
    · rfl
    · rfl

end

theorem noRec_twin : Twin noRec noRec := fun _ _ _ _ _ => rfl

theorem runFresh_twin (B : Builtins) : Twin (runFresh B) (runFresh B) := by
  intro env code r log log'
  unfold runFresh
  have h := loop_sim (B := B) (env := env) noRec_twin noRec_twin code (blockFuel code) 0
    (s := { stack := [], log := log }) (s' := { stack := [], log := log' }) rfl
  generalize loop B noRec noRec env code (blockFuel code) 0 { stack := [], log := log } = r1 at h ⊢
  generalize loop B noRec noRec env.untracked code (blockFuel code) 0 { stack := [], log := log' } = r2 at h ⊢
  cases r1 <;> cases r2 <;> simp only [RSim] at h
  · exact finish_sim noRec_twin r h.2
  · subst h; rfl

theorem runAt_twin (B : Builtins) : ∀ b : Nat, Twin (runAt B b) (runAt B b)
  | 0 => fun _ _ _ _ _ => rfl
  | b + 1 => by
    intro env code r log log'
    have ih := runAt_twin B b
    simp only [runAt]
    have h := loop_sim (B := B) (env := env) ih (runFresh_twin B) code (blockFuel code) 0
      (s := { stack := [], log := log }) (s' := { stack := [], log := log' }) rfl
    generalize loop B (runAt B b) (runFresh B) env code (blockFuel code) 0 { stack := [], log := log } = r1 at h ⊢
    generalize loop B (runAt B b) (runFresh B) env.untracked code (blockFuel code) 0 { stack := [], log := log' } = r2 at h ⊢
    cases r1 <;> cases r2 <;> simp only [RSim] at h
    · exact finish_sim ih r h.2
    · subst h; rfl

end Unres

/-- The unresolved-name flag is write-only: recording it or not, and whatever the log, a run returns the same. -/
theorem runAt_untracked (B : Builtins) (b : Nat) (env : Env) (code : List Instr) (r : Bool) (log log' : Log) :
    (runAt B b env code r log).res = (runAt B b env.untracked code r log').res :=
  Unres.runAt_twin B b env code r log log'

theorem compileRun_untracked (B : Builtins) (code : List Instr) :
    (runAt B maxDepth compileEnv code true []).res = (runAt B maxDepth compileEnv0 code true []).res :=
  runAt_untracked B maxDepth compileEnv code true [] []

/-- The three outcomes of `check_for_const`. -/
theorem checkForConst_cases (B : Builtins) (ids : List Str) (code : List Instr) :
    checkForConst B ids code = .code code ∨
    ∃ v, checkForConst B ids code = .const v ∧
      (runAt B maxDepth compileEnv code true []).res = .ok v ∧
      (runAt B maxDepth compileEnv code true []).log.metUnres = false := by
  unfold checkForConst
  simp only
  split
  · exact Or.inl rfl
  · split
    · rename_i v hv
      split
      · exact Or.inl rfl
      · rename_i hm
        exact Or.inr ⟨v, rfl, hv, by simpa using hm⟩
    · exact Or.inl rfl

/-- A folded call: the compile-time run returned the constant and met no name it could not resolve; the same
    run without the flag (the environment the theorems about compiled code speak of) returned it too. -/
theorem checkForConst_const {B : Builtins} {ids : List Str} {code : List Instr} {v : Val}
    (h : checkForConst B ids code = .const v) :
    (runAt B maxDepth compileEnv0 code true []).res = .ok v ∧
    (runAt B maxDepth compileEnv code true []).log.metUnres = false := by
  rcases checkForConst_cases B ids code with h' | ⟨v', h', hr, hm⟩
  · rw [h'] at h; cases h
  · rw [h'] at h; cases h
    exact ⟨by rw [← compileRun_untracked]; exact hr, hm⟩

/-! ### Non-vacuity -/

private def noB : Builtins := { func := fun _ => none, ctor := fun _ _ => .null }
/-- `[q]` with `q` unbound: a value (a list holding a Binding failure), so the run is `.ok` … -/
private def demo : List Instr := [.push (.ident "q".toList), .mkList 1]

example : (runAt noB maxDepth compileEnv demo true []).res = .ok (.list [.err .binding]) := by rfl
-- … but it met a name it could not resolve, and the compiler's interpreter recorded that:
example : (runAt noB maxDepth compileEnv demo true []).log.metUnres = true := by rfl
-- so `check_for_const` leaves the code as it is (before fix 4d08d12: the constant `[<Binding>]`)
example : checkForConst noB [] demo = .code demo := by rfl
-- the same run without the flag: same result, nothing in the log (`runAt_untracked`, hypotheses-free)
example : (runAt noB maxDepth compileEnv0 demo true []).res = .ok (.list [.err .binding]) ∧
    (runAt noB maxDepth compileEnv0 demo true []).log = [] := ⟨by rfl, by rfl⟩
-- a run that resolves everything is still folded
example : checkForConst noB [] [.push (.ident "int".toList), .mkList 1] = .const (.list [.type "int".toList]) := by rfl
-- the four places that set the flag, in the compiler's interpreter; and a callee that is no name sets none
example : (runAt noB maxDepth compileEnv [.push (.map []), .push (.ident "f".toList), .access, .mkList 1] true []).log.metUnres = true := by rfl
example : (runAt noB maxDepth compileEnv [.push (.int 1), .push (.ident "f".toList), .access, .mkList 1] true []).log.metUnres = true := by rfl
example : (runAt noB maxDepth compileEnv [.push (.ident "f".toList), .call 0, .mkList 1] true []).log.metUnres = true := by rfl
example : (runAt noB maxDepth compileEnv [.push (.int 1), .call 0, .mkList 1] true []).log.metUnres = false := by rfl
-- `Twin` is inhabited non-trivially (`runAt_twin`), `RSim` relates states with different logs
example : Unres.RSim (R.ok 1 { stack := [], log := [unresMarker] }) (R.ok 1 { stack := [], log := [] }) := ⟨rfl, rfl⟩

end Rscel
