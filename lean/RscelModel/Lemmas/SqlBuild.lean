import RscelModel.Lemmas.SqlRound
/-
The translation itself (`build`, the model of `grammar.rs`): its builder trees are well formed when the
expression is plain, they denote `sqlTree` of the expression, and `build` fails exactly on the
untranslatable constructs.
-/
set_option linter.unusedSimpArgs false
set_option linter.unusedVariables false
namespace Rscel.Sql
open Rscel

/-! ### plain expressions -/

mutual
/-- Names (variables, fields) are plain words that SQL does not reserve, and a unary minus is not
    repeated.  (Both restrictions are recorded defects of the translation: a reserved word is emitted as it
    is, and `--x` is emitted as `(--x)`, which opens a comment.) -/
def plainAst : Ast → Bool
  | .tern _ c t f => plainAst c && plainAst t && plainAst f
  | .match_ .. => true
  | .bin _ _ l r => plainAst l && plainAst r
  | .notRun _ _ m => plainAst m
  | .negRun _ ops m => decide (ops.length ≤ 1) && plainAst m
  | .member _ p chain => plainPrim p && plainOps chain
def plainPrim : Prim → Bool
  | .ident _ name => validIdent name && !isReserved name
  | .parens _ e => plainAst e
  | .list _ es => plainList es
  | .map _ inits => plainInits inits
  | _ => true
def plainOps : List MOp → Bool
  | [] => true
  | .access _ _ name :: rest => validIdent name && plainOps rest
  | .call _ args :: rest => plainList args && plainOps rest
  | .index _ e :: rest => plainAst e && plainOps rest
def plainList : List Ast → Bool
  | [] => true
  | a :: as => plainAst a && plainList as
def plainInits : List MInit → Bool
  | [] => true
  | .mk _ k v :: rest => plainAst k && plainAst v && plainInits rest
end

/-! ### small facts -/

theorem bind_ok {α β : Type} {x : Except Unit α} {f : α → Except Unit β} {b : β} :
    (x >>= f) = .ok b ↔ ∃ a, x = .ok a ∧ f a = .ok b := by
  cases x with
  | error e => simp [bind, Except.bind]
  | ok a => simp [bind, Except.bind]

theorem pure_ok {α : Type} {a b : α} : (pure a : Except Unit α) = .ok b ↔ a = b := by
  simp [pure, Except.pure]

theorem sqlType_ok {name ty : Str} (h : sqlType name = some ty) : okTypes.contains ty = true := by
  unfold sqlType at h
  repeat' split at h
  all_goals first
    | (cases h; decide)
    | cases h

theorem wfList_eq_all (ds : List Doc) : wfList ds = ds.all Doc.wf := by
  induction ds with
  | nil => rfl
  | cons d ds ih => simp [wfList, ih]

theorem wfList_reverse (ds : List Doc) : wfList ds.reverse = wfList ds := by
  simp [wfList_eq_all, List.all_reverse]

theorem treeList_eq_map (ds : List Doc) : treeList ds = ds.map Doc.tree := by
  induction ds with
  | nil => rfl
  | cons d ds ih => simp [treeList, ih]

theorem treeList_reverse (ds : List Doc) : treeList ds.reverse = (treeList ds).reverse := by
  simp [treeList_eq_map, List.map_reverse]

theorem canonOp_opText (op : BinOp) : canonOp (opText op) = sqlOpName op := by
  cases op <;> rfl

theorem okOps_opText (op : BinOp) : okOps.contains (opText op) = true := by
  cases op <;> decide

/-! ### digit strings -/

theorem isDigitC_ofNat (k : Nat) (h : k < 10) : isDigitC (Char.ofNat (48 + k)) = true := by
  have : ∀ k, k < 10 → isDigitC (Char.ofNat (48 + k)) = true := by decide
  exact this k h

theorem digitsAux_spec : ∀ (f n : Nat) (acc : Str), acc.all isDigitC = true →
    (digitsAux f n acc).all isDigitC = true ∧ (f ≠ 0 ∨ acc ≠ [] → digitsAux f n acc ≠ [])
  | 0, n, acc, h => by simp [digitsAux, h]
  | f + 1, n, acc, h => by
    have hd : isDigitC (Char.ofNat (48 + n % 10)) = true := isDigitC_ofNat _ (Nat.mod_lt _ (by omega))
    have hacc : (Char.ofNat (48 + n % 10) :: acc).all isDigitC = true := by simp [hd, h]
    simp only [digitsAux]
    split
    · exact ⟨hacc, fun _ => by simp⟩
    · have := digitsAux_spec f (n / 10) _ hacc
      exact ⟨this.1, fun _ => this.2 (Or.inr (by simp))⟩

theorem natDigits_digits (n : Nat) : (natDigits n).all isDigitC = true :=
  (digitsAux_spec (n + 1) n [] rfl).1

theorem natDigits_ne_nil (n : Nat) : natDigits n ≠ [] :=
  (digitsAux_spec (n + 1) n [] rfl).2 (Or.inl (by omega))

theorem validNum_of_digits {s : Str} (h1 : s ≠ []) (h2 : s.all isDigitC = true) : validNum s = true := by
  cases s with
  | nil => exact absurd rfl h1
  | cons c cs =>
    simp only [List.all_cons, Bool.and_eq_true] at h2
    simp only [validNum, h2.1, Bool.true_and]
    exact List.all_eq_true.mpr (fun x hx => by simp [isNumChar, List.all_eq_true.mp h2.2 x hx])

theorem validNum_natDigits (n : Nat) : validNum (natDigits n) = true :=
  validNum_of_digits (natDigits_ne_nil n) (natDigits_digits n)

theorem intLit_wf (i : Int) : (intLit i).wf = true := by
  unfold intLit
  split
  · simpa [Lit.wf] using validNum_natDigits _
  · split <;> simpa [Lit.wf] using validNum_natDigits _

theorem intLit_tree (i : Int) : (intLit i).tree = intTree i := by
  unfold intLit intTree
  split
  · rfl
  · split <;> rfl


/-! ### the text of a double -/

/-- every character is a digit -/
def AllD (s : Str) : Prop := ∀ c ∈ s, isDigitC c = true

theorem AllD.natDigits (n : Nat) : AllD (natDigits n) := fun c hc => List.all_eq_true.mp (natDigits_digits n) c hc
theorem AllD.zeros (n : Nat) : AllD (zeros n) := by
  intro c hc; rw [List.eq_of_mem_replicate hc]; decide
theorem AllD.append {a b : Str} (ha : AllD a) (hb : AllD b) : AllD (a ++ b) := by
  intro c hc; rcases List.mem_append.mp hc with h | h
  · exact ha c h
  · exact hb c h
theorem AllD.take {a : Str} (ha : AllD a) (n : Nat) : AllD (a.take n) := fun c hc => ha c (List.mem_of_mem_take hc)
theorem AllD.drop {a : Str} (ha : AllD a) (n : Nat) : AllD (a.drop n) := fun c hc => ha c (List.mem_of_mem_drop hc)
theorem AllD.reverse {a : Str} (ha : AllD a) : AllD a.reverse := fun c hc => ha c (List.mem_reverse.mp hc)
theorem AllD.dropWhile {a : Str} (ha : AllD a) (p : Char → Bool) : AllD (a.dropWhile p) :=
  fun c hc => ha c ((List.dropWhile_sublist p).subset hc)

theorem validNum_frac {ip fp : Str} (h1 : ip ≠ []) (h2 : AllD ip) (h3 : AllD fp) : validNum (ip ++ '.' :: fp) = true := by
  cases ip with
  | nil => exact absurd rfl h1
  | cons c cs =>
    simp only [List.cons_append, validNum, h2 c (by simp), Bool.true_and]
    refine List.all_eq_true.mpr (fun x hx => ?_)
    rcases List.mem_append.mp hx with h | h
    · simp [isNumChar, h2 x (by simp [h])]
    · rcases List.mem_cons.mp h with rfl | h
      · decide
      · simp [isNumChar, h3 x h]

theorem validNum_allD {s : Str} (h1 : s ≠ []) (h2 : AllD s) : validNum s = true :=
  validNum_of_digits h1 (List.all_eq_true.mpr h2)

theorem validNum_positional (d : Nat) (p : Int) : validNum (positional d p) = true := by
  unfold positional
  simp only
  split
  · decide
  · split
    · exact validNum_allD (by simp [natDigits_ne_nil]) ((AllD.natDigits d).append (AllD.zeros _))
    · split
      · rename_i hlen
        have hip : (natDigits d).take ((natDigits d).length - (-p).toNat) ≠ [] := by
          intro e
          have := congrArg List.length e
          simp only [List.length_take, List.length_nil] at this
          omega
        split
        · exact validNum_allD hip ((AllD.natDigits d).take _)
        · exact validNum_frac hip ((AllD.natDigits d).take _) ((((AllD.natDigits d).drop _).reverse.dropWhile _).reverse)
      · split
        · decide
        · exact validNum_frac (ip := ['0']) (by simp) (by intro c hc; simp at hc; subst hc; decide)
            (((((AllD.zeros _).append (AllD.natDigits d)).reverse).dropWhile _).reverse)

theorem floatDoc_wf (bits : UInt64) : (floatDoc bits).wf = true := by
  unfold floatDoc
  simp only
  split
  · decide
  · split
    · decide
    · split
      · decide
      · split <;> simp [Doc.wf, Lit.wf, validNum_positional]


/-! ### the builder trees of plain expressions are well formed -/

theorem jbo_wf : (Doc.ident "json_build_object".toList).wf = true := by decide

mutual
theorem build_wf : (a : Ast) → (d : Doc) → build a = .ok d → plainAst a = true → d.wf = true
  | .tern _ c t f, d, h, hp => by
    simp only [build, bind_ok, pure_ok] at h
    obtain ⟨c', hc, t', ht, f', hf, rfl⟩ := h
    simp only [plainAst, Bool.and_eq_true] at hp
    simp [Doc.wf, build_wf c c' hc hp.1.1, build_wf t t' ht hp.1.2, build_wf f f' hf hp.2]
  | .match_ .., d, h, _ => by simp [build] at h
  | .bin _ op l r, d, h, hp => by
    simp only [build, bind_ok, pure_ok] at h
    obtain ⟨l', hl, r', hr, rfl⟩ := h
    simp only [plainAst, Bool.and_eq_true] at hp
    simp [Doc.wf, build_wf l l' hl hp.1, build_wf r r' hr hp.2, List.contains_iff_mem.mp (okOps_opText op)]
  | .notRun _ ops m, d, h, hp => by
    simp only [build, bind_ok, pure_ok] at h
    obtain ⟨m', hm, rfl⟩ := h
    simp only [plainAst] at hp
    simp [Doc.wf, build_wf m m' hm hp]
  | .negRun _ ops m, d, h, hp => by
    simp only [build, bind_ok, pure_ok] at h
    obtain ⟨m', hm, rfl⟩ := h
    simp only [plainAst, Bool.and_eq_true, decide_eq_true_eq] at hp
    simp [Doc.wf, build_wf m m' hm hp.2, hp.1]
  | .member _ p chain, d, h, hp => by
    simp only [build, bind_ok] at h
    obtain ⟨p', hp', h⟩ := h
    simp only [plainAst, Bool.and_eq_true] at hp
    refine buildOps_wf chain (castType p) p' d h (buildPrim_wf p p' hp' hp.1) ?_ hp.2
    intro ty hty
    cases p with
    | ident _ name => exact sqlType_ok (by simpa [castType] using hty)
    | _ => simp [castType] at hty
theorem buildOps_wf : (ops : List MOp) → (ty? : Option Str) → (cur d : Doc) → buildOps ty? cur ops = .ok d → cur.wf = true →
    (∀ ty, ty? = some ty → okTypes.contains ty = true) → plainOps ops = true → d.wf = true
  | [], ty?, cur, d, h, hc, _, _ => by
    simp only [buildOps, pure_ok] at h; subst h; exact hc
  | .access _ _ name :: rest, ty?, cur, d, h, hc, _, hp => by
    simp only [buildOps] at h
    simp only [plainOps, Bool.and_eq_true] at hp
    exact buildOps_wf rest none _ d h (by simp [Doc.wf, hc, hp.1]) (by intro ty e; cases e) hp.2
  | .call _ [] :: rest, ty?, cur, d, h, hc, hty, hp => by
    simp only [plainOps, plainList, Bool.true_and] at hp
    cases ty? with
    | none =>
      simp only [buildOps] at h
      exact buildOps_wf rest none _ d h (by simp [Doc.wf, hc, wfList]) (by intro ty e; cases e) hp
    | some ty =>
      simp only [buildOps] at h
      exact buildOps_wf rest none _ d h (by simp [Doc.wf, Lit.wf, List.contains_iff_mem.mp (hty ty rfl)]) (by intro ty e; cases e) hp
  | .call _ [e] :: rest, ty?, cur, d, h, hc, hty, hp => by
    simp only [plainOps, plainList, Bool.and_eq_true, Bool.and_true] at hp
    simp only [buildOps, bind_ok] at h
    obtain ⟨v, hv, h⟩ := h
    have hvw := build_wf e v hv hp.1
    cases ty? with
    | none => exact buildOps_wf rest none _ d h (by simp [Doc.wf, hc, wfList, hvw]) (by intro ty e; cases e) hp.2
    | some ty => exact buildOps_wf rest none _ d h (by simp [Doc.wf, hvw, List.contains_iff_mem.mp (hty ty rfl)]) (by intro ty e; cases e) hp.2
  | .call _ (e :: e2 :: es) :: rest, ty?, cur, d, h, hc, hty, hp => by
    simp only [plainOps, plainList, Bool.and_eq_true] at hp
    simp only [buildOps, bind_ok] at h
    obtain ⟨v, hv, ds, hds, h⟩ := h
    have hvw := build_wf e v hv hp.1.1
    have hdw := buildList_wf (e2 :: es) ds hds (by simp [plainList, hp.1.2.1, hp.1.2.2])
    refine buildOps_wf rest none _ d h ?_ (by intro ty e; cases e) hp.2
    simp only [Doc.wf, hc, Bool.true_and]
    rw [wfList_reverse]; simp [wfList, hvw, hdw]
  | .index _ e :: rest, ty?, cur, d, h, hc, _, hp => by
    simp only [plainOps, Bool.and_eq_true] at hp
    simp only [buildOps, bind_ok] at h
    obtain ⟨i, hi, h⟩ := h
    exact buildOps_wf rest none _ d h (by simp [Doc.wf, hc, build_wf e i hi hp.1]) (by intro ty e; cases e) hp.2
theorem buildList_wf : (as : List Ast) → (ds : List Doc) → buildList as = .ok ds → plainList as = true → wfList ds = true
  | [], ds, h, _ => by simp only [buildList, pure_ok] at h; subst h; rfl
  | a :: as, ds, h, hp => by
    simp only [buildList, bind_ok, pure_ok] at h
    obtain ⟨d, hd, ds', hds, rfl⟩ := h
    simp only [plainList, Bool.and_eq_true] at hp
    simp [wfList, build_wf a d hd hp.1, buildList_wf as ds' hds hp.2]
theorem buildInits_wf : (is : List MInit) → (ds : List Doc) → buildInits is = .ok ds → plainInits is = true → wfList ds = true
  | [], ds, h, _ => by simp only [buildInits, pure_ok] at h; subst h; rfl
  | .mk _ k v :: rest, ds, h, hp => by
    simp only [buildInits, bind_ok, pure_ok] at h
    obtain ⟨k', hk, v', hv, ds', hds, rfl⟩ := h
    simp only [plainInits, Bool.and_eq_true] at hp
    simp [wfList, build_wf k k' hk hp.1.1, build_wf v v' hv hp.1.2, buildInits_wf rest ds' hds hp.2]
theorem buildPrim_wf : (p : Prim) → (d : Doc) → buildPrim p = .ok d → plainPrim p = true → d.wf = true
  | .ident _ name, d, h, hp => by
    simp only [buildPrim, pure_ok] at h; subst h
    simpa [Doc.wf, plainPrim] using hp
  | .parens _ e, d, h, hp => by
    simp only [buildPrim, bind_ok, pure_ok] at h
    obtain ⟨e', he, rfl⟩ := h
    simp only [plainPrim] at hp
    simp [Doc.wf, build_wf e e' he hp]
  | .list _ es, d, h, hp => by
    simp only [buildPrim, bind_ok, pure_ok] at h
    obtain ⟨ds, hds, rfl⟩ := h
    simp only [plainPrim] at hp
    simp [Doc.wf, buildList_wf es ds hds hp]
  | .map _ inits, d, h, hp => by
    simp only [buildPrim, bind_ok] at h
    obtain ⟨ds, hds, h⟩ := h
    simp only [plainPrim] at hp
    have hw := buildInits_wf inits ds hds hp
    cases ds with
    | nil => simp only [pure_ok] at h; subst h; decide
    | cons x xs =>
      simp only [pure_ok] at h; subst h
      simp only [Doc.wf, hw, Bool.and_true]; exact jbo_wf
  | .null _, d, h, _ => by simp only [buildPrim, pure_ok] at h; subst h; rfl
  | .int _ i, d, h, _ => by simp only [buildPrim, pure_ok] at h; subst h; simpa [Doc.wf] using intLit_wf i
  | .uint _ n, d, h, _ => by simp only [buildPrim, pure_ok] at h; subst h; simpa [Doc.wf, Lit.wf] using validNum_natDigits n
  | .float _ bits, d, h, _ => by simp only [buildPrim, pure_ok] at h; subst h; exact floatDoc_wf bits
  | .str _ s, d, h, _ => by simp only [buildPrim, pure_ok] at h; subst h; rfl
  | .bytes .., d, h, _ => by simp [buildPrim] at h
  | .bool _ b, d, h, _ => by simp only [buildPrim, pure_ok] at h; subst h; rfl
  | .fstr .., d, h, _ => by simp [buildPrim] at h
end


/-! ### the builder tree of an expression denotes `sqlTree` of the expression -/

mutual
theorem build_tree : (a : Ast) → (d : Doc) → build a = .ok d → d.tree = sqlTree a
  | .tern _ c t f, d, h => by
    simp only [build, bind_ok, pure_ok] at h
    obtain ⟨c', hc, t', ht, f', hf, rfl⟩ := h
    simp [Doc.tree, sqlTree, build_tree c c' hc, build_tree t t' ht, build_tree f f' hf]
  | .match_ .., d, h => by simp [build] at h
  | .bin _ op l r, d, h => by
    simp only [build, bind_ok, pure_ok] at h
    obtain ⟨l', hl, r', hr, rfl⟩ := h
    simp [Doc.tree, sqlTree, build_tree l l' hl, build_tree r r' hr, canonOp_opText]
  | .notRun _ ops m, d, h => by
    simp only [build, bind_ok, pure_ok] at h
    obtain ⟨m', hm, rfl⟩ := h
    simp [Doc.tree, sqlTree, build_tree m m' hm]
  | .negRun _ ops m, d, h => by
    simp only [build, bind_ok, pure_ok] at h
    obtain ⟨m', hm, rfl⟩ := h
    simp [Doc.tree, sqlTree, build_tree m m' hm]
  | .member _ p chain, d, h => by
    simp only [build, bind_ok] at h
    obtain ⟨p', hp', h⟩ := h
    simp only [sqlTree]
    rw [← buildPrim_tree p p' hp']
    exact buildOps_tree chain (castType p) p' d h
theorem buildOps_tree : (ops : List MOp) → (ty? : Option Str) → (cur d : Doc) → buildOps ty? cur ops = .ok d →
    d.tree = opsTree ty? cur.tree ops
  | [], ty?, cur, d, h => by
    simp only [buildOps, pure_ok] at h; subst h; simp [opsTree]
  | .access _ _ name :: rest, ty?, cur, d, h => by
    simp only [buildOps] at h
    rw [buildOps_tree rest none _ d h]
    simp [opsTree, Doc.tree]
  | .call _ [] :: rest, ty?, cur, d, h => by
    cases ty? with
    | none =>
      simp only [buildOps] at h
      rw [buildOps_tree rest none _ d h]; simp [opsTree, Doc.tree, treeList]
    | some ty =>
      simp only [buildOps] at h
      rw [buildOps_tree rest none _ d h]; simp [opsTree, Doc.tree, Lit.tree]
  | .call _ [e] :: rest, ty?, cur, d, h => by
    simp only [buildOps, bind_ok] at h
    obtain ⟨v, hv, h⟩ := h
    have hvt := build_tree e v hv
    cases ty? with
    | none => rw [buildOps_tree rest none _ d h]; simp [opsTree, Doc.tree, treeList, hvt]
    | some ty => rw [buildOps_tree rest none _ d h]; simp [opsTree, Doc.tree, hvt]
  | .call _ (e :: e2 :: es) :: rest, ty?, cur, d, h => by
    simp only [buildOps, bind_ok] at h
    obtain ⟨v, hv, ds, hds, h⟩ := h
    have hvt := build_tree e v hv
    have hdt := buildList_tree (e2 :: es) ds hds
    rw [buildOps_tree rest none _ d h]
    simp only [opsTree, Doc.tree]
    rw [treeList_reverse]; simp [treeList, hvt, hdt]
  | .index _ e :: rest, ty?, cur, d, h => by
    simp only [buildOps, bind_ok] at h
    obtain ⟨i, hi, h⟩ := h
    rw [buildOps_tree rest none _ d h]
    simp [opsTree, Doc.tree, build_tree e i hi]
theorem buildList_tree : (as : List Ast) → (ds : List Doc) → buildList as = .ok ds → treeList ds = treesOf as
  | [], ds, h => by simp only [buildList, pure_ok] at h; subst h; rfl
  | a :: as, ds, h => by
    simp only [buildList, bind_ok, pure_ok] at h
    obtain ⟨d, hd, ds', hds, rfl⟩ := h
    simp [treeList, treesOf, build_tree a d hd, buildList_tree as ds' hds]
theorem buildInits_tree : (is : List MInit) → (ds : List Doc) → buildInits is = .ok ds → treeList ds = initTrees is
  | [], ds, h => by simp only [buildInits, pure_ok] at h; subst h; rfl
  | .mk _ k v :: rest, ds, h => by
    simp only [buildInits, bind_ok, pure_ok] at h
    obtain ⟨k', hk, v', hv, ds', hds, rfl⟩ := h
    simp [treeList, initTrees, build_tree k k' hk, build_tree v v' hv, buildInits_tree rest ds' hds]
theorem buildPrim_tree : (p : Prim) → (d : Doc) → buildPrim p = .ok d → d.tree = primTree p
  | .ident _ name, d, h => by simp only [buildPrim, pure_ok] at h; subst h; rfl
  | .parens _ e, d, h => by
    simp only [buildPrim, bind_ok, pure_ok] at h
    obtain ⟨e', he, rfl⟩ := h
    simp [Doc.tree, primTree, build_tree e e' he]
  | .list _ es, d, h => by
    simp only [buildPrim, bind_ok, pure_ok] at h
    obtain ⟨ds, hds, rfl⟩ := h
    simp [Doc.tree, primTree, buildList_tree es ds hds]
  | .map _ inits, d, h => by
    simp only [buildPrim, bind_ok] at h
    obtain ⟨ds, hds, h⟩ := h
    have ht := buildInits_tree inits ds hds
    cases ds with
    | nil =>
      simp only [pure_ok] at h; subst h
      simp only [treeList] at ht
      simp [primTree, ← ht, Doc.tree, Lit.tree]
    | cons x xs =>
      simp only [pure_ok] at h; subst h
      simp only [treeList] at ht
      simp [primTree, ← ht, Doc.tree, treeList]
  | .null _, d, h => by simp only [buildPrim, pure_ok] at h; subst h; rfl
  | .int _ i, d, h => by simp only [buildPrim, pure_ok] at h; subst h; simpa [Doc.tree, primTree] using intLit_tree i
  | .uint _ n, d, h => by simp only [buildPrim, pure_ok] at h; subst h; rfl
  | .float _ bits, d, h => by simp only [buildPrim, pure_ok] at h; subst h; rfl
  | .str _ s, d, h => by simp only [buildPrim, pure_ok] at h; subst h; rfl
  | .bytes .., d, h => by simp [buildPrim] at h
  | .bool _ b, d, h => by simp only [buildPrim, pure_ok] at h; subst h; rfl
  | .fstr .., d, h => by simp [buildPrim] at h
end

/-! ### `build` fails exactly on the constructs that have no translation -/

mutual
/-- a `match`, a bytes literal or a format string occurs somewhere in the expression -/
def untrAst : Ast → Bool
  | .tern _ c t f => untrAst c || untrAst t || untrAst f
  | .match_ .. => true
  | .bin _ _ l r => untrAst l || untrAst r
  | .notRun _ _ m => untrAst m
  | .negRun _ _ m => untrAst m
  | .member _ p chain => untrPrim p || untrOps chain
def untrPrim : Prim → Bool
  | .parens _ e => untrAst e
  | .list _ es => untrList es
  | .map _ inits => untrInits inits
  | .bytes .. => true
  | .fstr .. => true
  | _ => false
def untrOps : List MOp → Bool
  | [] => false
  | .access _ _ _ :: rest => untrOps rest
  | .call _ args :: rest => untrList args || untrOps rest
  | .index _ e :: rest => untrAst e || untrOps rest
def untrList : List Ast → Bool
  | [] => false
  | a :: as => untrAst a || untrList as
def untrInits : List MInit → Bool
  | [] => false
  | .mk _ k v :: rest => untrAst k || untrAst v || untrInits rest
end

theorem isOk_bind {α β : Type} (x : Except Unit α) (f : α → Except Unit β) :
    (x >>= f).isOk = match x with | .ok a => (f a).isOk | .error _ => false := by
  cases x <;> rfl

theorem isOk_pure {α : Type} (a : α) : (pure a : Except Unit α).isOk = true := rfl


mutual
theorem build_isOk : (a : Ast) → (build a).isOk = !untrAst a
  | .tern _ c t f => by
    have hc := build_isOk c; have ht := build_isOk t; have hf := build_isOk f
    simp only [build, untrAst]
    cases h1 : build c <;> cases h2 : build t <;> cases h3 : build f <;>
      simp_all [Except.isOk, Except.toBool, bind, Except.bind, pure, Except.pure]
  | .match_ .. => by simp [build, untrAst, Except.isOk, Except.toBool]
  | .bin _ op l r => by
    have hl := build_isOk l; have hr := build_isOk r
    simp only [build, untrAst]
    cases h1 : build l <;> cases h2 : build r <;>
      simp_all [Except.isOk, Except.toBool, bind, Except.bind, pure, Except.pure]
  | .notRun _ ops m => by
    have hm := build_isOk m
    simp only [build, untrAst]
    cases h1 : build m <;> simp_all [Except.isOk, Except.toBool, bind, Except.bind, pure, Except.pure]
  | .negRun _ ops m => by
    have hm := build_isOk m
    simp only [build, untrAst]
    cases h1 : build m <;> simp_all [Except.isOk, Except.toBool, bind, Except.bind, pure, Except.pure]
  | .member _ p chain => by
    have hp := buildPrim_isOk p
    simp only [build, untrAst]
    cases h1 : buildPrim p with
    | error e => simp_all [Except.isOk, Except.toBool, bind, Except.bind]
    | ok p' =>
      have := buildOps_isOk chain (castType p) p'
      simp_all [Except.isOk, Except.toBool, bind, Except.bind]
theorem buildOps_isOk : (ops : List MOp) → (ty? : Option Str) → (cur : Doc) → (buildOps ty? cur ops).isOk = !untrOps ops
  | [], ty?, cur => by simp [buildOps, untrOps, Except.isOk, Except.toBool, pure, Except.pure]
  | .access _ _ name :: rest, ty?, cur => by
    simp only [buildOps, untrOps]; exact buildOps_isOk rest none _
  | .call _ [] :: rest, ty?, cur => by
    cases ty? <;> simp only [buildOps, untrOps, untrList, Bool.false_or] <;> exact buildOps_isOk rest none _
  | .call _ [e] :: rest, ty?, cur => by
    have he := build_isOk e
    simp only [buildOps, untrOps, untrList, Bool.or_false]
    cases h1 : build e with
    | error x => simp_all [Except.isOk, Except.toBool, bind, Except.bind]
    | ok v =>
      have h1' : untrAst e = false := by simpa [h1, Except.isOk, Except.toBool] using he
      cases ty? with
      | none => simpa [bind, Except.bind, h1'] using buildOps_isOk rest none (cur.call [v])
      | some ty => simpa [bind, Except.bind, h1'] using buildOps_isOk rest none (v.cast ty)
  | .call _ (e :: e2 :: es) :: rest, ty?, cur => by
    have he := build_isOk e
    have hl := buildList_isOk (e2 :: es)
    simp only [buildOps, untrOps, untrList]
    cases h1 : build e with
    | error x => simp_all [Except.isOk, Except.toBool, bind, Except.bind]
    | ok v =>
      have h1' : untrAst e = false := by simpa [h1, Except.isOk, Except.toBool] using he
      cases h2 : buildList (e2 :: es) with
      | error x =>
        have h2' : untrList (e2 :: es) = true := by simpa [h2, Except.isOk, Except.toBool] using hl
        simp only [untrList] at h2'
        simp [Except.isOk, Except.toBool, bind, Except.bind, h1', h2']
      | ok ds =>
        have h2' : untrList (e2 :: es) = false := by simpa [h2, Except.isOk, Except.toBool] using hl
        simp only [untrList] at h2'
        simpa [bind, Except.bind, h1', h2'] using buildOps_isOk rest none (cur.call (v :: ds).reverse)
  | .index _ e :: rest, ty?, cur => by
    have he := build_isOk e
    simp only [buildOps, untrOps]
    cases h1 : build e with
    | error x => simp_all [Except.isOk, Except.toBool, bind, Except.bind]
    | ok i =>
      have h1' : untrAst e = false := by simpa [h1, Except.isOk, Except.toBool] using he
      simpa [bind, Except.bind, h1'] using buildOps_isOk rest none (cur.index i)
theorem buildList_isOk : (as : List Ast) → (buildList as).isOk = !untrList as
  | [] => by simp [buildList, untrList, Except.isOk, Except.toBool, pure, Except.pure]
  | a :: as => by
    have ha := build_isOk a; have hl := buildList_isOk as
    simp only [buildList, untrList]
    cases h1 : build a <;> cases h2 : buildList as <;>
      simp_all [Except.isOk, Except.toBool, bind, Except.bind, pure, Except.pure]
theorem buildInits_isOk : (is : List MInit) → (buildInits is).isOk = !untrInits is
  | [] => by simp [buildInits, untrInits, Except.isOk, Except.toBool, pure, Except.pure]
  | .mk _ k v :: rest => by
    have hk := build_isOk k; have hv := build_isOk v; have hl := buildInits_isOk rest
    simp only [buildInits, untrInits]
    cases h1 : build k <;> cases h2 : build v <;> cases h3 : buildInits rest <;>
      simp_all [Except.isOk, Except.toBool, bind, Except.bind, pure, Except.pure]
theorem buildPrim_isOk : (p : Prim) → (buildPrim p).isOk = !untrPrim p
  | .ident .. => by simp [buildPrim, untrPrim, Except.isOk, Except.toBool, pure, Except.pure]
  | .parens _ e => by
    have he := build_isOk e
    simp only [buildPrim, untrPrim]
    cases h1 : build e <;> simp_all [Except.isOk, Except.toBool, bind, Except.bind, pure, Except.pure]
  | .list _ es => by
    have he := buildList_isOk es
    simp only [buildPrim, untrPrim]
    cases h1 : buildList es <;> simp_all [Except.isOk, Except.toBool, bind, Except.bind, pure, Except.pure]
  | .map _ inits => by
    have he := buildInits_isOk inits
    simp only [buildPrim, untrPrim]
    cases h1 : buildInits inits with
    | error x => simp_all [Except.isOk, Except.toBool, bind, Except.bind]
    | ok ds => cases ds <;> simp_all [Except.isOk, Except.toBool, bind, Except.bind, pure, Except.pure]
  | .null .. => by simp [buildPrim, untrPrim, Except.isOk, Except.toBool, pure, Except.pure]
  | .int .. => by simp [buildPrim, untrPrim, Except.isOk, Except.toBool, pure, Except.pure]
  | .uint .. => by simp [buildPrim, untrPrim, Except.isOk, Except.toBool, pure, Except.pure]
  | .float .. => by simp [buildPrim, untrPrim, Except.isOk, Except.toBool, pure, Except.pure]
  | .str .. => by simp [buildPrim, untrPrim, Except.isOk, Except.toBool, pure, Except.pure]
  | .bytes .. => by simp [buildPrim, untrPrim, Except.isOk, Except.toBool]
  | .bool .. => by simp [buildPrim, untrPrim, Except.isOk, Except.toBool, pure, Except.pure]
  | .fstr .. => by simp [buildPrim, untrPrim, Except.isOk, Except.toBool]
end

end Rscel.Sql
