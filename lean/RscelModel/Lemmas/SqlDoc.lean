import RscelModel.Lemmas.SqlLex
/-
The token list of a builder tree, well-formed builder trees, and the lexing theorem:
`lexSql` of the text of a well-formed tree is its token list.
-/
set_option linter.unusedSimpArgs false
namespace Rscel.Sql
open Rscel

/-! ### token lists -/

def okOps : List Str :=
  [['O', 'R'], ['A', 'N', 'D'], ['<'], ['<', '='], ['>', '='], ['>'], ['='], ['<', '>'], ['i', 'n'],
   ['+'], ['-'], ['*'], ['/'], ['%']]

def opTok (op : Str) : STok :=
  if op = ['O', 'R'] ∨ op = ['A', 'N', 'D'] ∨ op = ['i', 'n'] then .word op else .sym op

def dblPrec : Str := ['d', 'o', 'u', 'b', 'l', 'e', ' ', 'p', 'r', 'e', 'c', 'i', 's', 'i', 'o', 'n']

def okTypes : List Str :=
  [['i', 'n', 't', 'e', 'g', 'e', 'r'], ['b', 'i', 'g', 'i', 'n', 't'], dblPrec, ['t', 'e', 'x', 't'],
   ['b', 'o', 'o', 'l', 'e', 'a', 'n'], ['b', 'y', 't', 'e', 'a'], ['t', 'i', 'm', 'e', 's', 't', 'a', 'm', 'p'],
   ['i', 'n', 't', 'e', 'r', 'v', 'a', 'l'], ['j', 's', 'o', 'n']]

def typeToks (ty : Str) : List STok :=
  if ty = dblPrec then [.word ['d', 'o', 'u', 'b', 'l', 'e'], .word ['p', 'r', 'e', 'c', 'i', 's', 'i', 'o', 'n']]
  else [.word ty]

def Lit.toks : Lit → List STok
  | .null => [.word ['N', 'U', 'L', 'L']]
  | .bool true => [.word ['T', 'R', 'U', 'E']]
  | .bool false => [.word ['F', 'A', 'L', 'S', 'E']]
  | .num s => [.num s]
  | .neg s => [.sym ['('], .sym ['-'], .num s, .sym [')']]
  | .str s => [.str s]

def Lit.wf : Lit → Bool
  | .num s => validNum s
  | .neg s => validNum s
  | _ => true

def wrapToks (b : Bool) (ts : List STok) : List STok := if b then .sym ['('] :: ts ++ [.sym [')']] else ts

mutual
def Doc.toks : Doc → List STok
  | .ternary c t f =>
    [.word ['c', 'a', 's', 'e'], .sym ['(']] ++ c.toks
      ++ [.sym [')'], .sym [':', ':'], .word ['b', 'o', 'o', 'l'], .word ['w', 'h', 'e', 'n'], .word ['t', 'r', 'u', 'e'],
          .word ['t', 'h', 'e', 'n'], .sym ['(']]
      ++ t.toks ++ [.sym [')'], .word ['e', 'l', 's', 'e'], .sym ['(']] ++ f.toks ++ [.sym [')'], .word ['e', 'n', 'd']]
  | .binary l op r => .sym ['('] :: l.toks ++ [.sym [')'], opTok op, .sym ['(']] ++ r.toks ++ [.sym [')']]
  | .unary op n x =>
    .sym ['('] :: List.replicate n (.sym [op]) ++ wrapToks (decide (x.prec.rank < 1)) x.toks ++ [.sym [')']]
  | .ident name => [.word name]
  | .lit l => l.toks
  | .parens x => .sym ['('] :: x.toks ++ [.sym [')']]
  | .call f args => wrapToks (decide (f.prec.rank < 2)) f.toks ++ .sym ['('] :: toksList args ++ [.sym [')']]
  | .cast v ty => wrapToks (decide (v.prec.rank < 1)) v.toks ++ .sym [':', ':'] :: typeToks ty
  | .access o f ext => .sym ['('] :: o.toks ++ [.sym [')'], .sym (if ext then ['-', '>', '>'] else ['-', '>']), .str f]
  | .array es => [.word ['A', 'R', 'R', 'A', 'Y'], .sym ['[']] ++ toksList es ++ [.sym [']']]
  | .index a i => .sym ['('] :: wrapToks (decide (a.prec.rank < 2)) a.toks ++ .sym ['['] :: i.toks ++ [.sym [']'], .sym [')']]
def toksList : List Doc → List STok
  | [] => []
  | d :: ds => d.toks ++ toksTail ds
def toksTail : List Doc → List STok
  | [] => []
  | d :: ds => .sym [','] :: d.toks ++ toksTail ds
end

/-! ### well-formed builder trees -/

mutual
/-- Names are plain non-reserved words, operators and types are those of the translation, numbers are
    digit strings, and a `-` is not repeated (`--` would open a comment). -/
def Doc.wf : Doc → Bool
  | .ternary c t f => c.wf && t.wf && f.wf
  | .binary l op r => l.wf && okOps.contains op && r.wf
  | .unary op n x => (op == '!' || (op == '-' && decide (n ≤ 1))) && x.wf
  | .ident name => validIdent name && !isReserved name
  | .lit l => l.wf
  | .parens x => x.wf
  | .call f args => f.wf && wfList args
  | .cast v ty => v.wf && okTypes.contains ty
  | .access o f _ => o.wf && validIdent f
  | .array es => wfList es
  | .index a i => a.wf && i.wf
def wfList : List Doc → Bool
  | [] => true
  | d :: ds => d.wf && wfList ds
end

/-! ### fixed pieces of text -/

theorem DelimStart.cons {c : Char} (h : isDelim c = true) (cs : Str) : DelimStart (c :: cs) := by
  intro c' cs' e; cases e; exact h

theorem lex_lp (X : Str) : run .idle ('(' :: X) = .sym ['('] :: run .idle X := rfl
theorem lex_rp (X : Str) : run .idle (')' :: X) = .sym [')'] :: run .idle X := rfl
theorem lex_lb (X : Str) : run .idle ('[' :: X) = .sym ['['] :: run .idle X := rfl
theorem lex_rb (X : Str) : run .idle (']' :: X) = .sym [']'] :: run .idle X := rfl
theorem lex_comma (X : Str) : run .idle (',' :: ' ' :: X) = .sym [','] :: run .idle X := rfl
theorem lex_cast (X : Str) : run .idle (':' :: ':' :: X) = .sym [':', ':'] :: run .idle X := rfl
theorem lex_bang (X : Str) : run .idle ('!' :: X) = .sym ['!'] :: run .idle X := rfl

theorem lex_bangs (n : Nat) (X : Str) :
    run .idle (List.replicate n '!' ++ X) = List.replicate n (.sym ['!']) ++ run .idle X := by
  induction n with
  | zero => rfl
  | succ n ih => simp only [List.replicate_succ, List.cons_append, lex_bang, ih]

theorem lex_minus (c : Char) (cs : Str) (h1 : c ≠ '-') (h2 : c ≠ '>') :
    run .idle ('-' :: c :: cs) = .sym ['-'] :: run .idle (c :: cs) := by
  have hs : start '-' = (.minus, []) := by decide
  rw [run_cons, step_idle, hs]
  simp only [List.nil_append]
  rw [run_flush]; · rfl
  simp [step, h1, h2]

theorem lex_op (op : Str) (h : okOps.contains op = true) (X : Str) :
    run .idle (')' :: ' ' :: (op ++ ' ' :: '(' :: X)) = .sym [')'] :: opTok op :: .sym ['('] :: run .idle X := by
  simp only [okOps, List.contains_cons, List.contains_nil, Bool.or_false, Bool.or_eq_true, beq_iff_eq] at h
  rcases h with rfl | rfl | rfl | rfl | rfl | rfl | rfl | rfl | rfl | rfl | rfl | rfl | rfl | rfl <;> rfl

theorem lex_type (ty : Str) (h : okTypes.contains ty = true) (rest : Str) (hr : DelimStart rest) :
    run .idle (ty ++ rest) = typeToks ty ++ run .idle rest := by
  simp only [okTypes, List.contains_cons, List.contains_nil, Bool.or_false, Bool.or_eq_true, beq_iff_eq] at h
  rcases h with rfl | rfl | rfl | rfl | rfl | rfl | rfl | rfl | rfl
  case inr.inr.inl =>
    -- double precision: two words
    have : run .idle (dblPrec ++ rest)
        = .word ['d', 'o', 'u', 'b', 'l', 'e'] :: run .idle (['p', 'r', 'e', 'c', 'i', 's', 'i', 'o', 'n'] ++ rest) := rfl
    rw [this, lex_word _ _ (by decide) hr]; rfl
  all_goals (rw [lex_word _ _ (by decide) hr]; rfl)

/-- the closing of a ternary's condition up to the opening of its first branch -/
theorem lex_when (X : Str) :
    run .idle (')' :: ':' :: ':' :: 'b' :: 'o' :: 'o' :: 'l' :: ' ' :: 'w' :: 'h' :: 'e' :: 'n' :: ' ' :: 't' :: 'r' :: 'u' :: 'e' :: ' ' :: 't' :: 'h' :: 'e' :: 'n' :: ' ' :: '(' :: X)
      = [.sym [')'], .sym [':', ':'], .word ['b', 'o', 'o', 'l'], .word ['w', 'h', 'e', 'n'], .word ['t', 'r', 'u', 'e'],
          .word ['t', 'h', 'e', 'n'], .sym ['(']] ++ run .idle X := rfl

theorem lex_else (X : Str) :
    run .idle (')' :: ' ' :: 'e' :: 'l' :: 's' :: 'e' :: ' ' :: '(' :: X)
      = [.sym [')'], .word ['e', 'l', 's', 'e'], .sym ['(']] ++ run .idle X := rfl

theorem lex_case (X : Str) :
    run .idle ('c' :: 'a' :: 's' :: 'e' :: ' ' :: '(' :: X) = [.word ['c', 'a', 's', 'e'], .sym ['(']] ++ run .idle X := rfl

theorem lex_end (rest : Str) (hr : DelimStart rest) :
    run .idle (')' :: ' ' :: 'e' :: 'n' :: 'd' :: rest) = [.sym [')'], .word ['e', 'n', 'd']] ++ run .idle rest := by
  have : run .idle (')' :: ' ' :: 'e' :: 'n' :: 'd' :: rest) = .sym [')'] :: run .idle (['e', 'n', 'd'] ++ rest) := rfl
  rw [this, lex_word _ _ (by decide) hr]; rfl

theorem lex_array (X : Str) :
    run .idle ('A' :: 'R' :: 'R' :: 'A' :: 'Y' :: '[' :: X) = [.word ['A', 'R', 'R', 'A', 'Y'], .sym ['[']] ++ run .idle X := rfl

theorem lex_arrow (f rest : Str) (hf : validIdent f = true) (hr : DelimStart rest) (ext : Bool) :
    run .idle ((if ext then [')', '-', '>', '>', '\''] else [')', '-', '>', '\'']) ++ (f ++ '\'' :: rest))
      = .sym [')'] :: .sym (if ext then ['-', '>', '>'] else ['-', '>']) :: .str f :: run .idle rest := by
  -- a valid identifier contains no quote, so it is its own escaped form
  have hesc : ∀ (w : Str), w.all isWordChar = true → escape w = w := by
    intro w; induction w with
    | nil => intro _; rfl
    | cons c cs ih =>
      intro h; simp only [List.all_cons, Bool.and_eq_true] at h
      have : c ≠ '\'' := by rintro rfl; exact absurd h.1 (by decide)
      simp [escape, this, ih h.2]
  have hq : '\'' :: (f ++ '\'' :: rest) = quote f ++ rest := by
    cases f with
    | nil => simp [validIdent] at hf
    | cons c cs =>
      simp only [validIdent, Bool.and_eq_true] at hf
      have hc : c ≠ '\'' := by rintro rfl; exact absurd hf.1 (by decide)
      simp [quote, escape, hc, hesc cs hf.2]
  cases ext
  · have : run .idle ([')', '-', '>', '\''] ++ (f ++ '\'' :: rest))
        = .sym [')'] :: .sym ['-', '>'] :: run .idle ('\'' :: (f ++ '\'' :: rest)) := rfl
    simp only [Bool.false_eq_true, if_false]
    rw [this, hq, lex_quote _ _ hr.head_ne_quote]
  · have : run .idle ([')', '-', '>', '>', '\''] ++ (f ++ '\'' :: rest))
        = .sym [')'] :: .sym ['-', '>', '>'] :: run .idle ('\'' :: (f ++ '\'' :: rest)) := rfl
    simp only [if_true]
    rw [this, hq, lex_quote _ _ hr.head_ne_quote]


/-! ### the first character of a text -/

/-- not `-` and not `>`: may follow a `-` without changing it into `--` or `->` -/
def okAfterMinus (c : Char) : Prop := c ≠ '-' ∧ c ≠ '>'

theorem okAfterMinus_wordStart {c : Char} (h : isWordStart c = true) : okAfterMinus c :=
  ⟨by rintro rfl; exact absurd h (by decide), by rintro rfl; exact absurd h (by decide)⟩

theorem okAfterMinus_digit {c : Char} (h : isDigitC c = true) : okAfterMinus c :=
  ⟨by rintro rfl; exact absurd h (by decide), by rintro rfl; exact absurd h (by decide)⟩

theorem Lit.text_head (l : Lit) (h : l.wf = true) : ∃ c cs, l.text = c :: cs ∧ okAfterMinus c := by
  cases l with
  | null => exact ⟨_, _, rfl, by decide, by decide⟩
  | bool b => cases b <;> exact ⟨_, _, rfl, by decide, by decide⟩
  | num s =>
    cases s with
    | nil => simp [Lit.wf, validNum] at h
    | cons c cs =>
      simp only [Lit.wf, validNum, Bool.and_eq_true] at h
      exact ⟨c, cs, rfl, okAfterMinus_digit h.1⟩
  | neg s => exact ⟨_, _, rfl, by decide, by decide⟩
  | str s => exact ⟨_, _, rfl, by decide, by decide⟩

theorem Doc.text_head : (d : Doc) → d.wf = true → ∃ c cs, d.text = c :: cs ∧ okAfterMinus c
  | .ternary .., _ => ⟨_, _, by rw [Doc.text]; rfl, by decide, by decide⟩
  | .binary .., _ => ⟨_, _, by rw [Doc.text]; rfl, by decide, by decide⟩
  | .unary .., _ => ⟨_, _, by rw [Doc.text]; rfl, by decide, by decide⟩
  | .ident name, h => by
    cases name with
    | nil => simp [Doc.wf, validIdent] at h
    | cons c cs =>
      simp only [Doc.wf, validIdent, Bool.and_eq_true] at h
      exact ⟨c, cs, by simp [Doc.text], okAfterMinus_wordStart h.1.1⟩
  | .lit l, h => by simpa [Doc.text] using l.text_head (by simpa [Doc.wf] using h)
  | .parens .., _ => ⟨_, _, by rw [Doc.text]; rfl, by decide, by decide⟩
  | .call f args, h => by
    simp only [Doc.wf, Bool.and_eq_true] at h
    by_cases hp : f.prec.rank < Prec.primary.rank
    · exact ⟨'(', _, by simp [Doc.text, hp]; rfl, by decide, by decide⟩
    · obtain ⟨c, cs, e, ok⟩ := f.text_head h.1
      exact ⟨c, _, by simp [Doc.text, hp, e]; rfl, ok⟩
  | .cast v ty, h => by
    simp only [Doc.wf, Bool.and_eq_true] at h
    by_cases hp : v.prec.rank < Prec.cast.rank
    · exact ⟨'(', _, by simp [Doc.text, hp]; rfl, by decide, by decide⟩
    · obtain ⟨c, cs, e, ok⟩ := v.text_head h.1
      exact ⟨c, _, by simp [Doc.text, hp, e]; rfl, ok⟩
  | .access .., _ => ⟨_, _, by rw [Doc.text]; rfl, by decide, by decide⟩
  | .array .., _ => ⟨_, _, by rw [Doc.text]; rfl, by decide, by decide⟩
  | .index .., _ => ⟨_, _, by rw [Doc.text]; rfl, by decide, by decide⟩


/-! ### lexing the text of a builder tree -/

theorem lex_lit (l : Lit) (h : l.wf = true) (rest : Str) (hr : DelimStart rest) :
    run .idle (l.text ++ rest) = l.toks ++ run .idle rest := by
  cases l with
  | null => exact lex_word _ _ (by decide) hr
  | bool b => cases b <;> exact lex_word _ _ (by decide) hr
  | num s => exact lex_num s rest (by simpa [Lit.wf] using h) hr
  | neg s =>
    have hs : validNum s = true := by simpa [Lit.wf] using h
    obtain ⟨c, cs, rfl⟩ : ∃ c cs, s = c :: cs := by
      cases s with
      | nil => simp [validNum] at hs
      | cons c cs => exact ⟨c, cs, rfl⟩
    have hc : okAfterMinus c := by
      simp only [validNum, Bool.and_eq_true] at hs; exact okAfterMinus_digit hs.1
    simp only [Lit.text, Lit.toks, List.cons_append, List.append_assoc, List.nil_append]
    rw [lex_lp, lex_minus _ _ hc.1 hc.2]
    have := lex_num (c :: cs) (')' :: rest) hs (DelimStart.cons (by decide) _)
    simp only [List.cons_append] at this
    rw [this, lex_rp]
  | str s => exact lex_quote _ _ hr.head_ne_quote

/-- lexing `op` repeated `n` times in front of an operand text -/
theorem lex_unops (op : Char) (n : Nat) (h : (op == '!' || (op == '-' && decide (n ≤ 1))) = true)
    (c : Char) (cs : Str) (hc : okAfterMinus c) :
    run .idle (List.replicate n op ++ c :: cs) = List.replicate n (.sym [op]) ++ run .idle (c :: cs) := by
  simp only [Bool.or_eq_true, beq_iff_eq, Bool.and_eq_true, decide_eq_true_eq] at h
  rcases h with rfl | ⟨rfl, hn⟩
  · exact lex_bangs n _
  · match n, hn with
    | 0, _ => rfl
    | 1, _ => exact lex_minus _ _ hc.1 hc.2

mutual
theorem lex_text : (d : Doc) → d.wf = true → ∀ rest, DelimStart rest →
    run .idle (d.text ++ rest) = d.toks ++ run .idle rest
  | .ternary c t f, h, rest, hr => by
    simp only [Doc.wf, Bool.and_eq_true] at h
    simp only [Doc.text, Doc.toks, List.append_assoc, List.cons_append, List.nil_append]
    rw [lex_case, lex_text c h.1.1 _ (DelimStart.cons (by decide) _), lex_when,
      lex_text t h.1.2 _ (DelimStart.cons (by decide) _), lex_else,
      lex_text f h.2 _ (DelimStart.cons (by decide) _), lex_end _ hr]
    try simp [List.append_assoc]
  | .binary l op r, h, rest, hr => by
    simp only [Doc.wf, Bool.and_eq_true] at h
    simp only [Doc.text, Doc.toks, List.append_assoc, List.cons_append, List.nil_append]
    rw [lex_lp, lex_text l h.1.1 _ (DelimStart.cons (by decide) _), lex_op op h.1.2,
      lex_text r h.2 _ (DelimStart.cons (by decide) _), lex_rp]
    try simp [List.append_assoc]
  | .unary op n x, h, rest, hr => by
    simp only [Doc.wf, Bool.and_eq_true] at h
    simp only [Doc.text, Doc.toks, List.append_assoc, List.cons_append, List.nil_append]
    rw [lex_lp]
    by_cases hp : x.prec.rank < Prec.cast.rank
    · have hp' : x.prec.rank < 1 := hp
      simp only [hp, hp', if_true, wrapToks, decide_true, List.cons_append, List.append_assoc, List.nil_append]
      rw [lex_unops op n h.1 '(' _ ⟨by decide, by decide⟩, lex_lp, lex_text x h.2 _ (DelimStart.cons (by decide) _), lex_rp, lex_rp]
      try simp [List.append_assoc]
    · have hp' : ¬ x.prec.rank < 1 := hp
      obtain ⟨c, cs, e, ok⟩ := x.text_head h.2
      simp only [hp, hp', if_false, wrapToks, decide_false, Bool.false_eq_true]
      have e2 : x.text ++ ')' :: rest = c :: (cs ++ ')' :: rest) := by rw [e]; rfl
      rw [e2, lex_unops op n h.1 c _ ok, ← e2, lex_text x h.2 _ (DelimStart.cons (by decide) _), lex_rp]
      try simp [List.append_assoc]
  | .ident name, h, rest, hr => by
    simp only [Doc.wf, Bool.and_eq_true] at h
    simp only [Doc.text, Doc.toks]
    rw [lex_word _ _ h.1 hr]; rfl
  | .lit l, h, rest, hr => by
    simp only [Doc.text, Doc.toks]
    exact lex_lit l (by simpa [Doc.wf] using h) rest hr
  | .parens x, h, rest, hr => by
    simp only [Doc.wf] at h
    simp only [Doc.text, Doc.toks, List.append_assoc, List.cons_append, List.nil_append]
    rw [lex_lp, lex_text x h _ (DelimStart.cons (by decide) _), lex_rp]
    try simp [List.append_assoc]
  | .call f args, h, rest, hr => by
    simp only [Doc.wf, Bool.and_eq_true] at h
    simp only [Doc.text, Doc.toks, List.append_assoc, List.cons_append, List.nil_append]
    by_cases hp : f.prec.rank < Prec.primary.rank
    · have hp' : f.prec.rank < 2 := hp
      simp only [hp, hp', if_true, wrapToks, decide_true, List.cons_append, List.append_assoc, List.nil_append]
      rw [lex_lp, lex_text f h.1 _ (DelimStart.cons (by decide) _), lex_rp, lex_lp,
        lex_list args h.2 _ (DelimStart.cons (by decide) _), lex_rp]
      try simp [List.append_assoc]
    · have hp' : ¬ f.prec.rank < 2 := hp
      simp only [hp, hp', if_false, wrapToks, decide_false, Bool.false_eq_true]
      rw [lex_text f h.1 _ (DelimStart.cons (by decide) _), lex_lp,
        lex_list args h.2 _ (DelimStart.cons (by decide) _), lex_rp]
      try simp [List.append_assoc]
  | .cast v ty, h, rest, hr => by
    simp only [Doc.wf, Bool.and_eq_true] at h
    simp only [Doc.text, Doc.toks, List.append_assoc, List.cons_append, List.nil_append]
    by_cases hp : v.prec.rank < Prec.cast.rank
    · have hp' : v.prec.rank < 1 := hp
      simp only [hp, hp', if_true, wrapToks, decide_true, List.cons_append, List.append_assoc, List.nil_append]
      rw [lex_lp, lex_text v h.1 _ (DelimStart.cons (by decide) _), lex_rp, lex_cast, lex_type ty h.2 _ hr]
      try simp [List.append_assoc]
    · have hp' : ¬ v.prec.rank < 1 := hp
      simp only [hp, hp', if_false, wrapToks, decide_false, Bool.false_eq_true]
      rw [lex_text v h.1 _ (DelimStart.cons (by decide) _), lex_cast, lex_type ty h.2 _ hr]
      try simp [List.append_assoc]
  | .access o f ext, h, rest, hr => by
    simp only [Doc.wf, Bool.and_eq_true] at h
    simp only [Doc.text, Doc.toks, List.append_assoc, List.cons_append, List.nil_append]
    rw [lex_lp]
    have hd : DelimStart ((if ext then [')', '-', '>', '>', '\''] else [')', '-', '>', '\'']) ++ (f ++ '\'' :: rest)) := by
      cases ext <;> exact DelimStart.cons (by decide) _
    rw [lex_text o h.1 _ hd, lex_arrow f rest h.2 hr ext]
    try simp [List.append_assoc]
  | .array es, h, rest, hr => by
    simp only [Doc.wf] at h
    simp only [Doc.text, Doc.toks, List.append_assoc, List.cons_append, List.nil_append]
    rw [lex_array, lex_list es h _ (DelimStart.cons (by decide) _), lex_rb]
    try simp [List.append_assoc]
  | .index a i, h, rest, hr => by
    simp only [Doc.wf, Bool.and_eq_true] at h
    simp only [Doc.text, Doc.toks, List.append_assoc, List.cons_append, List.nil_append]
    rw [lex_lp]
    by_cases hp : a.prec.rank < Prec.primary.rank
    · have hp' : a.prec.rank < 2 := hp
      simp only [hp, hp', if_true, wrapToks, decide_true, List.cons_append, List.append_assoc, List.nil_append]
      rw [lex_lp, lex_text a h.1 _ (DelimStart.cons (by decide) _), lex_rp, lex_lb,
        lex_text i h.2 _ (DelimStart.cons (by decide) _), lex_rb, lex_rp]
      try simp [List.append_assoc]
    · have hp' : ¬ a.prec.rank < 2 := hp
      simp only [hp, hp', if_false, wrapToks, decide_false, Bool.false_eq_true]
      rw [lex_text a h.1 _ (DelimStart.cons (by decide) _), lex_lb,
        lex_text i h.2 _ (DelimStart.cons (by decide) _), lex_rb, lex_rp]
      try simp [List.append_assoc]
theorem lex_list : (ds : List Doc) → wfList ds = true → ∀ rest, DelimStart rest →
    run .idle (textList ds ++ rest) = toksList ds ++ run .idle rest
  | [], _, rest, _ => by simp [textList, toksList]
  | d :: ds, h, rest, hr => by
    simp only [wfList, Bool.and_eq_true] at h
    simp only [textList, toksList, List.append_assoc]
    have hd : DelimStart (textTail ds ++ rest) := by
      cases ds with
      | nil => simpa [textTail] using hr
      | cons e es => simp only [textTail, List.cons_append]; exact DelimStart.cons (by decide) _
    rw [lex_text d h.1 _ hd, lex_tail ds h.2 _ hr]
theorem lex_tail : (ds : List Doc) → wfList ds = true → ∀ rest, DelimStart rest →
    run .idle (textTail ds ++ rest) = toksTail ds ++ run .idle rest
  | [], _, rest, _ => by simp [textTail, toksTail]
  | d :: ds, h, rest, hr => by
    simp only [wfList, Bool.and_eq_true] at h
    simp only [textTail, toksTail, List.append_assoc, List.cons_append]
    have hd : DelimStart (textTail ds ++ rest) := by
      cases ds with
      | nil => simpa [textTail] using hr
      | cons e es => simp only [textTail, List.cons_append]; exact DelimStart.cons (by decide) _
    rw [lex_comma, lex_text d h.1 _ hd, lex_tail ds h.2 _ hr]
end

/-- **The SQL text of a well-formed builder tree lexes to its token list.** -/
theorem lexSql_text (d : Doc) (h : d.wf = true) : lexSql d.text = d.toks := by
  have := lex_text d h [] DelimStart.nil
  simpa [lexSql, run_nil, finish] using this

end Rscel.Sql
