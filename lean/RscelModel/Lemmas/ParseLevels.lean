import RscelModel.Model.Parse
/-
Specification side of C02 and the level-by-level correctness lemmas of the recursive-descent parser
(`Model/Parse.lean`) run on a token list (`listSrc`).

`T` is a derivation tree of the CEL operator grammar

    Expr  := Or ('?' Or ':' Expr)?          Or  := And ('||' And)*       And := Rel ('&&' Rel)*
    Rel   := Add (relop Add)*               Add := Mul (('+'|'-') Mul)*  Mul := Unary (('*'|'/'|'%') Unary)*
    Unary := Member | '!'+ Member | '-'+ Member
    Member := Primary ('.' IDENT | '[' Expr ']' | '(' (Expr (',' Expr)?)? ')')*     Primary := IDENT | INT | '(' Expr ')'

written as a plain binary tree: `T.Wf` says that every child sits at a grammar level its position
admits (left operand: the operator's own level or tighter — grouping to the left; right operand:
strictly tighter; condition and true branch of `?:`: `Or` or tighter; else branch: any expression;
operand of a unary run and base of a postfix operation: a `Member`; calls are given with 0, 1 or 2
arguments).  Terminals carry their source spans, so `render t` is the token
list (with spans) the tree derives and `embed t` is the syntax tree, spans included, that the grammar
assigns to it.
-/
namespace Rscel
namespace C02

abbrev TS := List (Tok × Span)

inductive T
  | ident (sp : Span) (name : Str)
  | int (sp : Span) (n : Nat)
  | paren (lsp rsp : Span) (e : T)
  | nots (o : Span) (os : List Span) (e : T)      -- a run of `!`: first operator, further operators
  | negs (o : Span) (os : List Span) (e : T)      -- a run of unary `-`
  | bin (op : BinOp) (osp : Span) (l r : T)
  | tern (qsp csp : Span) (c t f : T)
  | access (e : T) (dsp isp : Span) (name : Str)          -- `e.name`
  | index (e : T) (lsp rsp : Span) (i : T)                -- `e[i]`
  | call0 (e : T) (lsp rsp : Span)                        -- `e()`
  | call1 (e : T) (lsp rsp : Span) (a : T)                -- `e(a)`
  | call2 (e : T) (lsp rsp : Span) (a : T) (csp : Span) (b : T)   -- `e(a, b)`

/-- Grammar level of the production a node is built by (the table of the property text):
    `?:` 0 < `||` 1 < `&&` 2 < relations and `in` 3 < `+ -` 4 < `* / %` 5 < unary runs 6 < member 7. -/
def T.level : T → Nat
  | .ident .. | .int .. | .paren .. | .access .. | .index .. | .call0 .. | .call1 .. | .call2 .. => 7
  | .nots .. | .negs .. => 6
  | .bin op .. => op.level
  | .tern .. => 0

/-- The tree is a derivation of the grammar. -/
def T.Wf : T → Prop
  | .ident _ _ => True
  | .int _ n => (n : Int) ≤ i64Max
  | .paren _ _ e => e.Wf
  | .nots _ _ e => 7 ≤ e.level ∧ e.Wf
  | .negs _ _ e => 7 ≤ e.level ∧ e.Wf
  | .bin op _ l r => op.level ≤ l.level ∧ op.level + 1 ≤ r.level ∧ l.Wf ∧ r.Wf
  | .tern _ _ c t f => 1 ≤ c.level ∧ 1 ≤ t.level ∧ c.Wf ∧ t.Wf ∧ f.Wf
  | .access e _ _ _ => 7 ≤ e.level ∧ e.Wf
  | .index e _ _ i => 7 ≤ e.level ∧ e.Wf ∧ i.Wf
  | .call0 e _ _ => 7 ≤ e.level ∧ e.Wf
  | .call1 e _ _ a => 7 ≤ e.level ∧ e.Wf ∧ a.Wf
  | .call2 e _ _ a _ b => 7 ≤ e.level ∧ e.Wf ∧ a.Wf ∧ b.Wf

def tokOf : BinOp → Tok
  | .or => .oror | .and => .andand
  | .lt => .lt | .le => .le | .ge => .ge | .gt => .gt | .eq => .eqeq | .ne => .ne | .in_ => .in_
  | .add => .add | .sub => .minus
  | .mul => .mul | .div => .div | .mod => .mod

/-- The token list a derivation tree derives (its yield), left to right. -/
def render : T → TS
  | .ident sp n => [(.ident n, sp)]
  | .int sp n => [(.intLit n, sp)]
  | .paren l r e => (.lparen, l) :: (render e ++ [(.rparen, r)])
  | .nots o os e => (o :: os).map (fun s => (Tok.not, s)) ++ render e
  | .negs o os e => (o :: os).map (fun s => (Tok.minus, s)) ++ render e
  | .bin op osp l r => render l ++ (tokOf op, osp) :: render r
  | .tern q c a b f => render a ++ (.question, q) :: (render b ++ (.colon, c) :: render f)
  | .access e d i n => render e ++ [(.dot, d), (.ident n, i)]
  | .index e l r i => render e ++ (.lbracket, l) :: (render i ++ [(.rbracket, r)])
  | .call0 e l r => render e ++ [(.lparen, l), (.rparen, r)]
  | .call1 e l r a => render e ++ (.lparen, l) :: (render a ++ [(.rparen, r)])
  | .call2 e l r a c b => render e ++ (.lparen, l) :: (render a ++ (.comma, c) :: (render b ++ [(.rparen, r)]))

def runSpan (o : Span) (os : List Span) : Span := ⟨o.s, ((o :: os).getLast?.getD o).e⟩

/-- A member node from its primary and its postfix chain (the span surrounds all of them). -/
def mkMember (p : Prim) (chain : List MOp) : Ast :=
  .member (joinAll p.span (chain.map MOp.span)) p chain

/-- One more postfix operation on a member. -/
def snocOp (a : Ast) (op : MOp) : Ast :=
  match a with
  | .member _ p chain => mkMember p (chain ++ [op])
  | a => a

/-- The syntax tree of a derivation: one node per production, operands in source order (the arguments
    of a call are stored last to first, as `Program::ast()` has them). -/
def embed : T → Ast
  | .ident sp n => .member sp (.ident sp n) []
  | .int sp n => .member sp (.int sp n) []
  | .paren l r e => .member (l.join r) (.parens (l.join r) (embed e)) []
  | .nots o os e => .notRun ((runSpan o os).join (embed e).span) (o :: os) (embed e)
  | .negs o os e => .negRun ((embed e).span.join (runSpan o os)) (o :: os) (embed e)
  | .bin op _ l r => .bin ((embed l).span.join (embed r).span) op (embed l) (embed r)
  | .tern _ _ c t f => .tern ((embed c).span.join (embed f).span) (embed c) (embed t) (embed f)
  | .access e d i n => snocOp (embed e) (.access (d.join i) i n)
  | .index e l r i => snocOp (embed e) (.index (l.join r) (embed i))
  | .call0 e l r => snocOp (embed e) (.call (l.join r) [])
  | .call1 e l r a => snocOp (embed e) (.call (l.join r) [embed a])
  | .call2 e l r a _ b => snocOp (embed e) (.call (l.join r) [embed b, embed a])

/-- Nesting the parser's depth counter reaches below the starting depth (parentheses, else branches,
    unary runs). -/
def nest : T → Nat
  | .ident .. | .int .. => 0
  | .paren _ _ e => nest e + 1
  | .nots _ os e => max (os.length + 1) (nest e)
  | .negs _ os e => max (os.length + 1) (nest e)
  | .bin _ _ l r => max (nest l) (nest r)
  | .tern _ _ c t f => max (nest c) (max (nest t) (nest f + 1))
  | .access e _ _ _ => nest e
  | .index e _ _ i => max (nest e) (nest i + 1)
  | .call0 e _ _ => nest e
  | .call1 e _ _ a => max (nest e) (nest a + 1)
  | .call2 e _ _ a _ b => max (nest e) (max (nest a + 1) (nest b + 1))

/-- Recursion fuel that suffices for the tree (a generous bound). -/
def fuel : T → Nat
  | .ident .. | .int .. => 2
  | .paren _ _ e => fuel e + 20
  | .nots _ os e => os.length + fuel e + 6
  | .negs _ os e => os.length + fuel e + 6
  | .bin _ _ l r => fuel l + fuel r + 12
  | .tern _ _ c t f => fuel c + fuel t + fuel f + 30
  | .access e _ _ _ => fuel e + 1
  | .index e _ _ i => fuel e + fuel i + 20
  | .call0 e _ _ => fuel e + 4
  | .call1 e _ _ a => fuel e + fuel a + 24
  | .call2 e _ _ a _ b => fuel e + fuel a + fuel b + 28

/-- Postfix operations on the spine of a member plus one: iterations of the member loop. -/
def mspine : T → Nat
  | .access e .. | .index e .. | .call0 e .. | .call1 e .. | .call2 e .. => mspine e + 1
  | _ => 1

/-- Number of operators of level `k` on the left spine of `t` plus one: iterations of the level-`k` loop. -/
def spine (k : Nat) : T → Nat
  | .bin op _ l _ => if op.level = k then spine k l + 1 else 1
  | _ => 1

theorem level_le (t : T) : t.level ≤ 7 := by
  cases t <;> simp [T.level]
  case bin op _ _ _ => cases op <;> simp [BinOp.level]

theorem spine_le (k : Nat) (t : T) : spine k t ≤ fuel t := by
  induction t <;> simp [spine, fuel]
  case bin op _ l r ihl _ => split <;> omega

theorem mspine_le (t : T) : mspine t ≤ fuel t := by
  induction t <;> simp [mspine, fuel] <;> omega

theorem spine_of_lt {k : Nat} {t : T} (h : k < t.level) : spine k t = 1 := by
  cases t <;> simp [spine]
  case bin op _ _ _ => simp [T.level] at h; omega

/-! ### Tokens that may follow an operand -/

/-- How tightly a token continues the expression to its left: the level of the loop that consumes it,
    plus one; 0 for tokens that continue nothing (`)`, `:`, `,`, end of input, …). -/
def bindOf : Tok → Nat
  | .question => 1 | .oror => 2 | .andand => 3
  | .lt | .le | .ge | .gt | .eqeq | .ne | .in_ => 4
  | .add | .minus => 5 | .mul | .div | .mod => 6
  | .dot | .lparen | .lbracket => 8
  | _ => 0

/-- The token after an operand lets a parse at level `k` return. -/
def stopAt (k : Nat) : TS → Prop
  | [] => True
  | (tk, _) :: _ => bindOf tk ≤ k

theorem stopAt_mono {k j : Nat} {r : TS} (h : stopAt k r) (hk : k ≤ j) : stopAt j r := by
  cases r with
  | nil => trivial
  | cons x r => obtain ⟨tk, sp⟩ := x; simp [stopAt] at *; omega

theorem bindOf_tokOf (op : BinOp) : bindOf (tokOf op) = op.level + 1 := by
  cases op <;> rfl

/-- Operator recognised by the loop of level `k`. -/
def opAt : Nat → Tok → Option BinOp
  | 1 => fun | .oror => some .or | _ => none
  | 2 => fun | .andand => some .and | _ => none
  | 3 => relOfTok
  | 4 => addOfTok
  | 5 => mulOfTok
  | _ => fun _ => none

theorem opAt_tokOf (op : BinOp) : opAt op.level (tokOf op) = some op := by
  cases op <;> rfl

theorem opAt_none {k : Nat} {tk : Tok} (hk : 1 ≤ k ∧ k ≤ 5) (h : bindOf tk ≤ k) : opAt k tk = none := by
  obtain ⟨h1, h5⟩ := hk
  have : k = 1 ∨ k = 2 ∨ k = 3 ∨ k = 4 ∨ k = 5 := by omega
  rcases this with rfl | rfl | rfl | rfl | rfl <;> cases tk <;>
    first | rfl | (simp [bindOf] at h)

/-- First token of a rendering: never `match`, and for a `Member`-level tree not a unary operator. -/
def startTok : Tok → Bool
  | .ident _ | .intLit _ | .lparen | .not | .minus => true
  | _ => false

theorem render_head (t : T) : ∃ tk sp r, render t = (tk, sp) :: r ∧ startTok tk = true ∧
    (t.Wf → 7 ≤ t.level → tk ≠ .not ∧ tk ≠ .minus) := by
  induction t with
  | ident sp n => exact ⟨_, _, _, rfl, rfl, fun _ _ => by simp⟩
  | int sp n => exact ⟨_, _, _, rfl, rfl, fun _ _ => by simp⟩
  | paren l r e _ => exact ⟨_, _, _, rfl, rfl, fun _ _ => by simp⟩
  | nots o os e _ => exact ⟨_, _, _, rfl, rfl, fun _ h => by simp [T.level] at h⟩
  | negs o os e _ => exact ⟨_, _, _, rfl, rfl, fun _ h => by simp [T.level] at h⟩
  | bin op osp l r ihl _ =>
    obtain ⟨tk, sp, r', h, hs, _⟩ := ihl
    refine ⟨tk, sp, r' ++ (tokOf op, osp) :: render r, by simp [render, h], hs, fun _ h7 => ?_⟩
    cases op <;> simp [T.level, BinOp.level] at h7
  | tern q c a b f iha _ _ =>
    obtain ⟨tk, sp, r', h, hs, _⟩ := iha
    exact ⟨tk, sp, _, by simp [render, h]; rfl, hs, fun _ h7 => by simp [T.level] at h7⟩
  | access e d i n ih =>
    obtain ⟨tk, sp, r', h, hs, hne⟩ := ih
    exact ⟨tk, sp, _, by simp [render, h]; rfl, hs, fun hw _ => hne hw.2 hw.1⟩
  | index e l r i ih _ =>
    obtain ⟨tk, sp, r', h, hs, hne⟩ := ih
    exact ⟨tk, sp, _, by simp [render, h]; rfl, hs, fun hw _ => hne hw.2.1 hw.1⟩
  | call0 e l r ih =>
    obtain ⟨tk, sp, r', h, hs, hne⟩ := ih
    exact ⟨tk, sp, _, by simp [render, h]; rfl, hs, fun hw _ => hne hw.2 hw.1⟩
  | call1 e l r a ih _ =>
    obtain ⟨tk, sp, r', h, hs, hne⟩ := ih
    exact ⟨tk, sp, _, by simp [render, h]; rfl, hs, fun hw _ => hne hw.2.1 hw.1⟩
  | call2 e l r a c b ih _ _ =>
    obtain ⟨tk, sp, r', h, hs, hne⟩ := ih
    exact ⟨tk, sp, _, by simp [render, h]; rfl, hs, fun hw _ => hne hw.2.1 hw.1⟩

/-! ### The token source -/

/-- The parser state sits in front of `toks` at nesting depth `d`; tokenization succeeded and no
    `-9223372036854775808` is pending. -/
def At (ps : PS ListTok) (toks : TS) (d : Nat) : Prop :=
  ps.ts.toks = toks ∧ ps.ts.bad = none ∧ ps.minLit = false ∧ ps.depth = d

theorem pPeek_at {ps : PS ListTok} {toks : TS} {d : Nat} (h : At ps toks d) :
    ∃ ps1, pPeek listSrc ps = .ok (toks.head?, ps1) ∧ At ps1 toks d := by
  obtain ⟨h1, h2, h3, h4⟩ := h
  cases toks with
  | nil => simp [pPeek, listSrc, h1, h2, At, h3, h4]
  | cons t r => simp [pPeek, listSrc, h1, h2, At, h3, h4]

theorem pNext_at {ps : PS ListTok} {t : Tok × Span} {r : TS} {d : Nat} (h : At ps (t :: r) d) :
    ∃ ps1, pNext listSrc ps = .ok (some t, ps1) ∧ At ps1 r d := by
  obtain ⟨h1, h2, h3, h4⟩ := h
  simp [pNext, listSrc, h1, h2, At, h3, h4]

theorem At_depth {ps : PS ListTok} {toks : TS} {d : Nat} (h : At ps toks d) : ps.depth = d := h.2.2.2

theorem At_enter {ps : PS ListTok} {toks : TS} {d : Nat} (h : At ps toks d) :
    At { ps with depth := ps.depth + 1 } toks (d + 1) := by
  obtain ⟨h1, h2, h3, h4⟩ := h
  simp [At, h1, h2, h3, h4]

theorem At_leave {ps : PS ListTok} {toks : TS} {d : Nat} (h : At ps toks (d + 1)) :
    At { ps with depth := ps.depth - 1 } toks d := by
  obtain ⟨h1, h2, h3, h4⟩ := h
  simp [At, h1, h2, h3, h4]

/-! ### The parser's functions by grammar level -/

def parseAt : Nat → Nat → PS ListTok → PRes ListTok Ast
  | 0 => parseExpr listSrc | 1 => parseOr listSrc | 2 => parseAnd listSrc | 3 => parseRel listSrc
  | 4 => parseAdd listSrc | 5 => parseMul listSrc | 6 => parseUnary listSrc | _ => parseMember listSrc

def loopAt : Nat → Nat → Ast → PS ListTok → PRes ListTok Ast
  | 1 => parseOrLoop listSrc | 2 => parseAndLoop listSrc | 3 => parseRelLoop listSrc
  | 4 => parseAddLoop listSrc | _ => parseMulLoop listSrc

/-- A binary level first parses one operand of the next level, then runs its loop. -/
theorem parseAt_step {k : Nat} (hk : 1 ≤ k ∧ k ≤ 5) {f : Nat} {ps ps1 : PS ListTok} {a : Ast}
    (h : parseAt (k + 1) f ps = .ok (a, ps1)) : parseAt k (f + 1) ps = loopAt k f a ps1 := by
  obtain ⟨h1, h5⟩ := hk
  have : k = 1 ∨ k = 2 ∨ k = 3 ∨ k = 4 ∨ k = 5 := by omega
  rcases this with rfl | rfl | rfl | rfl | rfl <;> simp only [parseAt, loopAt] at h ⊢
  · rw [parseOr, h]
  · rw [parseAnd, h]
  · rw [parseRel, h]
  · rw [parseAdd, h]
  · rw [parseMul, h]

/-- The loop of level `k` returns its accumulator in front of a token that binds looser. -/
theorem loop_stop {k : Nat} (hk : 1 ≤ k ∧ k ≤ 5) {f : Nat} {ps : PS ListTok} {rest : TS} {d : Nat} (lhs : Ast)
    (ha : At ps rest d) (hs : stopAt k rest) :
    ∃ ps', loopAt k (f + 1) lhs ps = .ok (lhs, ps') ∧ At ps' rest d := by
  obtain ⟨ps1, e1, a1⟩ := pPeek_at ha
  refine ⟨ps1, ?_, a1⟩
  have hnone : (rest.head?).bind (fun x => opAt k x.1) = none := by
    cases rest with
    | nil => rfl
    | cons x r => obtain ⟨tk, sp⟩ := x; simpa using opAt_none hk hs
  obtain ⟨h1, h5⟩ := hk
  have : k = 1 ∨ k = 2 ∨ k = 3 ∨ k = 4 ∨ k = 5 := by omega
  rcases this with rfl | rfl | rfl | rfl | rfl <;> simp only [loopAt]
  · rw [parseOrLoop, e1]
    cases rest with
    | nil => rfl
    | cons x r =>
      obtain ⟨tk, sp⟩ := x
      cases tk <;> first | rfl | (simp [stopAt, bindOf] at hs)
  · rw [parseAndLoop, e1]
    cases rest with
    | nil => rfl
    | cons x r =>
      obtain ⟨tk, sp⟩ := x
      cases tk <;> first | rfl | (simp [stopAt, bindOf] at hs)
  · rw [parseRelLoop, e1]; simp only [opAt] at hnone; simp only [hnone]
  · rw [parseAddLoop, e1]; simp only [opAt] at hnone; simp only [hnone]
  · rw [parseMulLoop, e1]; simp only [opAt] at hnone; simp only [hnone]

/-- The loop of level `k` in front of one of its operators: it consumes the operator, parses one
    operand of the next level and continues with the left-leaning node. -/
theorem loop_step {op : BinOp} {osp : Span} {ps : PS ListTok} {r : TS} {d : Nat}
    (ha : At ps ((tokOf op, osp) :: r) d) :
    ∃ ps2, At ps2 r d ∧ ∀ (f : Nat) (lhs rhs : Ast) (ps3 : PS ListTok),
      parseAt (op.level + 1) f ps2 = .ok (rhs, ps3) →
      loopAt op.level (f + 1) lhs ps = loopAt op.level f (.bin (lhs.span.join rhs.span) op lhs rhs) ps3 := by
  obtain ⟨ps1, e1, a1⟩ := pPeek_at ha
  obtain ⟨ps2, e2, a2⟩ := pNext_at a1
  refine ⟨ps2, a2, fun f lhs rhs ps3 h => ?_⟩
  cases op <;> simp only [BinOp.level, parseAt, loopAt, tokOf] at h e1 e2 ⊢
  · rw [parseOrLoop, e1]; simp only [List.head?, e2, h]
  · rw [parseAndLoop, e1]; simp only [List.head?, e2, h]
  all_goals first
    | (rw [parseRelLoop, e1]; simp only [List.head?, Option.bind, relOfTok, e2, h])
    | (rw [parseAddLoop, e1]; simp only [List.head?, Option.bind, addOfTok, e2, h])
    | (rw [parseMulLoop, e1]; simp only [List.head?, Option.bind, mulOfTok, e2, h])

end C02
end Rscel
