import RscelModel.Model.Context
import RscelModel.Lemmas.StrOrder
/-
Canonical association lists: `insert` keeps the keys strictly ascending, lookups behave like a finite map,
and — the point of the canonical form — two sorted maps with the same lookups are the same list.
-/
namespace Rscel
namespace KMap
variable {α : Type}

/-- Keys strictly ascending. -/
def Sorted : KMap α → Prop
  | [] => True
  | (k, _) :: rest => (∀ e ∈ rest, strLt k e.1 = true) ∧ Sorted rest

theorem get_insert_self (m : KMap α) (k : Str) (v : α) : get (insert m k v) k = some v := by
  induction m with
  | nil => simp [insert, get]
  | cons e rest ih =>
    obtain ⟨k', v'⟩ := e
    simp only [insert]
    split
    · simp [get]
    · split
      · rename_i h1 h2
        have hne : k' ≠ k := by
          intro e; subst e; simp [strLt_irrefl] at h2
        simp [get, hne, ih]
      · simp [get]

theorem get_insert_other (m : KMap α) (k k2 : Str) (v : α) (hne : k2 ≠ k) :
    get (insert m k v) k2 = get m k2 := by
  induction m with
  | nil => simp [insert, get, hne.symm]
  | cons e rest ih =>
    obtain ⟨k', v'⟩ := e
    simp only [insert]
    split
    · simp [get, hne.symm]
    · split
      · simp only [get]
        split
        · rfl
        · exact ih
      · rename_i h1 h2
        have hk : k = k' := by
          rcases strLt_total k k' with h | h | h
          · simp [h] at h1
          · exact h
          · simp [h] at h2
        subst hk
        simp [get, hne.symm]

theorem mem_insert (m : KMap α) (k : Str) (v : α) (e : Str × α) (he : e ∈ insert m k v) :
    e = (k, v) ∨ e ∈ m := by
  induction m with
  | nil => simp [insert] at he; exact Or.inl he
  | cons x rest ih =>
    obtain ⟨k', v'⟩ := x
    simp only [insert] at he
    split at he
    · rcases List.mem_cons.mp he with h | h
      · exact Or.inl h
      · exact Or.inr h
    · split at he
      · rcases List.mem_cons.mp he with h | h
        · exact Or.inr (by simp [h])
        · rcases ih h with h' | h'
          · exact Or.inl h'
          · exact Or.inr (by simp [h'])
      · rcases List.mem_cons.mp he with h | h
        · exact Or.inl h
        · exact Or.inr (by simp [h])

theorem insert_sorted (m : KMap α) (k : Str) (v : α) (hs : Sorted m) : Sorted (insert m k v) := by
  induction m with
  | nil => simp [insert, Sorted]
  | cons x rest ih =>
    obtain ⟨k', v'⟩ := x
    obtain ⟨h1, h2⟩ := hs
    simp only [insert]
    split
    · rename_i hlt
      refine ⟨?_, h1, h2⟩
      intro e he
      rcases List.mem_cons.mp he with h | h
      · subst h; exact hlt
      · exact strLt_trans _ _ _ hlt (h1 e h)
    · split
      · rename_i hlt
        refine ⟨?_, ih h2⟩
        intro e he
        rcases mem_insert rest k v e he with h | h
        · subst h; exact hlt
        · exact h1 e h
      · rename_i hn1 hn2
        have hk : k = k' := by
          rcases strLt_total k k' with h | h | h
          · exact absurd h hn1
          · exact h
          · exact absurd h hn2
        subst hk
        exact ⟨h1, h2⟩

theorem get_none_of_all_gt (m : KMap α) (k : Str) (h : ∀ e ∈ m, strLt k e.1 = true) : get m k = none := by
  induction m with
  | nil => rfl
  | cons x rest ih =>
    obtain ⟨k', v'⟩ := x
    have hlt : strLt k k' = true := h (k', v') (by simp)
    have hne : k' ≠ k := by
      intro e; subst e; simp [strLt_irrefl] at hlt
    simp only [get, hne, if_false]
    exact ih (fun e he => h e (by simp [he]))

/-- **Canonical form**: sorted maps with the same lookups are equal. -/
theorem ext (m m' : KMap α) (hs : Sorted m) (hs' : Sorted m') (h : ∀ k, get m k = get m' k) : m = m' := by
  induction m generalizing m' with
  | nil =>
    cases m' with
    | nil => rfl
    | cons x rest =>
      obtain ⟨k, v⟩ := x
      have := h k
      simp [get] at this
  | cons x rest ih =>
    obtain ⟨k, v⟩ := x
    cases m' with
    | nil =>
      have := h k
      simp [get] at this
    | cons x' rest' =>
      obtain ⟨k', v'⟩ := x'
      obtain ⟨h1, h2⟩ := hs
      obtain ⟨h1', h2'⟩ := hs'
      have hk : k = k' := by
        rcases strLt_total k k' with hlt | heq | hgt
        · -- k is below every key of m'
          have hn : get ((k', v') :: rest') k = none :=
            get_none_of_all_gt _ k (by
              intro e he
              rcases List.mem_cons.mp he with h' | h'
              · subst h'; exact hlt
              · exact strLt_trans _ _ _ hlt (h1' e h'))
          have := h k
          rw [hn] at this
          simp [get] at this
        · exact heq
        · have hn : get ((k, v) :: rest) k' = none :=
            get_none_of_all_gt _ k' (by
              intro e he
              rcases List.mem_cons.mp he with h' | h'
              · subst h'; exact hgt
              · exact strLt_trans _ _ _ hgt (h1 e h'))
          have := h k'
          rw [hn] at this
          simp [get] at this
      subst hk
      have hv : v = v' := by
        have := h k
        simpa [get] using this
      subst hv
      have hr : rest = rest' := by
        apply ih rest' h2 h2'
        intro x
        by_cases hx : k = x
        · subst hx
          rw [get_none_of_all_gt rest k h1, get_none_of_all_gt rest' k h1']
        · have := h x
          simpa [get, hx] using this
      rw [hr]

theorem insert_insert_same (m : KMap α) (k : Str) (a b : α) (hs : Sorted m) :
    insert (insert m k a) k b = insert m k b := by
  apply ext _ _ (insert_sorted _ _ _ (insert_sorted _ _ _ hs)) (insert_sorted _ _ _ hs)
  intro x
  by_cases hx : x = k
  · subst hx; rw [get_insert_self, get_insert_self]
  · rw [get_insert_other _ _ _ _ hx, get_insert_other _ _ _ _ hx, get_insert_other _ _ _ _ hx]

theorem insert_comm (m : KMap α) (k k' : Str) (a b : α) (hs : Sorted m) (hne : k ≠ k') :
    insert (insert m k a) k' b = insert (insert m k' b) k a := by
  apply ext _ _ (insert_sorted _ _ _ (insert_sorted _ _ _ hs)) (insert_sorted _ _ _ (insert_sorted _ _ _ hs))
  intro x
  by_cases hx : x = k
  · subst hx
    rw [get_insert_other _ _ _ _ hne, get_insert_self, get_insert_self]
  · by_cases hx' : x = k'
    · subst hx'
      rw [get_insert_self, get_insert_other _ _ _ _ hx, get_insert_self]
    · rw [get_insert_other _ _ _ _ hx', get_insert_other _ _ _ _ hx, get_insert_other _ _ _ _ hx,
        get_insert_other _ _ _ _ hx']

/-- Definitions applied in order to a map. -/
def addAll (m : KMap α) (defs : List (Str × α)) : KMap α := defs.foldl (fun m e => insert m e.1 e.2) m

/-- The latest definition of `k` in a history of definitions. -/
def latest (defs : List (Str × α)) (k : Str) : Option α := (defs.reverse.find? (fun e => e.1 = k)).map (·.2)

theorem addAll_sorted (defs : List (Str × α)) : ∀ (m : KMap α), Sorted m → Sorted (addAll m defs) := by
  induction defs with
  | nil => intro m h; exact h
  | cons e rest ih => intro m h; exact ih _ (insert_sorted m e.1 e.2 h)

theorem get_addAll (defs : List (Str × α)) (k : Str) : ∀ (m : KMap α),
    get (addAll m defs) k = match latest defs k with
      | some v => some v
      | none => get m k := by
  induction defs with
  | nil => intro m; simp [addAll, latest]
  | cons e rest ih =>
    intro m
    have := ih (insert m e.1 e.2)
    simp only [addAll, List.foldl_cons] at this ⊢
    rw [this]
    simp only [latest, List.reverse_cons, List.find?_append]
    cases hf : rest.reverse.find? (fun e => e.1 = k) with
    | some x => simp
    | none =>
      simp only [Option.none_or, List.find?_cons, List.find?_nil, Option.map_none]
      by_cases hk : e.1 = k
      · rw [← hk]; simp [get_insert_self]
      · simp only [hk, decide_false, Option.map_none]
        exact get_insert_other m e.1 k e.2 (Ne.symm hk)

/-- **The state is a function of the latest definition per name**: two histories of definitions with the
    same latest definitions produce the same map. -/
theorem addAll_determined (d₁ d₂ : List (Str × α)) (h : ∀ k, latest d₁ k = latest d₂ k) :
    addAll [] d₁ = addAll [] d₂ := by
  apply ext _ _ (addAll_sorted d₁ [] trivial) (addAll_sorted d₂ [] trivial)
  intro k
  rw [get_addAll, get_addAll, h k]

theorem lookup_eq_get (m : KMap α) (k : Str) : lookup m k = get m k := by
  induction m with
  | nil => rfl
  | cons e rest ih => obtain ⟨k', v'⟩ := e; simp only [lookup, get, ih]

end KMap
end Rscel
