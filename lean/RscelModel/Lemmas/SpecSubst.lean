import RscelModel.Model.Subst
import RscelModel.Model.Params
/-
The substitution lemma of the declarative semantics (`Model/Spec.lean`, `Model/Subst.lean`): on the
fragment `Frag`, replacing every identifier primary `x` by a primary `r` that has, in the environment at
hand, the value `x` resolves to, does not change the value of the tree; `substIdent` preserves the fragment;
and `x` no longer occurs.  Used by `Theorems/C09Sem.lean`.
-/
namespace Rscel
namespace SpecSubst

variable {B : Builtins}

/-! ### `substIdent` on the constructors of the fragment -/

theorem subst_member_nil (x : Str) (r : Prim) (sp : Span) (p : Prim) :
    substIdent x r (.member sp p []) = .member sp (substIdentPrim x r p) [] := by
  simp [substIdent, substIdentOps]

theorem es_member_nil (sp : Span) (p : Prim) (env : Env) : evalSpec B (.member sp p []) env = evalSpecPrim B p env := by
  rw [evalSpec, evalSpecOps]
  intros; simp_all

/-- The `-`-run counts its minus signs alike before and after the substitution, unless the replacement is
    the bare primary `int i64Min`. -/
theorem negCount_subst {x : Str} {r : Prim} (hr0 : ∀ sp, r ≠ .int sp i64Min) (ops : List Span) (m : Ast) :
    negCount ops (substIdent x r m) = negCount ops m := by
  cases m with
  | member sp p chain =>
    cases p with
    | ident sp' n =>
      simp only [substIdent, substIdentPrim]
      by_cases hn : n = x
      · simp only [hn, if_true]
        cases r with
        | int sp'' i =>
          have : i ≠ i64Min := fun h => hr0 sp'' (h ▸ rfl)
          simp [negCount, this]
        | _ => simp [negCount]
      · simp [hn, negCount]
    | _ => simp [substIdent, substIdentPrim, negCount]
  | _ => simp [substIdent, negCount]

theorem mem_substList {x : Str} {r : Prim} {a : Ast} :
    ∀ {es : List Ast}, a ∈ substIdentList x r es → ∃ e ∈ es, a = substIdent x r e
  | [], h => by simp [substIdentList] at h
  | e :: es, h => by
    simp only [substIdentList, List.mem_cons] at h
    rcases h with rfl | h
    · exact ⟨e, List.mem_cons_self .., rfl⟩
    · obtain ⟨e', he', rfl⟩ := mem_substList h
      exact ⟨e', List.mem_cons_of_mem _ he', rfl⟩

theorem mem_substCases {x : Str} {r : Prim} {c : MCase} :
    ∀ {cases : List MCase}, c ∈ substIdentCases x r cases →
      ∃ sp p b, MCase.mk sp p b ∈ cases ∧ c = .mk sp (substIdentPat x r p) (substIdent x r b)
  | [], h => by simp [substIdentCases] at h
  | .mk sp p b :: rest, h => by
    simp only [substIdentCases, List.mem_cons] at h
    rcases h with rfl | h
    · exact ⟨sp, p, b, List.mem_cons_self .., rfl⟩
    · obtain ⟨sp', p', b', hm, rfl⟩ := mem_substCases h
      exact ⟨sp', p', b', List.mem_cons_of_mem _ hm, rfl⟩

/-! ### the value is preserved -/

theorem evalSpecList_subst {x : Str} {r : Prim} {env : Env} :
    ∀ (es : List Ast), (∀ e ∈ es, evalSpec B (substIdent x r e) env = evalSpec B e env) →
      evalSpecList B (substIdentList x r es) env = evalSpecList B es env
  | [], _ => by simp [substIdentList, evalSpecList]
  | e :: es, h => by
    simp only [substIdentList, evalSpecList]
    rw [h e (List.mem_cons_self ..), evalSpecList_subst es (fun e' he' => h e' (List.mem_cons_of_mem _ he'))]

theorem evalSpecCases_subst {x : Str} {r : Prim} {env : Env} (vs : Val) :
    ∀ (cases : List MCase),
      (∀ sp p b, MCase.mk sp p b ∈ cases → evalSpec B (substIdent x r b) env = evalSpec B b env) →
      (∀ sp sp1 sp2 op e b, MCase.mk sp (.cmp sp1 sp2 op e) b ∈ cases →
        evalSpec B (substIdent x r e) env = evalSpec B e env) →
      evalSpecCases B (substIdentCases x r cases) vs env = evalSpecCases B cases vs env
  | [], _, _ => by simp [substIdentCases, evalSpecCases]
  | .mk sp p b :: rest, harm, hcmp => by
    have hp : evalSpecPat B (substIdentPat x r p) vs env = evalSpecPat B p vs env := by
      cases p with
      | any _ => simp [substIdentPat, evalSpecPat]
      | type _ _ _ => simp [substIdentPat, evalSpecPat]
      | cmp sp1 sp2 op e =>
        simp only [substIdentPat, evalSpecPat]; rw [hcmp sp sp1 sp2 op e b (List.mem_cons_self ..)]
    have hb := harm sp p b (List.mem_cons_self ..)
    have hr := evalSpecCases_subst vs rest
      (fun sp' p' b' h => harm sp' p' b' (List.mem_cons_of_mem _ h))
      (fun sp' sp1 sp2 op e b' h => hcmp sp' sp1 sp2 op e b' (List.mem_cons_of_mem _ h))
    simp only [substIdentCases, evalSpecCases, hp, hb, hr]

/-- **Substitution.**  If the primary `r` has, in `env`, the value the identifier `x` resolves to (and is
    not the bare token `int i64Min`, which is not an expression of its own — see `negCount`), the tree with
    `r` in place of every `x` has the value of the tree. -/
theorem subst_eval {m : Bool} {e : Ast} (h : Frag m e) {x : Str} {r : Prim} {env : Env}
    (hr0 : ∀ sp, r ≠ .int sp i64Min) (hr : evalSpecPrim B r env = resolveIdent env x) :
    evalSpec B (substIdent x r e) env = evalSpec B e env := by
  induction h with
  | null sp sp' => simp [subst_member_nil, substIdentPrim]
  | int sp sp' i => simp [subst_member_nil, substIdentPrim]
  | uint sp sp' n => simp [subst_member_nil, substIdentPrim]
  | float sp sp' b => simp [subst_member_nil, substIdentPrim]
  | str sp sp' s => simp [subst_member_nil, substIdentPrim]
  | bytes sp sp' b => simp [subst_member_nil, substIdentPrim]
  | bool sp sp' b => simp [subst_member_nil, substIdentPrim]
  | ident sp sp' n =>
    rw [subst_member_nil, es_member_nil, es_member_nil]
    simp only [substIdentPrim]
    by_cases hn : n = x
    · simp only [hn, if_true, hr, evalSpecPrim]
    · simp only [hn, if_false]
  | parens sp sp' e _ ih =>
    rw [subst_member_nil, es_member_nil, es_member_nil]
    simp only [substIdentPrim, evalSpecPrim, ih]
  | list sp sp' es _ ih =>
    rw [subst_member_nil, es_member_nil, es_member_nil]
    simp only [substIdentPrim, evalSpecPrim]
    rw [evalSpecList_subst es ih]
  | notRun sp ops a _ ih => simp only [substIdent, evalSpec, ih]
  | negRun sp ops a _ ih => simp only [substIdent, evalSpec, ih, negCount_subst hr0]
  | bin sp op l r' _ _ ihl ihr => cases op <;> simp only [substIdent, evalSpec, ihl, ihr]
  | tern sp c t f _ _ _ ihc iht ihf => simp only [substIdent, evalSpec, ihc, iht, ihf]
  | match_ sp s cases _ _ _ _ _ ihs iharm ihcmp =>
    simp only [substIdent, evalSpec, ihs]
    exact evalSpecCases_subst _ cases iharm ihcmp

/-! ### the fragment is preserved -/

theorem frag_subst {m : Bool} {e : Ast} (h : Frag m e) {x : Str} {r : Prim}
    (hr : ∀ sp, Frag m (.member sp r [])) : Frag m (substIdent x r e) := by
  induction h with
  | null sp sp' => rw [subst_member_nil]; exact .null ..
  | int sp sp' i => rw [subst_member_nil]; exact .int ..
  | uint sp sp' n => rw [subst_member_nil]; exact .uint ..
  | float sp sp' b => rw [subst_member_nil]; exact .float ..
  | str sp sp' s => rw [subst_member_nil]; exact .str ..
  | bytes sp sp' b => rw [subst_member_nil]; exact .bytes ..
  | bool sp sp' b => rw [subst_member_nil]; exact .bool ..
  | ident sp sp' n =>
    rw [subst_member_nil]
    simp only [substIdentPrim]
    by_cases hn : n = x
    · simp only [hn, if_true]; exact hr sp
    · simp only [hn, if_false]; exact .ident ..
  | parens sp sp' e _ ih => rw [subst_member_nil]; exact .parens _ _ _ ih
  | list sp sp' es _ ih =>
    rw [subst_member_nil]
    refine .list _ _ _ (fun a ha => ?_)
    obtain ⟨e, he, rfl⟩ := mem_substList ha
    exact ih e he
  | notRun sp ops a _ ih => simp only [substIdent]; exact .notRun _ _ _ ih
  | negRun sp ops a _ ih => simp only [substIdent]; exact .negRun _ _ _ ih
  | bin sp op l r' _ _ ihl ihr => simp only [substIdent]; exact .bin _ _ _ _ ihl ihr
  | tern sp c t f _ _ _ ihc iht ihf => simp only [substIdent]; exact .tern _ _ _ _ ihc iht ihf
  | match_ sp s cases hm _ _ _ hnt ihs iharm ihcmp =>
    simp only [substIdent]
    refine .match_ _ _ _ hm ihs ?_ ?_ ?_
    · intro sp' p b hmem
      obtain ⟨sp0, p0, b0, h0, heq⟩ := mem_substCases hmem
      cases heq
      exact iharm _ _ _ h0
    · intro sp' sp1 sp2 op e b hmem
      obtain ⟨sp0, p0, b0, h0, heq⟩ := mem_substCases hmem
      cases p0 with
      | cmp s1 s2 op0 e0 =>
        simp only [substIdentPat] at heq
        cases heq
        exact ihcmp _ _ _ _ _ _ h0
      | type _ _ _ => simp [substIdentPat] at heq
      | any _ => simp [substIdentPat] at heq
    · intro sp' sp1 t name b hmem
      obtain ⟨sp0, p0, b0, h0, heq⟩ := mem_substCases hmem
      cases p0 with
      | cmp s1 s2 op0 e0 => simp [substIdentPat] at heq
      | type s1 t0 name0 => exact hnt sp0 s1 t0 name0 b0 h0
      | any _ => simp [substIdentPat] at heq

/-! ### `x` is gone -/

theorem ids_member_nil (sp : Span) (p : Prim) : identsOf (.member sp p []) = identsOfPrim p := by
  simp [identsOf, identsOfOps]

theorem identsOfList_subst {x : Str} {r : Prim} {n : Str} {P : Prop} :
    ∀ (es : List Ast), (∀ e ∈ es, n ∈ identsOf (substIdent x r e) → P) →
      n ∈ identsOfList (substIdentList x r es) → P
  | [], _, h => by simp [substIdentList, identsOfList] at h
  | e :: es, ih, h => by
    simp only [substIdentList, identsOfList, List.mem_append] at h
    rcases h with h | h
    · exact ih e (List.mem_cons_self ..) h
    · exact identsOfList_subst es (fun e' he' => ih e' (List.mem_cons_of_mem _ he')) h

theorem identsOfCases_subst {x : Str} {r : Prim} {n : Str} {P : Prop} :
    ∀ (cases : List MCase),
      (∀ sp p b, MCase.mk sp p b ∈ cases → n ∈ identsOf (substIdent x r b) → P) →
      (∀ sp sp1 sp2 op e b, MCase.mk sp (.cmp sp1 sp2 op e) b ∈ cases → n ∈ identsOf (substIdent x r e) → P) →
      n ∈ identsOfCases (substIdentCases x r cases) → P
  | [], _, _, h => by simp [substIdentCases, identsOfCases] at h
  | .mk sp p b :: rest, harm, hcmp, h => by
    simp only [substIdentCases, identsOfCases, List.mem_append] at h
    rcases h with (h | h) | h
    · cases p with
      | cmp sp1 sp2 op e =>
        simp only [substIdentPat, identsOfPat] at h
        exact hcmp sp sp1 sp2 op e b (List.mem_cons_self ..) h
      | type _ _ _ => simp [substIdentPat, identsOfPat] at h
      | any _ => simp [substIdentPat, identsOfPat] at h
    · exact harm sp p b (List.mem_cons_self ..) h
    · exact identsOfCases_subst rest
        (fun sp' p' b' hm => harm sp' p' b' (List.mem_cons_of_mem _ hm))
        (fun sp' sp1 sp2 op e b' hm => hcmp sp' sp1 sp2 op e b' (List.mem_cons_of_mem _ hm)) h

/-- After the substitution of a closed primary, `x` is not an identifier of the tree any more. -/
theorem subst_removes {m : Bool} {e : Ast} (h : Frag m e) {x : Str} {r : Prim} (hr : identsOfPrim r = []) :
    x ∉ identsOf (substIdent x r e) := by
  induction h with
  | null sp sp' => simp [subst_member_nil, ids_member_nil, substIdentPrim, identsOfPrim]
  | int sp sp' i => simp [subst_member_nil, ids_member_nil, substIdentPrim, identsOfPrim]
  | uint sp sp' n => simp [subst_member_nil, ids_member_nil, substIdentPrim, identsOfPrim]
  | float sp sp' b => simp [subst_member_nil, ids_member_nil, substIdentPrim, identsOfPrim]
  | str sp sp' s => simp [subst_member_nil, ids_member_nil, substIdentPrim, identsOfPrim]
  | bytes sp sp' b => simp [subst_member_nil, ids_member_nil, substIdentPrim, identsOfPrim]
  | bool sp sp' b => simp [subst_member_nil, ids_member_nil, substIdentPrim, identsOfPrim]
  | ident sp sp' n =>
    rw [subst_member_nil, ids_member_nil]
    simp only [substIdentPrim]
    by_cases hn : n = x
    · simp [hn, hr]
    · simp only [hn, if_false, identsOfPrim, List.mem_singleton]
      exact fun h => hn h.symm
  | parens sp sp' e _ ih =>
    rw [subst_member_nil, ids_member_nil]
    simpa only [substIdentPrim, identsOfPrim] using ih
  | list sp sp' es _ ih =>
    rw [subst_member_nil, ids_member_nil]
    simp only [substIdentPrim, identsOfPrim]
    exact fun hx => identsOfList_subst es (fun e he hmem => ih e he hmem) hx
  | notRun sp ops a _ ih => simpa only [substIdent, identsOf] using ih
  | negRun sp ops a _ ih => simpa only [substIdent, identsOf] using ih
  | bin sp op l r' _ _ ihl ihr =>
    simp only [substIdent, identsOf, List.mem_append]
    exact fun h => h.elim ihl ihr
  | tern sp c t f _ _ _ ihc iht ihf =>
    simp only [substIdent, identsOf, List.mem_append]
    exact fun h => h.elim (fun h => h.elim ihc iht) ihf
  | match_ sp s cases _ _ _ _ _ ihs iharm ihcmp =>
    simp only [substIdent, identsOf, List.mem_append]
    exact fun h => h.elim ihs (identsOfCases_subst cases iharm ihcmp)

/-! ### literals -/

theorem xor_signBit_twice (b : UInt64) : (b ^^^ signBit) ^^^ signBit = b := by
  rw [UInt64.xor_assoc, UInt64.xor_self, UInt64.xor_zero]

/-- The spelling of a literal denotes the literal's value, in every environment. -/
theorem lit_prim_val (l : Lit) (hl : l.InRange) (sp : Span) (env : Env) : evalSpecPrim B (l.prim sp) env = l.val := by
  cases l with
  | null => simp [Lit.prim, evalSpecPrim, Lit.val]
  | uint n => simp [Lit.prim, evalSpecPrim, Lit.val]
  | bool b => simp [Lit.prim, evalSpecPrim, Lit.val]
  | str s => simp [Lit.prim, evalSpecPrim, Lit.val]
  | bytes b => simp [Lit.prim, evalSpecPrim, Lit.val]
  | int i =>
    simp only [Lit.prim, Lit.val]
    split
    · simp [evalSpecPrim]
    · rename_i hneg
      by_cases hmin : i = i64Min
      · subst hmin
        simp [evalSpecPrim, evalSpec, evalSpecOps, negCount, applyN]
      · have h1 : -i ≠ i64Min := by unfold i64Min at *; omega
        have h2 : inI64 i = true := by
          have := hl; simp only [Lit.InRange] at this
          simp [inI64, this.1, this.2]
        simp [hmin, evalSpecPrim, evalSpec, evalSpecOps, negCount, h1, applyN, neg, narrowI, h2]
  | float b =>
    simp only [Lit.prim, Lit.val]
    split
    · simp [evalSpecPrim]
    · simp [evalSpecPrim, evalSpec, evalSpecOps, negCount, applyN, neg, F.neg]
      exact xor_signBit_twice b

theorem lit_prim_ne_min (l : Lit) (sp sp' : Span) : l.prim sp ≠ .int sp' i64Min := by
  cases l with
  | int i =>
    simp only [Lit.prim]
    split
    · rename_i h; intro heq; cases heq; exact absurd h (by decide)
    · intro heq; cases heq
  | float b => simp only [Lit.prim]; split <;> (intro heq; cases heq)
  | _ => intro heq; cases heq

theorem lit_prim_frag (m : Bool) (l : Lit) (sp sp' : Span) : Frag m (.member sp' (l.prim sp) []) := by
  cases l with
  | null => exact .null ..
  | uint n => exact .uint ..
  | bool b => exact .bool ..
  | str s => exact .str ..
  | bytes b => exact .bytes ..
  | int i =>
    simp only [Lit.prim]
    split
    · exact .int ..
    · exact .parens _ _ _ (.negRun _ _ _ (.int ..))
  | float b =>
    simp only [Lit.prim]
    split
    · exact .float ..
    · exact .parens _ _ _ (.negRun _ _ _ (.float ..))

theorem lit_prim_closed (l : Lit) (sp : Span) : identsOfPrim (l.prim sp) = [] := by
  cases l with
  | int i => simp only [Lit.prim]; split <;> simp [identsOfPrim, identsOf, identsOfOps]
  | float b => simp only [Lit.prim]; split <;> simp [identsOfPrim, identsOf, identsOfOps]
  | _ => simp [Lit.prim, identsOfPrim]

end SpecSubst
end Rscel
