import RscelModel.Model.Compile
import RscelModel.Lemmas.LexLit
/-
The parser, compiler and VM on a program that is a single literal token (optionally behind one unary
minus): the path `parseExpr → … → parsePrimary` and back, on the lazy token source the real compiler uses.
-/
namespace Rscel
namespace ParseLit
open LexLit

/-- Parser state: scanner `s`, lookahead `cur`. -/
def st (s : Scan) (cur : Option (Tok × Span)) (d : Nat) (m : Bool) : PS LazyTok :=
  { ts := ⟨s, cur⟩, depth := d, minLit := m }

/-- The literal tokens and the primary node each becomes (`negMin`: directly behind a unary minus whose
    operand is the magnitude 2^63). -/
def litPrim (negMin : Bool) (sp : Span) : Tok → Option Prim
  | .intLit n =>
    if (n : Int) ≤ i64Max then some (.int sp n)
    else if negMin && n == minIntMagnitude then some (.int sp i64Min) else none
  | .uintLit n => some (.uint sp n)
  | .floatLit b => some (.float sp b)
  | .strLit s => some (.str sp s)
  | .bytesLit b => some (.bytes sp b)
  | .boolLit b => some (.bool sp b)
  | .null => some (.null sp)
  | _ => none

def primSpan : Prim → Span
  | .ident sp _ | .parens sp _ | .list sp _ | .map sp _ | .null sp | .int sp _ | .uint sp _
  | .float sp _ | .str sp _ | .bytes sp _ | .bool sp _ | .fstr sp _ => sp

theorem litPrim_span (m : Bool) (sp : Span) (t : Tok) (p : Prim) (h : litPrim m sp t = some p) : primSpan p = sp := by
  cases t <;> simp [litPrim] at h
  all_goals first | (subst h; rfl) | skip
  split at h
  · injection h with h; subst h; rfl
  · split at h
    · injection h with h; subst h; rfl
    · cases h

variable (l : Loc)

/-- At the end of the text every peek answers "no token" and changes nothing. -/
theorem peek_end (d : Nat) (m : Bool) :
    pPeek lazySrc (st ⟨[], l⟩ none d m) = .ok (none, st ⟨[], l⟩ none d m) := rfl

/-- The `min_int_literal` flag after a primary: an integer literal clears it. -/
def minAfter (t : Tok) (m : Bool) : Bool := match t with | .intLit _ => false | _ => m

theorem primary_lit (f : Nat) (t : Tok) (sp : Span) (d : Nat) (m : Bool) (p : Prim)
    (h : litPrim m sp t = some p) :
    parsePrimary lazySrc (f + 1) (st ⟨[], l⟩ (some (t, sp)) d m) =
      .ok (p, st ⟨[], l⟩ none d (minAfter t m)) := by
  cases t <;> simp [litPrim] at h
  all_goals first | (subst h; simp [parsePrimary, pNext, lazySrc, st, minAfter]) | skip
  rename_i n
  by_cases h1 : (n : Int) ≤ i64Max
  · simp only [h1, if_true] at h
    injection h with h; subst h
    simp [parsePrimary, pNext, lazySrc, st, minAfter, h1]
  · simp only [h1, if_false] at h
    by_cases h2 : m = true ∧ n = minIntMagnitude
    · simp only [h2, and_self, if_true] at h
      injection h with h; subst h
      obtain ⟨hm, hn⟩ := h2
      subst hm
      have hbig : ¬ ((minIntMagnitude : Nat) : Int) ≤ i64Max := by decide
      simp [parsePrimary, pNext, lazySrc, st, minAfter, hn, hbig]
    · simp [h2] at h

/-- A literal token that is no primary here (an integer beyond the int range): a syntax error. -/
theorem primary_int_out_of_range (f : Nat) (n : Nat) (sp : Span) (s : Scan) (d : Nat) (m : Bool)
    (h : litPrim m sp (.intLit n) = none) :
    ∃ e, parsePrimary lazySrc (f + 1) (st s (some (.intLit n, sp)) d m) = .error e := by
  simp only [litPrim] at h
  by_cases h1 : (n : Int) ≤ i64Max
  · simp [h1] at h
  · by_cases h2 : (m && n == minIntMagnitude) = true
    · simp [h1, h2] at h
    · exact ⟨⟨sp.s⟩, by simp [parsePrimary, pNext, lazySrc, st, h1, h2]⟩

theorem memberLoop_end (f : Nat) (p : Prim) (d : Nat) (m : Bool) :
    parseMemberLoop lazySrc (f + 1) p [] (st ⟨[], l⟩ none d m) =
      .ok (.member (primSpan p) p [], st ⟨[], l⟩ none d m) := by
  cases p <;> rfl

theorem member_lit (f : Nat) (t : Tok) (sp : Span) (d : Nat) (m : Bool) (p : Prim)
    (h : litPrim m sp t = some p) :
    parseMember lazySrc (f + 2) (st ⟨[], l⟩ (some (t, sp)) d m) =
      .ok (.member sp p [], st ⟨[], l⟩ none d (minAfter t m)) := by
  rw [parseMember, primary_lit l f t sp d m p h]
  simp only [memberLoop_end, litPrim_span m sp t p h]

/-- Literal tokens are not operators. -/
theorem lit_not_op (m : Bool) (sp : Span) (t : Tok) (p : Prim) (h : litPrim m sp t = some p) :
    t ≠ .not ∧ t ≠ .minus ∧ t ≠ .match_ := by
  cases t <;> simp [litPrim] at h <;> simp

theorem unary_lit (f : Nat) (t : Tok) (sp : Span) (d : Nat) (m : Bool) (p : Prim)
    (h : litPrim m sp t = some p) :
    parseUnary lazySrc (f + 3) (st ⟨[], l⟩ (some (t, sp)) d m) =
      .ok (.member sp p [], st ⟨[], l⟩ none d (minAfter t m)) := by
  have hm := member_lit l f t sp d m p h
  cases t <;> simp [litPrim] at h <;> simp_all [parseUnary, pPeek, lazySrc, st]

theorem mulLoop_end (f : Nat) (a : Ast) (d : Nat) (m : Bool) :
    parseMulLoop lazySrc (f + 1) a (st ⟨[], l⟩ none d m) = .ok (a, st ⟨[], l⟩ none d m) := rfl
theorem addLoop_end (f : Nat) (a : Ast) (d : Nat) (m : Bool) :
    parseAddLoop lazySrc (f + 1) a (st ⟨[], l⟩ none d m) = .ok (a, st ⟨[], l⟩ none d m) := rfl
theorem relLoop_end (f : Nat) (a : Ast) (d : Nat) (m : Bool) :
    parseRelLoop lazySrc (f + 1) a (st ⟨[], l⟩ none d m) = .ok (a, st ⟨[], l⟩ none d m) := rfl
theorem andLoop_end (f : Nat) (a : Ast) (d : Nat) (m : Bool) :
    parseAndLoop lazySrc (f + 1) a (st ⟨[], l⟩ none d m) = .ok (a, st ⟨[], l⟩ none d m) := rfl
theorem orLoop_end (f : Nat) (a : Ast) (d : Nat) (m : Bool) :
    parseOrLoop lazySrc (f + 1) a (st ⟨[], l⟩ none d m) = .ok (a, st ⟨[], l⟩ none d m) := rfl

/-- From any state whose `parseUnary` yields `a` and ends at the end of the text, the binary levels above
    it pass `a` through. -/
theorem or_of_unary (f : Nat) (ps : PS LazyTok) (a : Ast) (d : Nat) (m : Bool)
    (h : parseUnary lazySrc (f + 1) ps = .ok (a, st ⟨[], l⟩ none d m)) :
    parseOr lazySrc (f + 6) ps = .ok (a, st ⟨[], l⟩ none d m) := by
  have e1 : parseMul lazySrc (f + 2) ps = .ok (a, st ⟨[], l⟩ none d m) := by
    rw [parseMul, h]; exact mulLoop_end l f a d m
  have e2 : parseAdd lazySrc (f + 3) ps = .ok (a, st ⟨[], l⟩ none d m) := by
    rw [parseAdd, e1]; exact addLoop_end l (f + 1) a d m
  have e3 : parseRel lazySrc (f + 4) ps = .ok (a, st ⟨[], l⟩ none d m) := by
    rw [parseRel, e2]; exact relLoop_end l (f + 2) a d m
  have e4 : parseAnd lazySrc (f + 5) ps = .ok (a, st ⟨[], l⟩ none d m) := by
    rw [parseAnd, e3]; exact andLoop_end l (f + 3) a d m
  rw [parseOr, e4]; exact orLoop_end l (f + 4) a d m

/-- `parseExprUng` / `parseExpr` around an operand that starts with the token `t` (no `match`). -/
theorem exprUng_of_or (f : Nat) (s0 s1 : Scan) (t : Tok) (sp : Span) (a : Ast) (d d' : Nat) (m m' : Bool)
    (hlex : lexToken s0 = .ok (some (t, sp), s1)) (ht : t ≠ .match_)
    (h : parseOr lazySrc f (st s1 (some (t, sp)) d m) = .ok (a, st ⟨[], l⟩ none d' m')) :
    parseExprUng lazySrc (f + 1) (st s0 none d m) = .ok (a, st ⟨[], l⟩ none d' m') := by
  have hp : pPeek lazySrc (st s0 none d m) = .ok (some (t, sp), st s1 (some (t, sp)) d m) := by
    simp [pPeek, lazySrc, st, hlex]
  rw [parseExprUng, hp]
  cases t <;> simp_all [peek_end]

theorem expr_of_ung (f : Nat) (ps : PS LazyTok) (a : Ast) (m' : Bool) (hd : ps.depth < maxNesting)
    (h : parseExprUng lazySrc f { ps with depth := ps.depth + 1 } = .ok (a, st ⟨[], l⟩ none (ps.depth + 1) m')) :
    parseExpr lazySrc (f + 1) ps = .ok (a, st ⟨[], l⟩ none ps.depth m') := by
  have : ¬ ps.depth ≥ maxNesting := by omega
  simp [parseExpr, enter, this, h, st]

/-- A program whose text is one literal token: the syntax tree is that literal. -/
theorem parse_single (src : Str) (t : Tok) (sp : Span) (p : Prim)
    (hlex : lexToken ⟨src, ⟨0, 0⟩⟩ = .ok (some (t, sp), ⟨[], l⟩)) (hp : litPrim false sp t = some p) :
    parseProgram lazySrc src = .ok (.member sp p []) := by
  obtain ⟨k, hk⟩ : ∃ k, parseFuel src.length = k + 10 := ⟨src.length * 4 + 1990, by simp [parseFuel]⟩
  have hu := unary_lit l k t sp 1 false p hp
  have ho := or_of_unary l (k + 2) _ _ _ _ hu
  have hm : minAfter t false = false := by cases t <;> rfl
  rw [hm] at ho
  have he := exprUng_of_or l (k + 8) ⟨src, ⟨0, 0⟩⟩ _ t sp _ 1 1 false false hlex (lit_not_op false sp t p hp).2.2 ho
  have hx := expr_of_ung l (k + 9) (st ⟨src, ⟨0, 0⟩⟩ none 0 false) _ false (by show 0 < 32; decide) he
  unfold parseProgram parseFrom
  rw [hk]
  have hinit : ({ ts := lazySrc.ofText src, depth := 0, minLit := false } : PS LazyTok) =
      st ⟨src, ⟨0, 0⟩⟩ none 0 false := rfl
  rw [hinit, hx]
  simp [peek_end]

/-- A lexical error at the first token is a syntax error of the program. -/
theorem parse_lex_error (src : Str) (e : LexErr) (hlex : lexToken ⟨src, ⟨0, 0⟩⟩ = .error e) :
    ∃ e', parseProgram lazySrc src = .error e' := by
  obtain ⟨k, hk⟩ : ∃ k, parseFuel src.length = k + 2 := ⟨src.length * 4 + 1998, by simp [parseFuel]⟩
  refine ⟨⟨e.loc⟩, ?_⟩
  unfold parseProgram parseFrom
  rw [hk]
  simp [parseExpr, enter, maxNesting, parseExprUng, pPeek, lazySrc, hlex]

/-- One integer token beyond the int range: a syntax error (the parser's range check). -/
theorem parse_single_out_of_range (src : Str) (n : Nat) (sp : Span) (s1 : Scan)
    (hlex : lexToken ⟨src, ⟨0, 0⟩⟩ = .ok (some (.intLit n, sp), s1)) (hn : ¬ (n : Int) ≤ i64Max) :
    ∃ e, parseProgram lazySrc src = .error e := by
  obtain ⟨k, hk⟩ : ∃ k, parseFuel src.length = k + 10 := ⟨src.length * 4 + 1990, by simp [parseFuel]⟩
  refine ⟨⟨sp.s⟩, ?_⟩
  unfold parseProgram parseFrom
  rw [hk]
  simp [parseExpr, enter, maxNesting, parseExprUng, parseOr, parseAnd, parseRel, parseAdd, parseMul, parseUnary,
    parseMember, parsePrimary, pPeek, pNext, lazySrc, hlex, hn]

theorem lexToken_minus (rest : List Char) (loc : Loc) :
    lexToken ⟨'-' :: rest, loc⟩ = .ok (some (.minus, ⟨loc, loc.adv '-'⟩), ⟨rest, loc.adv '-'⟩) := rfl

/-- Is the token the magnitude 2^63 (which the parser reads together with a minus in front of it)? -/
def isMinTok : Tok → Bool
  | .intLit n => n == minIntMagnitude
  | _ => false

theorem unary_neg (f : Nat) (s1 : Scan) (sp0 sp1 : Span) (t : Tok) (p : Prim) (d : Nat) (hd : d < maxNesting)
    (hlex : lexToken s1 = .ok (some (t, sp1), ⟨[], l⟩)) (hp : litPrim (isMinTok t) sp1 t = some p) :
    parseUnary lazySrc (f + 5) (st s1 (some (.minus, sp0)) d false) =
      .ok (.negRun (sp1.join ⟨sp0.s, sp0.e⟩) [sp0] (.member sp1 p []), st ⟨[], l⟩ none d false) := by
  have hm : parseMember lazySrc (f + 4) (st ⟨[], l⟩ (some (t, sp1)) d (isMinTok t)) =
      .ok (.member sp1 p [], st ⟨[], l⟩ none d (minAfter t (isMinTok t))) := member_lit l (f + 2) t sp1 d (isMinTok t) p hp
  have hne := (lit_not_op _ sp1 t p hp).2.1
  have hdd : ¬ d ≥ maxNesting := by omega
  have hrun : parseOpRun lazySrc (f + 4) .minus [] (st s1 (some (.minus, sp0)) d false) =
      .ok ([sp0], st ⟨[], l⟩ (some (t, sp1)) d false) := by
    simp [parseOpRun, pPeek, pNext, lazySrc, st, hlex, hdd, hne]
  have hmin : minAfter t (isMinTok t) = false := by cases t <;> rfl
  rw [hmin] at hm
  have hpeek1 : pPeek lazySrc (st s1 (some (.minus, sp0)) d false) =
      .ok (some (.minus, sp0), st s1 (some (.minus, sp0)) d false) := rfl
  have hpeek2 : pPeek lazySrc (st ⟨[], l⟩ (some (t, sp1)) d false) =
      .ok (some (t, sp1), st ⟨[], l⟩ (some (t, sp1)) d false) := rfl
  rw [parseUnary]
  simp only [hpeek1, hrun, hpeek2]
  simp only [st] at hm ⊢
  cases t <;> simp [litPrim] at hp
  case intLit n =>
    by_cases hn : n = minIntMagnitude
    · simp [isMinTok, hn] at hm
      simp [hn, hm, Ast.span]
    · have hb : (n == minIntMagnitude) = false := by simp [hn]
      simp [isMinTok, hb] at hm
      simp [hn, hm, Ast.span]
  all_goals simp [isMinTok] at hm; simp [hm, Ast.span]

/-- `-` followed by one literal token: a negation run of length one around the literal. -/
theorem parse_neg_single (lit : Str) (t : Tok) (sp1 : Span) (p : Prim)
    (hlex : lexToken ⟨lit, ⟨0, 1⟩⟩ = .ok (some (t, sp1), ⟨[], l⟩)) (hp : litPrim (isMinTok t) sp1 t = some p) :
    parseProgram lazySrc ('-' :: lit) =
      .ok (.negRun (sp1.join ⟨⟨0, 0⟩, ⟨0, 1⟩⟩) [⟨⟨0, 0⟩, ⟨0, 1⟩⟩] (.member sp1 p [])) := by
  obtain ⟨k, hk⟩ : ∃ k, parseFuel ('-' :: lit).length = k + 12 := ⟨lit.length * 4 + 1992, by simp [parseFuel]; omega⟩
  have hu := unary_neg l k ⟨lit, ⟨0, 1⟩⟩ ⟨⟨0, 0⟩, ⟨0, 1⟩⟩ sp1 t p 1 (by decide) hlex hp
  have ho := or_of_unary l (k + 4) _ _ _ _ hu
  have he := exprUng_of_or l (k + 10) ⟨'-' :: lit, ⟨0, 0⟩⟩ _ .minus _ _ 1 1 false false
    (lexToken_minus lit ⟨0, 0⟩) (by decide) ho
  have hx := expr_of_ung l (k + 11) (st ⟨'-' :: lit, ⟨0, 0⟩⟩ none 0 false) _ false (by show 0 < 32; decide) he
  unfold parseProgram parseFrom
  rw [hk]
  have hinit : ({ ts := lazySrc.ofText ('-' :: lit), depth := 0, minLit := false } : PS LazyTok) =
      st ⟨'-' :: lit, ⟨0, 0⟩⟩ none 0 false := rfl
  rw [hinit, hx]
  simp [peek_end]

/-- `-` followed by an integer token above 2^63: a syntax error. -/
theorem parse_neg_out_of_range (lit : Str) (n : Nat) (sp1 : Span) (s2 : Scan)
    (hlex : lexToken ⟨lit, ⟨0, 1⟩⟩ = .ok (some (.intLit n, sp1), s2)) (hn : minIntMagnitude < n) :
    ∃ e, parseProgram lazySrc ('-' :: lit) = .error e := by
  obtain ⟨k, hk⟩ : ∃ k, parseFuel ('-' :: lit).length = k + 12 := ⟨lit.length * 4 + 1992, by simp [parseFuel]; omega⟩
  have h1 : ¬ (n : Int) ≤ i64Max := by unfold minIntMagnitude at hn; unfold i64Max; omega
  have h2 : (n == minIntMagnitude) = false := by
    have : n ≠ minIntMagnitude := by omega
    simp [this]
  refine ⟨⟨sp1.s⟩, ?_⟩
  unfold parseProgram parseFrom
  rw [hk]
  simp [parseExpr, enter, maxNesting, parseExprUng, parseOr, parseAnd, parseRel, parseAdd, parseMul, parseUnary,
    parseOpRun, parseMember, parsePrimary, pPeek, pNext, lazySrc, lexToken_minus, Loc.adv, hlex, h1, h2]

/-- `-` followed by a lexical error: a syntax error. -/
theorem parse_neg_lex_error (lit : Str) (e : LexErr) (hlex : lexToken ⟨lit, ⟨0, 1⟩⟩ = .error e) :
    ∃ e', parseProgram lazySrc ('-' :: lit) = .error e' := by
  obtain ⟨k, hk⟩ : ∃ k, parseFuel ('-' :: lit).length = k + 12 := ⟨lit.length * 4 + 1992, by simp [parseFuel]; omega⟩
  refine ⟨⟨e.loc⟩, ?_⟩
  unfold parseProgram parseFrom
  rw [hk]
  simp [parseExpr, enter, maxNesting, parseExprUng, parseOr, parseAnd, parseRel, parseAdd, parseMul, parseUnary,
    parseOpRun, pPeek, pNext, lazySrc, lexToken_minus, Loc.adv, hlex]

/-! ### compiling and running a literal -/

/-- The value of a literal primary. -/
def primVal : Prim → Option Val
  | .int _ i => some (.int i)
  | .uint _ n => some (.uint n)
  | .float _ b => some (.float b)
  | .str _ s => some (.str s)
  | .bytes _ b => some (.bytes b)
  | .bool _ b => some (.bool b)
  | .null _ => some .null
  | _ => none

theorem exec_literal (B : Builtins) (env : Env) (sp : Span) (p : Prim) (v : Val) (h : primVal p = some v) :
    (execProg B env (compileProgram B (.member sp p []))).res = .ok v := by
  cases p <;> simp [primVal] at h <;> subst h <;> rfl

theorem exec_neg_int (B : Builtins) (env : Env) (i : Int) (h : inI64 (-i) = true) :
    (execProg B env [.push (.int i), .neg]).res = .ok (.int (-i)) := by
  have e : (execProg B env [.push (.int i), .neg]).res =
      (finish (runAt B 31) env true ⟨[.val (neg (.int i))], []⟩).res := rfl
  rw [e]
  simp [finish, popS, neg, narrowI, h]

theorem exec_neg_float (B : Builtins) (env : Env) (b : UInt64) :
    (execProg B env [.push (.float b), .neg]).res = .ok (.float (F.neg b)) := rfl

theorem compile_neg_int (B : Builtins) (sp osp sp1 : Span) (i : Int) (h : i ≠ i64Min) :
    compileProgram B (.negRun sp [osp] (.member sp1 (.int sp1 i) [])) = [.push (.int i), .neg] := by
  simp [compileProgram, compile, compileX, compileOps, compilePrim, CP.toCode, h, List.replicate]

theorem compile_neg_min (B : Builtins) (sp osp sp1 : Span) :
    compileProgram B (.negRun sp [osp] (.member sp1 (.int sp1 i64Min) [])) = [.push (.int i64Min)] := by
  simp [compileProgram, compile, compileX, compileOps, compilePrim, CP.toCode, List.replicate]

theorem compile_neg_float (B : Builtins) (sp osp sp1 : Span) (b : UInt64) :
    compileProgram B (.negRun sp [osp] (.member sp1 (.float sp1 b) [])) = [.push (.float b), .neg] := by
  simp [compileProgram, compile, compileX, compileOps, compilePrim, CP.toCode, List.replicate]

theorem exec_push_int (B : Builtins) (env : Env) (i : Int) :
    (execProg B env [.push (.int i)]).res = .ok (.int i) := rfl

end ParseLit
end Rscel
