import RscelModel.Model.Serde
/-
Primitive codec lemmas for `Model/Serde.lean`: fixed-width little-endian integers, strings,
sequences, and the enum layouts (index written = index accepted, name written = name accepted).
-/
namespace Rscel.Serde
open Rscel

/-! ### layouts -/

/-- `CelValue`: for every variant that is serialised at all, the index written selects that variant. -/
theorem deTag_value (t : VTag) (h : t ≠ .vMessage ∧ t ≠ .vEnum ∧ t ≠ .vDyn) :
    deTag valueLayout (declIdx valueLayout t) = some t := by
  cases t <;> first | rfl | simp at h

theorem deTag_instr (t : ITag) : deTag instrLayout (declIdx instrLayout t) = some t := by
  cases t <;> rfl

theorem deTag_err (t : ETag) : deTag errLayout (declIdx errLayout t) = some t := by
  cases t <;> rfl

theorem deTag_when (t : Bool) : deTag whenLayout (declIdx whenLayout t) = some t := by
  cases t <;> rfl

theorem declIdx_value_lt (t : VTag) : declIdx valueLayout t < 4294967296 := by
  cases t <;> decide

theorem declIdx_instr_lt (t : ITag) : declIdx instrLayout t < 4294967296 := by
  cases t <;> decide

theorem declIdx_err_lt (t : ETag) : declIdx errLayout t < 4294967296 := by
  cases t <;> decide

theorem declIdx_when_lt (t : Bool) : declIdx whenLayout t < 4294967296 := by
  cases t <;> decide

theorem tagOfName_value (t : VTag) (h : t ≠ .vMessage ∧ t ≠ .vEnum ∧ t ≠ .vDyn) :
    tagOfName valueLayout (nameV t) = some t := by
  cases t <;> first | decide | simp at h

theorem tagOfName_instr (t : ITag) : tagOfName instrLayout (nameI t) = some t := by
  cases t <;> decide

theorem tagOfName_err (t : ETag) : tagOfName errLayout (nameE t) = some t := by
  cases t <;> decide

theorem tagOfName_when (t : Bool) : tagOfName whenLayout (nameW t) = some t := by
  cases t <;> decide

/-! ### integers -/

theorem byteOf_toNat (n : Nat) : (byteOf n).toNat = n % 256 := by simp [byteOf]

theorem rdU32_u32le (n : Nat) (h : n < 4294967296) (rest : List UInt8) :
    rdU32 (u32le n ++ rest) = some (n, rest) := by
  simp only [u32le, rdU32, List.cons_append, List.nil_append, byteOf_toNat]
  congr 2
  omega

theorem rdU64_u64le (n : Nat) (h : n < 18446744073709551616) (rest : List UInt8) :
    rdU64 (u64le n ++ rest) = some (n, rest) := by
  simp only [u64le, u32le, rdU64, rdU32, List.cons_append, List.nil_append, byteOf_toNat]
  congr 2
  omega

theorem rdI64_i64le (i : Int) (h : inI64 i = true) (rest : List UInt8) :
    rdI64 (i64le i ++ rest) = some (i, rest) := by
  rw [inI64_iff] at h
  have hlt : (i % 18446744073709551616).toNat < 18446744073709551616 := by omega
  simp only [i64le, rdI64, rdU64_u64le _ hlt]
  congr 2
  split <;> omega

theorem rdI32_i32le (i : Int) (h : fitsI32 i = true) (rest : List UInt8) :
    rdI32 (i32le i ++ rest) = some (i, rest) := by
  simp only [fitsI32, Bool.and_eq_true, decide_eq_true_eq] at h
  have hlt : (i % 4294967296).toNat < 4294967296 := by omega
  simp only [i32le, rdI32, rdU32_u32le _ hlt]
  congr 2
  split <;> omega

theorem rdBytes_append (l rest : List UInt8) : rdBytes l.length (l ++ rest) = some (l, rest) := by
  simp [rdBytes]

/-! ### strings -/

theorem fromUTF8?_toUTF8 (s : String) : String.fromUTF8? s.toUTF8 = some s := by
  unfold String.fromUTF8?
  have h : s.toUTF8.IsValidUTF8 := s.isValidUTF8
  rw [dif_pos h]
  congr 1

theorem ofUtf8_utf8 (s : Str) : ofUtf8 (utf8 s) = some s := by
  unfold ofUtf8 utf8
  have : (⟨(String.ofList s).toUTF8.data.toList.toArray⟩ : ByteArray) = (String.ofList s).toUTF8 := by simp
  rw [this, fromUTF8?_toUTF8]; simp

theorem rdStr_encStr (s : Str) (h : fitsStr s = true) (rest : List UInt8) :
    rdStr (encStr s ++ rest) = some (s, rest) := by
  simp only [fitsStr, fitsLen, decide_eq_true_eq] at h
  simp only [encStr, rdStr, List.append_assoc, rdU64_u64le _ h, rdBytes_append, ofUtf8_utf8]

theorem rdOptStr_enc (s : Option Str) (h : fitsOpt s = true) (rest : List UInt8) :
    rdOptStr (encOptStr s ++ rest) = some (s, rest) := by
  cases s with
  | none => simp [encOptStr, rdOptStr]
  | some s => simp only [fitsOpt] at h; simp [encOptStr, rdOptStr, rdStr_encStr s h]

theorem rdBool_enc (b : Bool) (rest : List UInt8) : rdBool (encBool b ++ rest) = some (b, rest) := by
  cases b <;> simp [encBool, rdBool]

theorem decSeq_strs (l : List Str) (h : fitsStrs l = true) (rest : List UInt8) :
    decSeq rdStr l.length (encStrs l ++ rest) = some (l, rest) := by
  induction l with
  | nil => simp [decSeq, encStrs]
  | cons s ss ih =>
    simp only [fitsStrs, Bool.and_eq_true] at h
    simp only [List.length_cons, decSeq, encStrs, List.append_assoc, rdStr_encStr s h.1, ih h.2]

/-! ### tags -/

theorem rd_tagV (t : VTag) (rest : List UInt8) : rdU32 (tagV t ++ rest) = some (declIdx valueLayout t, rest) :=
  rdU32_u32le _ (declIdx_value_lt t) rest

theorem rd_tagI (t : ITag) (rest : List UInt8) : rdU32 (tagI t ++ rest) = some (declIdx instrLayout t, rest) :=
  rdU32_u32le _ (declIdx_instr_lt t) rest

theorem rd_tagE (t : ETag) (rest : List UInt8) : rdU32 (tagE t ++ rest) = some (declIdx errLayout t, rest) :=
  rdU32_u32le _ (declIdx_err_lt t) rest

theorem rd_tagW (t : Bool) (rest : List UInt8) : rdU32 (tagW t ++ rest) = some (declIdx whenLayout t, rest) :=
  rdU32_u32le _ (declIdx_when_lt t) rest

/-! ### error payloads -/

theorem rdErr_enc (e : CErr) (h : fitsErr e = true) (rest : List UInt8) :
    rdErr (encErr e ++ rest) = some (e, rest) := by
  cases e with
  | syn l c m =>
    cases m with
    | none =>
      simp only [fitsErr, Bool.and_eq_true, fitsLen, decide_eq_true_eq] at h
      simp [encErr, rdErr, rd_tagE, deTag_err, rdU64_u64le _ h.1, rdU64_u64le _ h.2, rdOptStr_enc none rfl]
    | some m =>
      simp only [fitsErr, Bool.and_eq_true, fitsLen, decide_eq_true_eq] at h
      have hm : fitsOpt (some m) = true := h.2
      simp [encErr, rdErr, rd_tagE, deTag_err, rdU64_u64le _ h.1.1, rdU64_u64le _ h.1.2, rdOptStr_enc (some m) hm]
  | attr p f =>
    simp only [fitsErr, Bool.and_eq_true] at h
    simp [encErr, rdErr, rd_tagE, deTag_err, rdStr_encStr p h.1, rdStr_encStr f h.2]
  | divZero => simp [encErr, rdErr, rd_tagE, deTag_err]
  | misc m => simp only [fitsErr] at h; simp [encErr, rdErr, rd_tagE, deTag_err, rdStr_encStr m h]
  | value m => simp only [fitsErr] at h; simp [encErr, rdErr, rd_tagE, deTag_err, rdStr_encStr m h]
  | argument m => simp only [fitsErr] at h; simp [encErr, rdErr, rd_tagE, deTag_err, rdStr_encStr m h]
  | invalidOp m => simp only [fitsErr] at h; simp [encErr, rdErr, rd_tagE, deTag_err, rdStr_encStr m h]
  | runtime m => simp only [fitsErr] at h; simp [encErr, rdErr, rd_tagE, deTag_err, rdStr_encStr m h]
  | binding m => simp only [fitsErr] at h; simp [encErr, rdErr, rd_tagE, deTag_err, rdStr_encStr m h]
  | internal m => simp only [fitsErr] at h; simp [encErr, rdErr, rd_tagE, deTag_err, rdStr_encStr m h]

end Rscel.Serde
