import RscelModel.Lemmas.SqlParse
/-
The token list of a well-formed builder tree parses back to the tree it denotes, with fuel linear in the
number of tokens.
-/
set_option linter.unusedSimpArgs false
set_option linter.unusedVariables false
namespace Rscel.Sql
open Rscel

/-- as a whole expression, in front of a token that ends an expression -/
def EProp (d : Doc) : Prop := ∀ rest, Stop rest → PE (4 * d.toks.length + 3) 0 (d.toks ++ rest) d.tree rest

/-- as the head of a postfix chain: whatever the chain behind it yields -/
def UProp (d : Doc) : Prop :=
  1 ≤ d.prec.rank → ∀ b rest t r', (d.prec.rank = 1 → bracketNext rest = false) → PL b d.tree rest t r' →
    PU (b + 4 * d.toks.length) (d.toks ++ rest) t r'

theorem E_of_U {d : Doc} (hp : 1 ≤ d.prec.rank) (hu : UProp d) : EProp d := by
  intro rest hs
  exact (PE.ofUnary (hu hp 1 rest _ _ (fun _ => hs.noBracket) (PL.stop hs.noPost)) hs).le (by omega)

theorem stop_rp (r : List STok) : Stop (.sym [')'] :: r) := Stop.cons (by decide) r

theorem PU_atom {n1 n2 ts p r1 t r2} (hp : PP n1 ts p r1) (hl : PL n2 p r1 t r2) (hh : ∀ s r, ts = .sym s :: r → s = ['(']) :
    PU (n1 + n2 + 1) ts t r2 :=
  PU.mk hp hl (fun s r e => by rw [hh s r e]; rfl)

/-- an operand that `operand_to_sql` parenthesises when it binds less tightly than `k` -/
theorem PU_wrap {d : Doc} (he : EProp d) (hu : UProp d) (k : Nat) (hk : 1 ≤ k) (b : Nat) (rest : List STok) (t : SqlTree)
    (r' : List STok) (hb : d.prec.rank = 1 → k ≤ d.prec.rank → bracketNext rest = false) (hl : PL b d.tree rest t r') :
    PU (b + 4 * (wrapToks (decide (d.prec.rank < k)) d.toks).length) (wrapToks (decide (d.prec.rank < k)) d.toks ++ rest) t r' := by
  by_cases hp : d.prec.rank < k
  · simp only [hp, decide_true, wrapToks, if_true, List.cons_append, List.append_assoc]
    refine' (PU_atom (PP.parens (he _ (stop_rp rest))) hl ?_).le ?_
    · intro s r e; cases e; rfl
    · simp only [List.length_cons, List.length_append, List.length_nil]; omega
  · simp only [hp, decide_false, wrapToks, Bool.false_eq_true, if_false]
    exact hu (by omega) b rest t r' (fun h1 => hb h1 (by omega)) hl

theorem unRun_parse (op : Char) (hop : isPrefixOp [op] = true) (k : Nat) (ts : List STok) (t : SqlTree) (r : List STok)
    (h : PU k ts t r) : ∀ n, PU (k + n) (List.replicate n (.sym [op]) ++ ts) (unRun op n t) r
  | 0 => by simpa [unRun] using h
  | n + 1 => by
    simp only [List.replicate_succ, List.cons_append, unRun]
    exact PU.prefix hop (unRun_parse op hop k ts t r h n)

macro "lens" : tactic =>
  `(tactic| (simp only [Doc.toks, Lit.toks, toksList, toksTail, List.length_append, List.length_cons, List.length_nil,
      List.length_replicate]; omega))

/-- the head token is `(` (for `PU_atom`) -/
theorem head_lp (ts : List STok) : ∀ s r, .sym ['('] :: ts = .sym s :: r → s = ['('] := by
  intro s r e; cases e; rfl
theorem head_word (w : Str) (ts : List STok) : ∀ s r, .word w :: ts = .sym s :: r → s = ['('] := by
  intro s r e; cases e
theorem head_num (w : Str) (ts : List STok) : ∀ s r, .num w :: ts = .sym s :: r → s = ['('] := by
  intro s r e; cases e
theorem head_str (w : Str) (ts : List STok) : ∀ s r, .str w :: ts = .sym s :: r → s = ['('] := by
  intro s r e; cases e
theorem noPost_word (w : Str) (ts : List STok) : NoPost (.word w :: ts) := by
  intro t0 r0 e; cases e; rfl

mutual
theorem parse_doc : (d : Doc) → d.wf = true → EProp d ∧ UProp d
  | .ternary c t f, h => by
    simp only [Doc.wf, Bool.and_eq_true] at h
    have hc := (parse_doc c h.1.1).1
    have ht := (parse_doc t h.1.2).1
    have hf := (parse_doc f h.2).1
    have hu : UProp (.ternary c t f) := by
      intro _ b rest t' r' _ hl
      have key : PU (b + (4 * c.toks.length + 4 * t.toks.length + 4 * f.toks.length + 40)) ((Doc.ternary c t f).toks ++ rest) t' r' := by
        simp only [Doc.toks, List.append_assoc, List.cons_append, List.nil_append]
        exact (PU_atom (PP.case_
          (r1 := .word ['t', 'r', 'u', 'e'] :: .word ['t', 'h', 'e', 'n'] :: .sym ['('] :: (t.toks ++ .sym [')'] :: .word ['e', 'l', 's', 'e'] :: .sym ['('] :: (f.toks ++ .sym [')'] :: .word ['e', 'n', 'd'] :: rest)))
          (r2 := .sym ['('] :: (t.toks ++ .sym [')'] :: .word ['e', 'l', 's', 'e'] :: .sym ['('] :: (f.toks ++ .sym [')'] :: .word ['e', 'n', 'd'] :: rest)))
          (r3 := .sym ['('] :: (f.toks ++ .sym [')'] :: .word ['e', 'n', 'd'] :: rest))
          (PE.ofUnary (PU_atom (PP.parens (hc _ (stop_rp _))) (PL.cast (ty := ['b', 'o', 'o', 'l']) (by rfl) (by rfl) (PL.stop (noPost_word _ _))) (head_lp _)) (Stop.cons (by decide) _))
          (PE.ofUnary (PU_atom (PP.one (by rfl)) (PL.stop (noPost_word _ _)) (head_word _ _)) (Stop.cons (by decide) _))
          (PE.ofUnary (PU_atom (PP.parens (ht _ (stop_rp _))) (PL.stop (noPost_word _ _)) (head_lp _)) (Stop.cons (by decide) _))
          (PE.ofUnary (PU_atom (PP.parens (hf _ (stop_rp _))) (PL.stop (noPost_word _ _)) (head_lp _)) (Stop.cons (by decide) _)))
          hl (head_word _ _)).le (by omega)
      exact key.le (by lens)
    exact ⟨E_of_U (by simp [Doc.prec, Prec.rank]) hu, hu⟩
  | .binary l op r, h => by
    simp only [Doc.wf, Bool.and_eq_true] at h
    have hl := (parse_doc l h.1.1).1
    have hr := (parse_doc r h.2).1
    refine ⟨?_, fun hp => absurd hp (by simp [Doc.prec, Prec.rank])⟩
    intro rest hs
    have key : PE (4 * l.toks.length + 4 * r.toks.length + 17) 0 ((Doc.binary l op r).toks ++ rest) (Doc.binary l op r).tree rest := by
      simp only [Doc.toks, Doc.tree, List.append_assoc, List.cons_append, List.nil_append]
      exact (PE.mk (PU_atom (PP.parens (hl _ (stop_rp _))) (PL.stop (opTok_noPost op h.1.2 _)) (head_lp _))
        (PBL.step (binop_opTok op h.1.2) (by omega)
          (PE.ofUnary (PU_atom (PP.parens (hr _ (stop_rp _))) (PL.stop hs.noPost) (head_lp _)) hs)
          (PBL.stop hs.noBin))).le (by omega)
    exact key.le (by lens)
  | .unary op n x, h => by
    simp only [Doc.wf, Bool.and_eq_true] at h
    have hx := parse_doc x h.2
    have hop : isPrefixOp [op] = true := by
      have := h.1
      simp only [Bool.or_eq_true, beq_iff_eq, Bool.and_eq_true] at this
      rcases this with rfl | ⟨rfl, _⟩ <;> rfl
    have hu : UProp (.unary op n x) := by
      intro _ b rest t' r' _ hl
      have key : PU (b + (4 * (wrapToks (decide (x.prec.rank < 1)) x.toks).length + n + 6)) ((Doc.unary op n x).toks ++ rest) t' r' := by
        simp only [Doc.toks, List.append_assoc, List.cons_append, List.nil_append]
        have inner := PU_wrap hx.1 hx.2 1 (by omega) 1 (.sym [')'] :: rest) x.tree (.sym [')'] :: rest) (fun _ _ => rfl)
          (PL.stop (stop_rp rest).noPost)
        exact (PU_atom (PP.parens (PE.ofUnary (unRun_parse op hop _ _ _ _ inner n) (stop_rp _))) hl (head_lp _)).le (by omega)
      exact key.le (by lens)
    exact ⟨E_of_U (by simp [Doc.prec, Prec.rank]) hu, hu⟩
  | .ident name, h => by
    simp only [Doc.wf, Bool.and_eq_true, Bool.not_eq_true'] at h
    have hu : UProp (.ident name) := by
      intro _ b rest t' r' _ hl
      simp only [Doc.toks, List.cons_append, List.nil_append]
      exact (PU_atom (PP.ident h.2 rest) hl (head_word _ _)).le (by simp only [List.length_cons, List.length_nil]; omega)
    exact ⟨E_of_U (by simp [Doc.prec, Prec.rank]) hu, hu⟩
  | .lit l, h => by
    have hu : UProp (.lit l) := by
      intro _ b rest t' r' _ hl
      simp only [Doc.toks]
      cases l with
      | null => exact (PU_atom (PP.one (by rfl)) hl (head_word _ _)).le (by simp only [Lit.toks, List.length_cons, List.length_nil]; omega)
      | bool bb => cases bb <;> exact (PU_atom (PP.one (by rfl)) hl (head_word _ _)).le (by simp only [Lit.toks, List.length_cons, List.length_nil]; omega)
      | num s => exact (PU_atom (PP.one (by rfl)) hl (head_num _ _)).le (by simp only [Lit.toks, List.length_cons, List.length_nil]; omega)
      | str s => exact (PU_atom (PP.one (by rfl)) hl (head_str _ _)).le (by simp only [Lit.toks, List.length_cons, List.length_nil]; omega)
      | neg s =>
        simp only [Lit.toks, List.cons_append, List.nil_append]
        exact (PU_atom (PP.parens (PE.ofUnary (PU.prefix (by rfl) (PU_atom (PP.one (by rfl)) (PL.stop (stop_rp _).noPost) (head_num _ _))) (stop_rp _))) hl (head_lp _)).le
          (by simp only [List.length_cons, List.length_nil]; omega)
    exact ⟨E_of_U (by simp [Doc.prec, Prec.rank]) hu, hu⟩
  | .parens x, h => by
    simp only [Doc.wf] at h
    have hx := (parse_doc x h).1
    have hu : UProp (.parens x) := by
      intro _ b rest t' r' _ hl
      have key : PU (b + (4 * x.toks.length + 5)) ((Doc.parens x).toks ++ rest) t' r' := by
        simp only [Doc.toks, List.append_assoc, List.cons_append, List.nil_append]
        exact (PU_atom (PP.parens (hx _ (stop_rp _))) hl (head_lp _)).le (by omega)
      exact key.le (by lens)
    exact ⟨E_of_U (by simp [Doc.prec, Prec.rank]) hu, hu⟩
  | .call f args, h => by
    simp only [Doc.wf, Bool.and_eq_true] at h
    have hf := parse_doc f h.1
    have ha := parse_args args h.2
    have hu : UProp (.call f args) := by
      intro _ b rest t' r' _ hl
      have key : PU (b + (4 * (wrapToks (decide (f.prec.rank < 2)) f.toks).length + 4 * (toksList args).length + 7)) ((Doc.call f args).toks ++ rest) t' r' := by
        simp only [Doc.toks, List.append_assoc, List.cons_append, List.nil_append]
        exact (PU_wrap hf.1 hf.2 2 (by omega) _ _ _ _ (fun h1 h2 => by omega) (PL.call (ha [')'] rest (Or.inl rfl)) hl)).le (by omega)
      exact key.le (by lens)
    exact ⟨E_of_U (by simp [Doc.prec, Prec.rank]) hu, hu⟩
  | .cast v ty, h => by
    simp only [Doc.wf, Bool.and_eq_true] at h
    have hv := parse_doc v h.1
    have hu : UProp (.cast v ty) := by
      intro _ b rest t' r' hb hl
      have hbr : bracketNext rest = false := hb (by simp [Doc.prec, Prec.rank])
      have key : PU (b + (4 * (wrapToks (decide (v.prec.rank < 1)) v.toks).length + 1)) ((Doc.cast v ty).toks ++ rest) t' r' := by
        simp only [Doc.toks, List.append_assoc, List.cons_append, List.nil_append]
        exact (PU_wrap hv.1 hv.2 1 (by omega) _ _ _ _ (fun _ _ => rfl) (PL.cast (pType_typeToks ty h.2 rest) hbr hl)).le (by omega)
      exact key.le (by lens)
    exact ⟨E_of_U (by simp [Doc.prec, Prec.rank]) hu, hu⟩
  | .access o f ext, h => by
    simp only [Doc.wf, Bool.and_eq_true] at h
    have ho := (parse_doc o h.1).1
    refine ⟨?_, fun hp => absurd hp (by simp [Doc.prec, Prec.rank])⟩
    intro rest hs
    have key : PE (4 * o.toks.length + 14) 0 ((Doc.access o f ext).toks ++ rest) (Doc.access o f ext).tree rest := by
      simp only [Doc.toks, Doc.tree, List.append_assoc, List.cons_append, List.nil_append]
      have hbin : binop (.sym (if ext then ['-', '>', '>'] else ['-', '>'])) = some (7, if ext then ['-', '>', '>'] else ['-', '>']) := by
        cases ext <;> rfl
      have hnp : NoPost (.sym (if ext then ['-', '>', '>'] else ['-', '>']) :: .str f :: rest) := by
        intro t0 r0 e; cases e; cases ext <;> rfl
      exact (PE.mk (PU_atom (PP.parens (ho _ (stop_rp _))) (PL.stop hnp) (head_lp _))
        (PBL.step hbin (by omega)
          (PE.ofUnary (PU_atom (PP.one (by rfl)) (PL.stop hs.noPost) (head_str _ _)) hs)
          (PBL.stop hs.noBin))).le (by omega)
    exact key.le (by lens)
  | .array es, h => by
    simp only [Doc.wf] at h
    have ha := parse_args es h
    have hu : UProp (.array es) := by
      intro _ b rest t' r' _ hl
      have key : PU (b + (4 * (toksList es).length + 8)) ((Doc.array es).toks ++ rest) t' r' := by
        simp only [Doc.toks, List.append_assoc, List.cons_append, List.nil_append]
        exact (PU_atom (PP.array (ha [']'] rest (Or.inr rfl))) hl (head_word _ _)).le (by omega)
      exact key.le (by lens)
    exact ⟨E_of_U (by simp [Doc.prec, Prec.rank]) hu, hu⟩
  | .index a i, h => by
    simp only [Doc.wf, Bool.and_eq_true] at h
    have ha := parse_doc a h.1
    have hi := (parse_doc i h.2).1
    have hu : UProp (.index a i) := by
      intro _ b rest t' r' _ hl
      have key : PU (b + (4 * (wrapToks (decide (a.prec.rank < 2)) a.toks).length + 4 * i.toks.length + 9)) ((Doc.index a i).toks ++ rest) t' r' := by
        simp only [Doc.toks, List.append_assoc, List.cons_append, List.nil_append]
        have inner := PU_wrap ha.1 ha.2 2 (by omega) _ (.sym ['['] :: (i.toks ++ .sym [']'] :: .sym [')'] :: rest)) (.index a.tree i.tree) (.sym [')'] :: rest)
          (fun h1 h2 => by omega) (PL.index (hi _ (Stop.cons (by decide) _)) (PL.stop (stop_rp rest).noPost))
        exact (PU_atom (PP.parens (PE.ofUnary inner (stop_rp _))) hl (head_lp _)).le (by omega)
      exact key.le (by lens)
    exact ⟨E_of_U (by simp [Doc.prec, Prec.rank]) hu, hu⟩
theorem parse_args : (ds : List Doc) → wfList ds = true → ∀ close rest, (close = [')'] ∨ close = [']']) →
    PA (4 * ((toksList ds).length + 1) + 1) close (toksList ds ++ .sym close :: rest) (treeList ds) rest
  | [], _, close, rest, _ => by
    simp only [toksList, treeList, List.nil_append]
    exact PA.nil.le (by omega)
  | d :: ds, h, close, rest, hc => by
    simp only [wfList, Bool.and_eq_true] at h
    have hd := (parse_doc d h.1).1
    simp only [toksList, treeList, List.append_assoc]
    exact (PA.more ((d.toks_head.append _).expect close hc) (parse_more ds h.2 d hd close rest hc)).le
      (by simp only [List.length_append]; omega)
theorem parse_more : (ds : List Doc) → wfList ds = true → ∀ (d : Doc), EProp d → ∀ close rest, (close = [')'] ∨ close = [']']) →
    PAM (4 * (d.toks.length + (toksTail ds).length) + 4) close (d.toks ++ (toksTail ds ++ .sym close :: rest)) (d.tree :: treeList ds) rest
  | [], _, d, hd, close, rest, hc => by
    simp only [toksTail, treeList, List.nil_append]
    have hst : isStop (.sym close) = true := by rcases hc with rfl | rfl <;> decide
    exact (PAM.last (hd _ (Stop.cons hst _))).le (by simp only [List.length_nil]; omega)
  | e :: es, h, d, hd, close, rest, hc => by
    simp only [wfList, Bool.and_eq_true] at h
    have he := (parse_doc e h.1).1
    simp only [toksTail, treeList, List.cons_append, List.append_assoc]
    have hne : close ≠ [','] := by rcases hc with rfl | rfl <;> decide
    exact (PAM.cons (hd _ (Stop.cons (by decide) _)) hne (parse_more es h.2 e he close rest hc)).le
      (by simp only [List.length_cons, List.length_append]; omega)
end

/-- **The token list of a well-formed builder tree parses to the tree it denotes.** -/
theorem parseSql_toks (d : Doc) (h : d.wf = true) : parseSql d.toks = some d.tree := by
  have := ((parse_doc d h).1 [] Stop.nil)
  simp only [List.append_nil] at this
  have e : pExpr (parseFuel d.toks) 0 d.toks = some (d.tree, []) := by
    obtain ⟨f, hf, hp⟩ := this
    exact pExpr_mono (by simp only [parseFuel]; omega) hp
  simp [parseSql, e]

end Rscel.Sql
