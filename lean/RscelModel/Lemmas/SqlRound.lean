import RscelModel.Lemmas.SqlParse
/-
The token list of a well-formed builder tree parses back to the tree it denotes.
-/
set_option linter.unusedSimpArgs false
set_option linter.unusedVariables false
namespace Rscel.Sql
open Rscel

/-- as a whole expression, in front of a token that ends an expression -/
def EProp (d : Doc) : Prop := ∀ rest, Stop rest → PE 0 (d.toks ++ rest) d.tree rest

/-- as the head of a postfix chain: whatever the chain behind it yields -/
def UProp (d : Doc) : Prop :=
  1 ≤ d.prec.rank → ∀ rest t r', (d.prec.rank = 1 → bracketNext rest = false) → PL d.tree rest t r' →
    PU (d.toks ++ rest) t r'

theorem E_of_U {d : Doc} (hp : 1 ≤ d.prec.rank) (hu : UProp d) : EProp d := by
  intro rest hs
  exact PE.ofUnary (hu hp rest _ _ (fun _ => hs.noBracket) (PL.stop hs.noPost)) hs

theorem stop_rp (r : List STok) : Stop (.sym [')'] :: r) := Stop.cons (by decide) r

/-- an operand that `operand_to_sql` parenthesises when it binds less tightly than `k` -/
theorem PU_wrap {d : Doc} (he : EProp d) (hu : UProp d) (k : Nat) (hk : 1 ≤ k) (rest : List STok) (t : SqlTree)
    (r' : List STok) (hb : d.prec.rank = 1 → k ≤ d.prec.rank → bracketNext rest = false) (hl : PL d.tree rest t r') :
    PU (wrapToks (decide (d.prec.rank < k)) d.toks ++ rest) t r' := by
  by_cases hp : d.prec.rank < k
  · simp only [hp, decide_true, wrapToks, if_true, List.cons_append, List.append_assoc]
    refine PU.mk (PP.parens (he _ (stop_rp rest))) hl ?_
    intro s r e; cases e; rfl
  · simp only [hp, decide_false, wrapToks, Bool.false_eq_true, if_false]
    exact hu (by omega) rest t r' (fun h1 => hb h1 (by omega)) hl

theorem PU_atom {ts p r1 t r2} (hp : PP ts p r1) (hl : PL p r1 t r2) (hh : ∀ s r, ts = .sym s :: r → s = ['(']) :
    PU ts t r2 :=
  PU.mk hp hl (fun s r e => by rw [hh s r e]; rfl)

theorem unRun_parse (op : Char) (hop : isPrefixOp [op] = true) (ts : List STok) (t : SqlTree) (r : List STok) (h : PU ts t r) :
    ∀ n, PU (List.replicate n (.sym [op]) ++ ts) (unRun op n t) r
  | 0 => by simpa [unRun] using h
  | n + 1 => by
    simp only [List.replicate_succ, List.cons_append, unRun]
    exact PU.prefix hop (unRun_parse op hop ts t r h n)

mutual
theorem parse_doc : (d : Doc) → d.wf = true → EProp d ∧ UProp d
  | .ternary c t f, h => by
    simp only [Doc.wf, Bool.and_eq_true] at h
    have hc := (parse_doc c h.1.1).1
    have ht := (parse_doc t h.1.2).1
    have hf := (parse_doc f h.2).1
    have hu : UProp (.ternary c t f) := by
      intro _ rest t' r' _ hl
      simp only [Doc.toks, Doc.tree, List.append_assoc, List.cons_append, List.nil_append]
      refine PU_atom (PP.case_ (r1 := .word ['t', 'r', 'u', 'e'] :: .word ['t', 'h', 'e', 'n'] :: .sym ['('] :: (t.toks ++ .sym [')'] :: .word ['e', 'l', 's', 'e'] :: .sym ['('] :: (f.toks ++ .sym [')'] :: .word ['e', 'n', 'd'] :: rest)))
        (r2 := .sym ['('] :: (t.toks ++ .sym [')'] :: .word ['e', 'l', 's', 'e'] :: .sym ['('] :: (f.toks ++ .sym [')'] :: .word ['e', 'n', 'd'] :: rest)))
        (r3 := .sym ['('] :: (f.toks ++ .sym [')'] :: .word ['e', 'n', 'd'] :: rest)) ?_ ?_ ?_ ?_) hl ?_
      · -- (c)::bool
        refine PE.ofUnary (PU_atom (PP.parens (hc _ (stop_rp _))) (PL.cast (ty := ['b', 'o', 'o', 'l']) rfl rfl (PL.stop ?_)) ?_) (Stop.cons (by decide) _)
        · intro t0 r0 e; cases e; rfl
        · intro s r e; cases e; rfl
      · -- true
        refine PE.ofUnary (PU_atom ⟨1, rfl⟩ (PL.stop ?_) ?_) (Stop.cons (by decide) _)
        · intro t0 r0 e; cases e; rfl
        · intro s r e; cases e
      · refine PE.ofUnary (PU_atom (PP.parens (ht _ (stop_rp _))) (PL.stop ?_) ?_) (Stop.cons (by decide) _)
        · intro t0 r0 e; cases e; rfl
        · intro s r e; cases e; rfl
      · refine PE.ofUnary (PU_atom (PP.parens (hf _ (stop_rp _))) (PL.stop ?_) ?_) (Stop.cons (by decide) _)
        · intro t0 r0 e; cases e; rfl
        · intro s r e; cases e; rfl
      · intro s r e; cases e
    exact ⟨E_of_U (by simp [Doc.prec, Prec.rank]) hu, hu⟩
  | .binary l op r, h => by
    simp only [Doc.wf, Bool.and_eq_true] at h
    have hl := (parse_doc l h.1.1).1
    have hr := (parse_doc r h.2).1
    refine ⟨?_, fun hp => absurd hp (by simp [Doc.prec, Prec.rank])⟩
    intro rest hs
    simp only [Doc.toks, Doc.tree, List.append_assoc, List.cons_append, List.nil_append]
    refine PE.mk (PU_atom (PP.parens (hl _ (stop_rp _))) (PL.stop (opTok_noPost op h.1.2 _)) ?_) ?_
    · intro s r e; cases e; rfl
    · refine PBL.step (binop_opTok op h.1.2) (by omega) ?_ (PBL.stop hs.noBin)
      refine PE.ofUnary (PU_atom (PP.parens (hr _ (stop_rp _))) (PL.stop hs.noPost) ?_) hs
      intro s r e; cases e; rfl
  | .unary op n x, h => by
    simp only [Doc.wf, Bool.and_eq_true] at h
    have hx := parse_doc x h.2
    have hop : isPrefixOp [op] = true := by
      have := h.1
      simp only [Bool.or_eq_true, beq_iff_eq, Bool.and_eq_true] at this
      rcases this with rfl | ⟨rfl, _⟩ <;> rfl
    have hu : UProp (.unary op n x) := by
      intro _ rest t' r' _ hl
      simp only [Doc.toks, Doc.tree, List.append_assoc, List.cons_append, List.nil_append]
      refine PU_atom (PP.parens (PE.ofUnary (unRun_parse op hop _ _ _ ?_ n) (stop_rp _))) hl ?_
      · exact PU_wrap hx.1 hx.2 1 (by omega) _ _ _ (fun _ _ => rfl) (PL.stop (stop_rp _).noPost)
      · intro s r e; cases e; rfl
    exact ⟨E_of_U (by simp [Doc.prec, Prec.rank]) hu, hu⟩
  | .ident name, h => by
    simp only [Doc.wf, Bool.and_eq_true, Bool.not_eq_true'] at h
    have hu : UProp (.ident name) := by
      intro _ rest t' r' _ hl
      simp only [Doc.toks, Doc.tree, List.cons_append, List.nil_append]
      exact PU_atom (PP.ident h.2 rest) hl (by intro s r e; cases e)
    exact ⟨E_of_U (by simp [Doc.prec, Prec.rank]) hu, hu⟩
  | .lit l, h => by
    have hu : UProp (.lit l) := by
      intro _ rest t' r' _ hl
      simp only [Doc.toks, Doc.tree]
      cases l with
      | null => exact PU_atom ⟨1, rfl⟩ hl (by intro s r e; cases e)
      | bool b => cases b <;> exact PU_atom ⟨1, rfl⟩ hl (by intro s r e; cases e)
      | num s => exact PU_atom ⟨1, rfl⟩ hl (by intro s r e; cases e)
      | str s => exact PU_atom ⟨1, rfl⟩ hl (by intro s r e; cases e)
      | neg s =>
        simp only [Lit.toks, Lit.tree, List.cons_append, List.nil_append]
        refine PU_atom (PP.parens (PE.ofUnary (PU.prefix rfl (PU_atom ⟨1, rfl⟩ (PL.stop (stop_rp _).noPost) ?_)) (stop_rp _))) hl ?_
        · intro s r e; cases e
        · intro s r e; cases e; rfl
    exact ⟨E_of_U (by simp [Doc.prec, Prec.rank]) hu, hu⟩
  | .parens x, h => by
    simp only [Doc.wf] at h
    have hx := (parse_doc x h).1
    have hu : UProp (.parens x) := by
      intro _ rest t' r' _ hl
      simp only [Doc.toks, Doc.tree, List.append_assoc, List.cons_append, List.nil_append]
      exact PU_atom (PP.parens (hx _ (stop_rp _))) hl (by intro s r e; cases e; rfl)
    exact ⟨E_of_U (by simp [Doc.prec, Prec.rank]) hu, hu⟩
  | .call f args, h => by
    simp only [Doc.wf, Bool.and_eq_true] at h
    have hf := parse_doc f h.1
    have ha := parse_args args h.2
    have hu : UProp (.call f args) := by
      intro _ rest t' r' _ hl
      simp only [Doc.toks, Doc.tree, List.append_assoc, List.cons_append, List.nil_append]
      exact PU_wrap hf.1 hf.2 2 (by omega) _ _ _ (fun h1 h2 => by omega) (PL.call (ha [')'] rest (Or.inl rfl)) hl)
    exact ⟨E_of_U (by simp [Doc.prec, Prec.rank]) hu, hu⟩
  | .cast v ty, h => by
    simp only [Doc.wf, Bool.and_eq_true] at h
    have hv := parse_doc v h.1
    have hu : UProp (.cast v ty) := by
      intro _ rest t' r' hb hl
      have hbr : bracketNext rest = false := hb (by simp [Doc.prec, Prec.rank])
      simp only [Doc.toks, Doc.tree, List.append_assoc, List.cons_append, List.nil_append]
      exact PU_wrap hv.1 hv.2 1 (by omega) _ _ _ (fun _ _ => rfl) (PL.cast (pType_typeToks ty h.2 rest) hbr hl)
    exact ⟨E_of_U (by simp [Doc.prec, Prec.rank]) hu, hu⟩
  | .access o f ext, h => by
    simp only [Doc.wf, Bool.and_eq_true] at h
    have ho := (parse_doc o h.1).1
    refine ⟨?_, fun hp => absurd hp (by simp [Doc.prec, Prec.rank])⟩
    intro rest hs
    simp only [Doc.toks, Doc.tree, List.append_assoc, List.cons_append, List.nil_append]
    refine PE.mk (PU_atom (PP.parens (ho _ (stop_rp _))) (PL.stop ?_) ?_) ?_
    · intro t0 r0 e; cases e; cases ext <;> rfl
    · intro s r e; cases e; rfl
    · have hbin : binop (.sym (if ext then ['-', '>', '>'] else ['-', '>'])) = some (7, if ext then ['-', '>', '>'] else ['-', '>']) := by
        cases ext <;> rfl
      refine PBL.step hbin (by omega) ?_ (PBL.stop hs.noBin)
      exact PE.ofUnary (PU_atom ⟨1, rfl⟩ (PL.stop hs.noPost) (by intro s r e; cases e)) hs
  | .array es, h => by
    simp only [Doc.wf] at h
    have ha := parse_args es h
    have hu : UProp (.array es) := by
      intro _ rest t' r' _ hl
      simp only [Doc.toks, Doc.tree, List.append_assoc, List.cons_append, List.nil_append]
      exact PU_atom (PP.array (ha [']'] rest (Or.inr rfl))) hl (by intro s r e; cases e)
    exact ⟨E_of_U (by simp [Doc.prec, Prec.rank]) hu, hu⟩
  | .index a i, h => by
    simp only [Doc.wf, Bool.and_eq_true] at h
    have ha := parse_doc a h.1
    have hi := (parse_doc i h.2).1
    have hu : UProp (.index a i) := by
      intro _ rest t' r' _ hl
      simp only [Doc.toks, Doc.tree, List.append_assoc, List.cons_append, List.nil_append]
      refine PU_atom (PP.parens (PE.ofUnary ?_ (stop_rp _))) hl (by intro s r e; cases e; rfl)
      refine PU_wrap ha.1 ha.2 2 (by omega) _ _ _ (fun h1 h2 => by omega) (PL.index (hi _ (Stop.cons (by decide) _)) (PL.stop (stop_rp _).noPost))
    exact ⟨E_of_U (by simp [Doc.prec, Prec.rank]) hu, hu⟩
theorem parse_args : (ds : List Doc) → wfList ds = true → ∀ close rest, (close = [')'] ∨ close = [']']) →
    PA close (toksList ds ++ .sym close :: rest) (treeList ds) rest
  | [], _, close, rest, _ => by simpa [toksList, treeList] using PA.nil
  | d :: ds, h, close, rest, hc => by
    simp only [wfList, Bool.and_eq_true] at h
    have hd := (parse_doc d h.1).1
    simp only [toksList, treeList, List.append_assoc]
    exact PA.more ((d.toks_head.append _).expect close hc) (parse_more ds h.2 d hd close rest hc)
theorem parse_more : (ds : List Doc) → wfList ds = true → ∀ (d : Doc), EProp d → ∀ close rest, (close = [')'] ∨ close = [']']) →
    PAM close (d.toks ++ (toksTail ds ++ .sym close :: rest)) (d.tree :: treeList ds) rest
  | [], _, d, hd, close, rest, hc => by
    simp only [toksTail, treeList, List.nil_append]
    refine PAM.last (hd _ (Stop.cons ?_ _))
    rcases hc with rfl | rfl <;> decide
  | e :: es, h, d, hd, close, rest, hc => by
    simp only [wfList, Bool.and_eq_true] at h
    have he := (parse_doc e h.1).1
    simp only [toksTail, treeList, List.cons_append, List.append_assoc]
    refine PAM.cons (hd _ (Stop.cons (by decide) _)) ?_ (parse_more es h.2 e he close rest hc)
    rcases hc with rfl | rfl <;> decide
end

/-- **The token list of a well-formed builder tree parses to the tree it denotes.** -/
theorem parse_toks (d : Doc) (h : d.wf = true) : ∃ f, pExpr f 0 d.toks = some (d.tree, []) := by
  have := (parse_doc d h).1 [] Stop.nil
  simpa [PE] using this

end Rscel.Sql
