import RscelModel.Model.Order
/-
The fallible merge sort of the model (`mergeRuns`, `mergeSortFuel`, `sortList`) returns an ordered
permutation whenever `ord` is a total preorder on the elements.
-/
namespace Rscel

/-- `a ≤ b` as seen by `ord`. -/
def OLe (a b : Val) : Prop := ord a b = .ok (some .lt) ∨ ord a b = .ok (some .eq)

/-- `ord` restricted to the values satisfying `S` is a total preorder. -/
structure OrdOK (S : Val → Prop) : Prop where
  total : ∀ a b, S a → S b → ∃ o, ord a b = .ok (some o)
  conv : ∀ a b, S a → S b → ord a b = .ok (some .gt) → OLe b a
  trans : ∀ a b c, S a → S b → S c → OLe a b → OLe b c → OLe a c

theorem mergeRuns_spec {S : Val → Prop} (H : OrdOK S) :
    ∀ (n : Nat) (l r : List Val), l.length + r.length ≤ n →
      (∀ x ∈ l, S x) → (∀ x ∈ r, S x) → l.Pairwise OLe → r.Pairwise OLe →
      ∃ out, mergeRuns n l r = .ok out ∧ out.Perm (l ++ r) ∧ out.Pairwise OLe := by
  intro n
  induction n with
  | zero =>
    intro l r hlen _ _ hl hr
    have h1 : l = [] := by cases l <;> simp_all
    have h2 : r = [] := by cases r <;> simp_all
    subst h1; subst h2
    exact ⟨[], rfl, List.Perm.refl _, List.Pairwise.nil⟩
  | succ n ih =>
    intro l r hlen hSl hSr hl hr
    cases l with
    | nil => exact ⟨r, by cases r <;> rfl, by simp, hr⟩
    | cons a as =>
      cases r with
      | nil => exact ⟨a :: as, rfl, by simp, hl⟩
      | cons b bs =>
        have hSa : S a := hSl a (by simp)
        have hSb : S b := hSr b (by simp)
        have hSas : ∀ x ∈ as, S x := fun x hx => hSl x (by simp [hx])
        have hSbs : ∀ x ∈ bs, S x := fun x hx => hSr x (by simp [hx])
        obtain ⟨o, ho⟩ := H.total a b hSa hSb
        have hl' := List.pairwise_cons.mp hl
        have hr' := List.pairwise_cons.mp hr
        cases o with
        | gt =>
          have hba : OLe b a := H.conv a b hSa hSb ho
          obtain ⟨out, h1, h2, h3⟩ := ih (a :: as) bs (by simp at hlen ⊢; omega) hSl hSbs hl hr'.2
          refine ⟨b :: out, by simp [mergeRuns, ho, h1], ?_, ?_⟩
          · have : (b :: out).Perm (b :: (a :: as ++ bs)) := List.Perm.cons b h2
            exact this.trans (by
              have := (List.perm_middle (a := b) (l₁ := a :: as) (l₂ := bs)).symm
              simpa using this)
          · refine List.pairwise_cons.mpr ⟨?_, h3⟩
            intro x hx
            have hx' : x ∈ a :: as ++ bs := h2.mem_iff.mp hx
            rcases List.mem_append.mp hx' with hx' | hx'
            · rcases List.mem_cons.mp hx' with rfl | hx''
              · exact hba
              · exact H.trans b a x hSb hSa (hSas x hx'') hba (hl'.1 x hx'')
            · exact hr'.1 x hx'
        | lt =>
          have hab : OLe a b := Or.inl ho
          obtain ⟨out, h1, h2, h3⟩ := ih as (b :: bs) (by simp at hlen ⊢; omega) hSas hSr hl'.2 hr
          refine ⟨a :: out, by simp [mergeRuns, ho, h1], List.Perm.cons a h2, ?_⟩
          refine List.pairwise_cons.mpr ⟨?_, h3⟩
          intro x hx
          have hx' : x ∈ as ++ b :: bs := h2.mem_iff.mp hx
          rcases List.mem_append.mp hx' with hx' | hx'
          · exact hl'.1 x hx'
          · rcases List.mem_cons.mp hx' with rfl | hx''
            · exact hab
            · exact H.trans a b x hSa hSb (hSbs x hx'') hab (hr'.1 x hx'')
        | eq =>
          have hab : OLe a b := Or.inr ho
          obtain ⟨out, h1, h2, h3⟩ := ih as (b :: bs) (by simp at hlen ⊢; omega) hSas hSr hl'.2 hr
          refine ⟨a :: out, by simp [mergeRuns, ho, h1], List.Perm.cons a h2, ?_⟩
          refine List.pairwise_cons.mpr ⟨?_, h3⟩
          intro x hx
          have hx' : x ∈ as ++ b :: bs := h2.mem_iff.mp hx
          rcases List.mem_append.mp hx' with hx' | hx'
          · exact hl'.1 x hx'
          · rcases List.mem_cons.mp hx' with rfl | hx''
            · exact hab
            · exact H.trans a b x hSa hSb (hSbs x hx'') hab (hr'.1 x hx'')

theorem mergeSortFuel_spec {S : Val → Prop} (H : OrdOK S) :
    ∀ (n : Nat) (l : List Val), l.length ≤ n → (∀ x ∈ l, S x) →
      ∃ out, mergeSortFuel n l = .ok out ∧ out.Perm l ∧ out.Pairwise OLe := by
  intro n
  induction n with
  | zero =>
    intro l hlen _
    have : l = [] := by cases l <;> simp_all
    subst this
    exact ⟨[], rfl, List.Perm.refl _, List.Pairwise.nil⟩
  | succ n ih =>
    intro l hlen hS
    by_cases h1 : l.length ≤ 1
    · refine ⟨l, by simp [mergeSortFuel, h1], List.Perm.refl _, ?_⟩
      match l, h1 with
      | [], _ => exact List.Pairwise.nil
      | [x], _ => exact List.pairwise_singleton _ _
    · have hk : l.length / 2 < l.length := by omega
      have hk0 : 0 < l.length / 2 := by omega
      obtain ⟨a, ha1, ha2, ha3⟩ := ih (l.take (l.length / 2)) (by simp; omega)
        (fun x hx => hS x (List.mem_of_mem_take hx))
      obtain ⟨b, hb1, hb2, hb3⟩ := ih (l.drop (l.length / 2)) (by simp; omega)
        (fun x hx => hS x (List.mem_of_mem_drop hx))
      have hSa : ∀ x ∈ a, S x := fun x hx => hS x (List.mem_of_mem_take (ha2.mem_iff.mp hx))
      have hSb : ∀ x ∈ b, S x := fun x hx => hS x (List.mem_of_mem_drop (hb2.mem_iff.mp hx))
      obtain ⟨out, h2, h3, h4⟩ := mergeRuns_spec H (a.length + b.length) a b (Nat.le_refl _) hSa hSb ha3 hb3
      refine ⟨out, ?_, ?_, h4⟩
      · simp [mergeSortFuel, h1, ha1, hb1, h2]
      · have := (List.Perm.append ha2 hb2)
        rw [List.take_append_drop] at this
        exact h3.trans this

/-- **`sort` returns an ordered permutation** of any list whose elements `ord` orders totally. -/
theorem sortList_spec {S : Val → Prop} (H : OrdOK S) (l : List Val) (hS : ∀ x ∈ l, S x) :
    ∃ out, sortList l = .list out ∧ out.Perm l ∧ out.Pairwise OLe := by
  obtain ⟨out, h1, h2, h3⟩ := mergeSortFuel_spec H l.length l (Nat.le_refl _) hS
  exact ⟨out, by simp [sortList, h1], h2, h3⟩

end Rscel
