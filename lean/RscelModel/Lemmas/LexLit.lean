import RscelModel.Model.Lex
/-
Lemmas about the scanner functions of `Model/Lex.lean` used by the C13 theorems: character classes,
the digit loop of `scanNumber`, `parseRadix` on digit strings, fixed-width hex extraction.
-/
namespace Rscel
namespace LexLit

/-- Location after reading `cs` starting at `l`. -/
def advAll (l : Loc) (cs : List Char) : Loc := cs.foldl Loc.adv l

@[simp] theorem advAll_nil (l : Loc) : advAll l [] = l := rfl
@[simp] theorem advAll_cons (l : Loc) (c : Char) (cs : List Char) : advAll l (c :: cs) = advAll (l.adv c) cs := rfl
theorem advAll_append (l : Loc) (a b : List Char) : advAll l (a ++ b) = advAll (advAll l a) b := by
  simp [advAll, List.foldl_append]

/-! ### characters -/

theorem char_le_iff (a b : Char) : a ≤ b ↔ a.toNat ≤ b.toNat := by
  rw [Char.le_def, UInt32.le_iff_toNat_le]; exact Iff.rfl

theorem isDigit_iff (c : Char) : isDigit c = true ↔ 48 ≤ c.toNat ∧ c.toNat ≤ 57 := by
  simp only [isDigit, Bool.and_eq_true, decide_eq_true_eq, char_le_iff]
  exact Iff.rfl

theorem isDigit_cases (c : Char) (h : isDigit c = true) :
    c = '0' ∨ c = '1' ∨ c = '2' ∨ c = '3' ∨ c = '4' ∨ c = '5' ∨ c = '6' ∨ c = '7' ∨ c = '8' ∨ c = '9' := by
  rw [isDigit_iff] at h
  have e := (Char.ofNat_toNat c).symm
  have : c.toNat = 48 ∨ c.toNat = 49 ∨ c.toNat = 50 ∨ c.toNat = 51 ∨ c.toNat = 52 ∨ c.toNat = 53 ∨
      c.toNat = 54 ∨ c.toNat = 55 ∨ c.toNat = 56 ∨ c.toNat = 57 := by omega
  rcases this with h|h|h|h|h|h|h|h|h|h <;> rw [h] at e <;> simp [e]

theorem hexDigitVal_of_isDigit (c : Char) (h : isDigit c = true) : hexDigitVal c = some (c.toNat - 48) := by
  have h' : '0' ≤ c ∧ c ≤ '9' := by simpa [isDigit] using h
  simp [hexDigitVal, h']

theorem hexDigitVal_lt (c : Char) (d : Nat) (h : hexDigitVal c = some d) : d < 16 := by
  unfold hexDigitVal at h
  simp only [char_le_iff] at h
  have e0 : ('0' : Char).toNat = 48 := rfl
  have e9 : ('9' : Char).toNat = 57 := rfl
  have ea : ('a' : Char).toNat = 97 := rfl
  have ef : ('f' : Char).toNat = 102 := rfl
  have eA : ('A' : Char).toNat = 65 := rfl
  have eF : ('F' : Char).toNat = 70 := rfl
  rw [e0, e9, ea, ef, eA, eF] at h
  split at h
  · injection h with h; omega
  · split at h
    · injection h with h; omega
    · split at h
      · injection h with h; omega
      · cases h

theorem hexDigitVal_lt10_of_isDigit (c : Char) (h : isDigit c = true) : c.toNat - 48 < 10 := by
  rw [isDigit_iff] at h; omega

/-! ### the digit loop of `scanNumber` -/

/-- The characters the number loop consumes as digits in the given base. -/
def numChar (base : Nat) (c : Char) : Bool := if base = 16 then (hexDigitVal c).isSome else isDigit c

theorem scanNumber_digit (fuel : Nat) (c : Char) (cs : List Char) (loc : Loc) (st : NumState)
    (h : numChar st.base c = true) :
    scanNumber (fuel + 1) ⟨c :: cs, loc⟩ st =
      scanNumber fuel ⟨cs, loc.adv c⟩ { st with working := c :: st.working } := by
  unfold numChar at h
  by_cases hb : st.base = 16
  · simp only [hb, if_true] at h
    simp [scanNumber, Scan.next, hb, h]
  · simp only [hb, if_false] at h
    simp [scanNumber, Scan.next, hb, h]

theorem scanNumber_digits (ds : List Char) : ∀ (fuel : Nat) (rest : List Char) (loc : Loc) (st : NumState),
    (∀ c ∈ ds, numChar st.base c = true) → ds.length ≤ fuel →
    scanNumber fuel ⟨ds ++ rest, loc⟩ st =
      scanNumber (fuel - ds.length) ⟨rest, advAll loc ds⟩ { st with working := ds.reverse ++ st.working } := by
  induction ds with
  | nil => intro fuel rest loc st _ _; simp
  | cons c cs ih =>
    intro fuel rest loc st hall hlen
    cases fuel with
    | zero => simp at hlen
    | succ f =>
      have hc : numChar st.base c = true := hall c (by simp)
      rw [List.cons_append, scanNumber_digit f c _ loc st hc]
      rw [ih f rest (loc.adv c) { st with working := c :: st.working }
        (fun x hx => hall x (by simp [hx])) (by simpa using hlen)]
      simp

/-- What may follow a number literal without being drawn into it. -/
def numStop (base : Nat) : List Char → Prop
  | [] => True
  | c :: _ => numChar base c = false ∧ isDigit c = false ∧ c ≠ 'e' ∧ c ≠ 'E' ∧ c ≠ '.' ∧ c ≠ 'u' ∧ c ≠ 'U' ∧
      c ≠ 'x' ∧ c ≠ 'X'

theorem scanNumber_stop (fuel : Nat) (rest : List Char) (loc : Loc) (st : NumState)
    (h : numStop st.base rest) : scanNumber (fuel + 1) ⟨rest, loc⟩ st = (⟨rest, loc⟩, st) := by
  cases rest with
  | nil => simp [scanNumber, Scan.next]
  | cons c cs =>
    obtain ⟨h1, h2, h3, h4, h5, h6, h7, h8, h9⟩ := h
    unfold numChar at h1
    by_cases hb : st.base = 16
    · simp only [hb, if_true] at h1
      simp [scanNumber, Scan.next, hb, h1, h2, h3, h4, h5, h6, h7, h8, h9]
    · simp only [hb, if_false] at h1
      simp [scanNumber, Scan.next, hb, h2, h3, h4, h5, h6, h7, h8, h9]

theorem scanNumber_suffix (fuel : Nat) (u : Char) (rest : List Char) (loc : Loc) (st : NumState)
    (hu : u = 'u' ∨ u = 'U') (hf : st.isFloat = false) (hb : st.base = 10 ∨ st.base = 16) :
    scanNumber (fuel + 1) ⟨u :: rest, loc⟩ st = (⟨rest, loc.adv u⟩, { st with isUnsigned := true }) := by
  rcases hu with rfl | rfl <;> rcases hb with hb | hb <;>
    simp [scanNumber, Scan.next, hb, hf, hexDigitVal, isDigit]

theorem scanNumber_hexprefix (fuel : Nat) (x : Char) (cs : List Char) (loc : Loc) (hx : x = 'x' ∨ x = 'X') :
    scanNumber (fuel + 1) ⟨x :: cs, loc⟩
        { working := ['0'], isFloat := false, isExp := false, isUnsigned := false, base := 10 } =
      scanNumber fuel ⟨cs, loc.adv x⟩
        { working := ['x', '0'], isFloat := false, isExp := false, isUnsigned := false, base := 16 } := by
  rcases hx with rfl | rfl <;> simp [scanNumber, Scan.next, hexDigitVal, isDigit]

/-! ### `parseRadix` on digit strings -/

/-- `c` is a digit of the base. -/
def digitOk (base : Nat) (c : Char) : Prop := ∃ d, hexDigitVal c = some d ∧ d < base

/-- The number a digit string spells in a base (Horner's rule, most significant digit first). -/
def spelled (base : Nat) (cs : List Char) : Nat :=
  cs.foldl (fun a c => a * base + (hexDigitVal c).getD 0) 0

theorem foldlM_digits (base : Nat) (f : Nat → Char → Option Nat)
    (hf : ∀ acc c d, hexDigitVal c = some d → d < base → f acc c = some (acc * base + d))
    (cs : List Char) : ∀ (acc : Nat), (∀ c ∈ cs, digitOk base c) →
    cs.foldlM f acc = some (cs.foldl (fun a c => a * base + (hexDigitVal c).getD 0) acc) := by
  induction cs with
  | nil => intro acc _; rfl
  | cons c cs ih =>
    intro acc h
    obtain ⟨d, hd, hlt⟩ := h c (by simp)
    simp only [List.foldlM_cons, List.foldl_cons, hf acc c d hd hlt, hd, Option.getD_some]
    exact ih _ (fun x hx => h x (by simp [hx]))

theorem parseRadix_digits (base : Nat) (cs : List Char) (hne : cs ≠ []) (hall : ∀ c ∈ cs, digitOk base c) :
    parseRadix cs base =
      if spelled base cs ≤ 18446744073709551615 then some (spelled base cs) else none := by
  cases cs with
  | nil => exact absurd rfl hne
  | cons c r =>
    have hplus : c ≠ '+' := by
      intro h; subst h
      obtain ⟨d, hd, _⟩ := hall '+' (by simp)
      simp [hexDigitVal] at hd
    unfold parseRadix
    split
    · rename_i h; injection h with h1 _; exact absurd h1 hplus
    · simp only [List.isEmpty_cons, Bool.false_eq_true, if_false]
      rw [foldlM_digits base _ (by intro acc c d h1 h2; simp [h1, h2]) (c :: r) 0 hall]
      rfl

theorem digitOk_of_isDigit (c : Char) (h : isDigit c = true) : digitOk 10 c :=
  ⟨c.toNat - 48, hexDigitVal_of_isDigit c h, hexDigitVal_lt10_of_isDigit c h⟩

theorem digitOk16 (c : Char) (h : (hexDigitVal c).isSome = true) : digitOk 16 c := by
  cases hv : hexDigitVal c with
  | none => simp [hv] at h
  | some d => exact ⟨d, hv, hexDigitVal_lt c d hv⟩

/-! ### number tokens -/

theorem lexToken_digit_start (c : Char) (cs : List Char) (loc : Loc) (h : isDigit c = true) :
    lexToken ⟨c :: cs, loc⟩ =
      match lexNumber [c] ⟨cs, loc.adv c⟩ with
      | .error e => .error e
      | .ok (t, s') => .ok (some (t, ⟨loc, s'.loc⟩), s') := by
  rcases isDigit_cases c h with rfl|rfl|rfl|rfl|rfl|rfl|rfl|rfl|rfl|rfl <;> rfl

theorem not_dot_of_isDigit (c : Char) (h : isDigit c = true) : [c].contains '.' = false := by
  rcases isDigit_cases c h with rfl|rfl|rfl|rfl|rfl|rfl|rfl|rfl|rfl|rfl <;> rfl

theorem scan_dec (c : Char) (ds rest : List Char) (loc : Loc) (fuel : Nat) (uns : Bool)
    (hds : ∀ x ∈ ds, isDigit x = true) (hstop : numStop 10 rest) (hf : ds.length < fuel) :
    scanNumber fuel ⟨ds ++ rest, loc⟩
        { working := [c], isFloat := false, isExp := false, isUnsigned := uns, base := 10 } =
      (⟨rest, advAll loc ds⟩,
        { working := ds.reverse ++ [c], isFloat := false, isExp := false, isUnsigned := uns, base := 10 }) := by
  rw [scanNumber_digits ds fuel rest loc _ (by intro x hx; simpa [numChar] using hds x hx) (by omega)]
  obtain ⟨k, hk⟩ : ∃ k, fuel - ds.length = k + 1 := ⟨fuel - ds.length - 1, by omega⟩
  rw [hk, scanNumber_stop k rest _ _ hstop]

theorem lexNumber_dec (c : Char) (ds rest : List Char) (loc : Loc)
    (hc : isDigit c = true) (hds : ∀ x ∈ ds, isDigit x = true) (hstop : numStop 10 rest) :
    lexNumber [c] ⟨ds ++ rest, loc⟩ =
      if spelled 10 (c :: ds) ≤ 18446744073709551615
      then .ok (.intLit (spelled 10 (c :: ds)), ⟨rest, advAll loc ds⟩)
      else .error ⟨advAll loc ds⟩ := by
  have hscan := scan_dec c ds rest loc ((ds ++ rest).length + 1) false hds hstop (by simp; omega)
  have hall : ∀ x ∈ c :: ds, digitOk 10 x := by
    intro x hx
    rcases List.mem_cons.mp hx with rfl | hx
    · exact digitOk_of_isDigit _ hc
    · exact digitOk_of_isDigit _ (hds x hx)
  unfold lexNumber
  simp only [List.reverse_cons, List.reverse_nil, List.nil_append, not_dot_of_isDigit c hc, hscan]
  have h16 : ((10 : Nat) == 16) = false := rfl
  have hrev : (ds.reverse ++ [c]).reverse = c :: ds := by simp
  simp only [h16, hrev, Bool.false_eq_true, if_false]
  rw [parseRadix_digits 10 (c :: ds) (by simp) hall]
  by_cases hle : spelled 10 (c :: ds) ≤ 18446744073709551615 <;> simp [hle]

theorem lexNumber_dec_u (c u : Char) (ds rest : List Char) (loc : Loc)
    (hc : isDigit c = true) (hds : ∀ x ∈ ds, isDigit x = true) (hu : u = 'u' ∨ u = 'U') :
    lexNumber [c] ⟨ds ++ u :: rest, loc⟩ =
      if spelled 10 (c :: ds) ≤ 18446744073709551615
      then .ok (.uintLit (spelled 10 (c :: ds)), ⟨rest, advAll loc (ds ++ [u])⟩)
      else .error ⟨advAll loc (ds ++ [u])⟩ := by
  have hscan : scanNumber ((ds ++ u :: rest).length + 1) ⟨ds ++ u :: rest, loc⟩
        { working := [c], isFloat := false, isExp := false, isUnsigned := false, base := 10 } =
      (⟨rest, advAll loc (ds ++ [u])⟩,
        { working := ds.reverse ++ [c], isFloat := false, isExp := false, isUnsigned := true, base := 10 }) := by
    rw [scanNumber_digits ds _ (u :: rest) loc _ (by intro x hx; simpa [numChar] using hds x hx) (by simp; omega)]
    obtain ⟨k, hk⟩ : ∃ k, (ds ++ u :: rest).length + 1 - ds.length = k + 1 :=
      ⟨(ds ++ u :: rest).length - ds.length, by simp; omega⟩
    rw [hk, scanNumber_suffix k u rest _ _ hu rfl (Or.inl rfl)]
    simp [advAll_append]
  have hall : ∀ x ∈ c :: ds, digitOk 10 x := by
    intro x hx
    rcases List.mem_cons.mp hx with rfl | hx
    · exact digitOk_of_isDigit _ hc
    · exact digitOk_of_isDigit _ (hds x hx)
  unfold lexNumber
  simp only [List.reverse_cons, List.reverse_nil, List.nil_append, not_dot_of_isDigit c hc, hscan]
  have h16 : ((10 : Nat) == 16) = false := rfl
  have hrev : (ds.reverse ++ [c]).reverse = c :: ds := by simp
  simp only [h16, hrev, Bool.false_eq_true, if_false, if_true]
  rw [parseRadix_digits 10 (c :: ds) (by simp) hall]
  by_cases hle : spelled 10 (c :: ds) ≤ 18446744073709551615 <;> simp [hle]

/-! ### hexadecimal -/

theorem stripHexPrefix_hex (hs : List Char) (h : ∀ c ∈ hs, (hexDigitVal c).isSome = true) :
    stripHexPrefix hs = hs := by
  unfold stripHexPrefix
  split
  · rename_i r
    have := h 'x' (by simp)
    simp [hexDigitVal] at this
  · rfl

theorem stripHexPrefix_0x (hs : List Char) (h : ∀ c ∈ hs, (hexDigitVal c).isSome = true) :
    stripHexPrefix ('0' :: 'x' :: hs) = hs := by
  rw [stripHexPrefix, stripHexPrefix_hex hs h]

theorem scan_hex (x : Char) (hs tail : List Char) (loc : Loc) (hx : x = 'x' ∨ x = 'X')
    (hhs : ∀ c ∈ hs, (hexDigitVal c).isSome = true) (k : Nat) :
    scanNumber (hs.length + k + 2) ⟨x :: hs ++ tail, loc⟩
        { working := ['0'], isFloat := false, isExp := false, isUnsigned := false, base := 10 } =
      scanNumber (k + 1) ⟨tail, advAll loc (x :: hs)⟩
        { working := hs.reverse ++ ['x', '0'], isFloat := false, isExp := false, isUnsigned := false, base := 16 } := by
  rw [List.cons_append, scanNumber_hexprefix _ x _ loc hx]
  rw [scanNumber_digits hs _ tail _ _ (by intro c hc; simpa [numChar] using hhs c hc) (by omega)]
  have : hs.length + k + 1 - hs.length = k + 1 := by omega
  rw [this]; rfl

theorem lexNumber_hex (x : Char) (hs rest : List Char) (loc : Loc) (hx : x = 'x' ∨ x = 'X')
    (hne : hs ≠ []) (hhs : ∀ c ∈ hs, (hexDigitVal c).isSome = true) (hstop : numStop 16 rest) :
    lexNumber ['0'] ⟨x :: hs ++ rest, loc⟩ =
      if spelled 16 hs ≤ 18446744073709551615
      then .ok (.intLit (spelled 16 hs), ⟨rest, advAll loc (x :: hs)⟩)
      else .error ⟨advAll loc (x :: hs)⟩ := by
  have hscan : scanNumber ((x :: hs ++ rest).length + 1) ⟨x :: hs ++ rest, loc⟩
        { working := ['0'], isFloat := false, isExp := false, isUnsigned := false, base := 10 } =
      (⟨rest, advAll loc (x :: hs)⟩,
        { working := hs.reverse ++ ['x', '0'], isFloat := false, isExp := false, isUnsigned := false, base := 16 }) := by
    have : (x :: hs ++ rest).length + 1 = hs.length + rest.length + 2 := by simp
    rw [this, scan_hex x hs rest loc hx hhs rest.length, scanNumber_stop _ rest _ _ hstop]
  unfold lexNumber
  have hdot : ['0'].contains '.' = false := rfl
  simp only [List.reverse_cons, List.reverse_nil, List.nil_append, hdot, hscan]
  have h16 : ((16 : Nat) == 16) = true := rfl
  have hrev : (hs.reverse ++ ['x', '0']).reverse = '0' :: 'x' :: hs := by simp
  simp only [h16, hrev, Bool.false_eq_true, if_false, if_true, stripHexPrefix_0x hs hhs]
  rw [parseRadix_digits 16 hs hne (fun c hc => digitOk16 c (hhs c hc))]
  by_cases hle : spelled 16 hs ≤ 18446744073709551615 <;> simp [hle]

theorem lexNumber_hex_u (x u : Char) (hs rest : List Char) (loc : Loc) (hx : x = 'x' ∨ x = 'X')
    (hne : hs ≠ []) (hhs : ∀ c ∈ hs, (hexDigitVal c).isSome = true) (hu : u = 'u' ∨ u = 'U') :
    lexNumber ['0'] ⟨x :: hs ++ u :: rest, loc⟩ =
      if spelled 16 hs ≤ 18446744073709551615
      then .ok (.uintLit (spelled 16 hs), ⟨rest, advAll loc (x :: hs ++ [u])⟩)
      else .error ⟨advAll loc (x :: hs ++ [u])⟩ := by
  have hscan : scanNumber ((x :: hs ++ u :: rest).length + 1) ⟨x :: hs ++ u :: rest, loc⟩
        { working := ['0'], isFloat := false, isExp := false, isUnsigned := false, base := 10 } =
      (⟨rest, advAll loc (x :: hs ++ [u])⟩,
        { working := hs.reverse ++ ['x', '0'], isFloat := false, isExp := false, isUnsigned := true, base := 16 }) := by
    have : (x :: hs ++ u :: rest).length + 1 = hs.length + (rest.length + 1) + 2 := by simp
    rw [this, scan_hex x hs (u :: rest) loc hx hhs (rest.length + 1),
      scanNumber_suffix _ u rest _ _ hu rfl (Or.inr rfl)]
    simp [advAll_append]
  unfold lexNumber
  have hdot : ['0'].contains '.' = false := rfl
  simp only [List.reverse_cons, List.reverse_nil, List.nil_append, hdot, hscan]
  have h16 : ((16 : Nat) == 16) = true := rfl
  have hrev : (hs.reverse ++ ['x', '0']).reverse = '0' :: 'x' :: hs := by simp
  simp only [h16, hrev, if_true, stripHexPrefix_0x hs hhs]
  rw [parseRadix_digits 16 hs hne (fun c hc => digitOk16 c (hhs c hc))]
  by_cases hle : spelled 16 hs ≤ 18446744073709551615 <;> simp [hle]

/-! ### escapes: fixed-width hexadecimal, octal -/

theorem extractHex_ok (hs : List Char) : ∀ (tail : List Char) (loc : Loc) (acc : Nat),
    (∀ c ∈ hs, (hexDigitVal c).isSome = true) →
    extractHex hs.length ⟨hs ++ tail, loc⟩ acc =
      .ok (hs.foldl (fun a c => a * 16 + (hexDigitVal c).getD 0) acc, ⟨tail, advAll loc hs⟩) := by
  induction hs with
  | nil => intro tail loc acc _; rfl
  | cons c cs ih =>
    intro tail loc acc h
    have hc := h c (by simp)
    cases hv : hexDigitVal c with
    | none => simp [hv] at hc
    | some d =>
      simp only [List.length_cons, List.cons_append, extractHex, Scan.next, hv, List.foldl_cons, Option.getD_some]
      exact ih tail (loc.adv c) (acc * 16 + d) (fun x hx => h x (by simp [hx]))

theorem charOfNat?_toNat (c : Char) : charOfNat? c.toNat = some c := by
  unfold charOfNat?
  have h : c.toNat.isValidChar := c.valid
  simp only [h, dite_true]
  congr 1

/-- A complete hex escape body: `n` hex digits spelling a scalar value. -/
theorem extractHexChar_ok (n : Nat) (hs tail : List Char) (loc : Loc) (ch : Char) (hn : hs.length = n)
    (hhs : ∀ c ∈ hs, (hexDigitVal c).isSome = true) (hv : spelled 16 hs = ch.toNat) :
    extractHexChar n ⟨hs ++ tail, loc⟩ = .ok (ch, ⟨tail, advAll loc hs⟩) := by
  subst hn
  unfold extractHexChar
  rw [extractHex_ok hs tail loc 0 hhs]
  show (match charOfNat? (spelled 16 hs) with | some c => _ | none => _) = _
  rw [hv, charOfNat?_toNat]

/-- … spelling something that is not a scalar value (a surrogate, or above 0x10FFFF). -/
theorem extractHexChar_invalid (n : Nat) (hs tail : List Char) (loc : Loc) (hn : hs.length = n)
    (hhs : ∀ c ∈ hs, (hexDigitVal c).isSome = true) (hv : ¬ (spelled 16 hs).isValidChar) :
    extractHexChar n ⟨hs ++ tail, loc⟩ = .error ⟨advAll loc hs⟩ := by
  subst hn
  unfold extractHexChar
  rw [extractHex_ok hs tail loc 0 hhs]
  show (match charOfNat? (spelled 16 hs) with | some c => _ | none => _) = _
  have : charOfNat? (spelled 16 hs) = none := by simp [charOfNat?, hv]
  rw [this]

/-- Fewer than `n` hex digits before the end of input or a character that is no hex digit. -/
theorem extractHex_short (hs : List Char) : ∀ (n : Nat) (tail : List Char) (loc : Loc) (acc : Nat),
    hs.length < n → (∀ c ∈ hs, (hexDigitVal c).isSome = true) →
    (∀ c, tail.head? = some c → hexDigitVal c = none) →
    ∃ e, extractHex n ⟨hs ++ tail, loc⟩ acc = .error e := by
  induction hs with
  | nil =>
    intro n tail loc acc hlt _ ht
    cases n with
    | zero => simp at hlt
    | succ n =>
      cases tail with
      | nil => exact ⟨_, rfl⟩
      | cons c cs =>
        have := ht c rfl
        exact ⟨⟨loc.adv c⟩, by simp [extractHex, Scan.next, this]⟩
  | cons c cs ih =>
    intro n tail loc acc hlt h ht
    cases n with
    | zero => simp at hlt
    | succ n =>
      have hc := h c (by simp)
      cases hv : hexDigitVal c with
      | none => simp [hv] at hc
      | some d =>
        obtain ⟨e, he⟩ := ih n tail (loc.adv c) (acc * 16 + d) (by simpa using hlt)
          (fun x hx => h x (by simp [hx])) ht
        exact ⟨e, by simp only [List.cons_append, extractHex, Scan.next, hv]; exact he⟩

theorem extractHexChar_short (hs : List Char) (n : Nat) (tail : List Char) (loc : Loc)
    (hlt : hs.length < n) (hhs : ∀ c ∈ hs, (hexDigitVal c).isSome = true)
    (ht : ∀ c, tail.head? = some c → hexDigitVal c = none) :
    ∃ e, extractHexChar n ⟨hs ++ tail, loc⟩ = .error e := by
  obtain ⟨e, he⟩ := extractHex_short hs n tail loc 0 hlt hhs ht
  exact ⟨e, by unfold extractHexChar; rw [he]⟩

def isOct (c : Char) : Bool := '0' ≤ c && c ≤ '7'

theorem isOct_cases (c : Char) (h : isOct c = true) :
    c = '0' ∨ c = '1' ∨ c = '2' ∨ c = '3' ∨ c = '4' ∨ c = '5' ∨ c = '6' ∨ c = '7' := by
  have h' : 48 ≤ c.toNat ∧ c.toNat ≤ 55 := by
    simp only [isOct, Bool.and_eq_true, decide_eq_true_eq, char_le_iff] at h
    exact h
  have e := (Char.ofNat_toNat c).symm
  have : c.toNat = 48 ∨ c.toNat = 49 ∨ c.toNat = 50 ∨ c.toNat = 51 ∨ c.toNat = 52 ∨ c.toNat = 53 ∨
      c.toNat = 54 ∨ c.toNat = 55 := by omega
  rcases this with h|h|h|h|h|h|h|h <;> rw [h] at e <;> simp [e]

theorem octalVal_ok (d0 d1 d2 : Char) (tail : List Char) (loc : Loc)
    (h0 : isOct d0 = true) (h1 : isOct d1 = true) (h2 : isOct d2 = true) :
    octalVal d0 ⟨d1 :: d2 :: tail, loc⟩ =
      .ok ((d0.toNat - 48) * 64 + (d1.toNat - 48) * 8 + (d2.toNat - 48), ⟨tail, (loc.adv d1).adv d2⟩) := by
  unfold isOct at h0 h1 h2
  simp [octalVal, Scan.next, h0, h1, h2]

/-! ### one step of the string loop per spelling of a character -/

def isQuote (q : Char) : Prop := q = '\'' ∨ q = '"'

theorem lexString_close (q : Char) (raw fmt : Bool) (f : Nat) (rest : List Char) (loc : Loc) (work : List Char) :
    lexString q raw fmt (f + 1) ⟨q :: rest, loc⟩ work [] = .ok (.strLit work.reverse, ⟨rest, loc.adv q⟩) := by
  simp [lexString, Scan.next]

theorem lexString_eof (q : Char) (raw fmt : Bool) (f : Nat) (loc : Loc) (work : List Char) (segs : List FSeg) :
    lexString q raw fmt f ⟨[], loc⟩ work segs = .error ⟨loc⟩ := by
  cases f <;> rfl

/-- A character written as itself. -/
theorem lexString_plain (q : Char) (fmt : Bool) (f : Nat) (c : Char) (tail : List Char) (loc : Loc)
    (work : List Char) (segs : List FSeg) (h1 : c ≠ q) (h2 : c ≠ '\\')
    (h3 : fmt = true → c ≠ '{' ∧ c ≠ '}') :
    lexString q false fmt (f + 1) ⟨c :: tail, loc⟩ work segs =
      lexString q false fmt f ⟨tail, loc.adv c⟩ (c :: work) segs := by
  cases fmt
  · simp [lexString, Scan.next, h1, h2]
  · simp [lexString, Scan.next, h1, h2, (h3 rfl).1, (h3 rfl).2]

/-- In a raw literal every character except the quote is itself. -/
theorem lexString_rawchar (q : Char) (f : Nat) (c : Char) (tail : List Char) (loc : Loc)
    (work : List Char) (segs : List FSeg) (h1 : c ≠ q) :
    lexString q true false (f + 1) ⟨c :: tail, loc⟩ work segs =
      lexString q true false f ⟨tail, loc.adv c⟩ (c :: work) segs := by
  simp [lexString, Scan.next, h1]

/-- The named escapes. -/
def namedEscape (name : Char) (ch : Char) : Prop :=
  (name = 'a' ∧ ch = Char.ofNat 7) ∨ (name = 'b' ∧ ch = Char.ofNat 8) ∨ (name = 'f' ∧ ch = Char.ofNat 12) ∨
  (name = 'n' ∧ ch = Char.ofNat 10) ∨ (name = 'r' ∧ ch = Char.ofNat 13) ∨ (name = 't' ∧ ch = Char.ofNat 9) ∨
  (name = 'v' ∧ ch = Char.ofNat 11) ∨ (name = '\\' ∧ ch = '\\') ∨ (name = '\'' ∧ ch = '\'') ∨
  (name = '"' ∧ ch = '"')

theorem lexString_named (q : Char) (hq : isQuote q) (fmt : Bool) (f : Nat) (name ch : Char) (tail : List Char)
    (loc : Loc) (work : List Char) (segs : List FSeg) (h : namedEscape name ch) :
    lexString q false fmt (f + 1) ⟨'\\' :: name :: tail, loc⟩ work segs =
      lexString q false fmt f ⟨tail, (loc.adv '\\').adv name⟩ (ch :: work) segs := by
  rcases hq with rfl | rfl <;>
  rcases h with ⟨rfl, rfl⟩|⟨rfl, rfl⟩|⟨rfl, rfl⟩|⟨rfl, rfl⟩|⟨rfl, rfl⟩|⟨rfl, rfl⟩|⟨rfl, rfl⟩|⟨rfl, rfl⟩|⟨rfl, rfl⟩|⟨rfl, rfl⟩ <;>
  simp [lexString, Scan.next]

/-- The introducers of the fixed-width hexadecimal escapes and their widths. -/
def hexEscape (intro : Char) (n : Nat) : Prop :=
  (intro = 'x' ∧ n = 2) ∨ (intro = 'X' ∧ n = 2) ∨ (intro = 'u' ∧ n = 4) ∨ (intro = 'U' ∧ n = 8)

/-- What the string loop does after `\` + introducer, in terms of `extractHexChar`. -/
theorem lexString_hex_unfold (q : Char) (hq : isQuote q) (fmt : Bool) (f : Nat) (intro : Char) (n : Nat)
    (body : List Char) (loc : Loc) (work : List Char) (segs : List FSeg) (h : hexEscape intro n) :
    lexString q false fmt (f + 1) ⟨'\\' :: intro :: body, loc⟩ work segs =
      match extractHexChar n ⟨body, (loc.adv '\\').adv intro⟩ with
      | .error er => .error er
      | .ok (ch, s3) => lexString q false fmt f s3 (ch :: work) segs := by
  rcases hq with rfl | rfl <;>
  rcases h with ⟨rfl, rfl⟩|⟨rfl, rfl⟩|⟨rfl, rfl⟩|⟨rfl, rfl⟩ <;>
  rfl

theorem lexString_hex (q : Char) (hq : isQuote q) (fmt : Bool) (f : Nat) (intro : Char) (n : Nat)
    (hs tail : List Char) (loc : Loc) (work : List Char) (segs : List FSeg) (ch : Char)
    (h : hexEscape intro n) (hn : hs.length = n) (hhs : ∀ c ∈ hs, (hexDigitVal c).isSome = true)
    (hv : spelled 16 hs = ch.toNat) :
    lexString q false fmt (f + 1) ⟨'\\' :: intro :: (hs ++ tail), loc⟩ work segs =
      lexString q false fmt f ⟨tail, advAll loc ('\\' :: intro :: hs)⟩ (ch :: work) segs := by
  rw [lexString_hex_unfold q hq fmt f intro n _ loc work segs h,
    extractHexChar_ok n hs tail _ ch hn hhs hv]
  rfl

theorem lexString_hex_invalid (q : Char) (hq : isQuote q) (fmt : Bool) (f : Nat) (intro : Char) (n : Nat)
    (hs tail : List Char) (loc : Loc) (work : List Char) (segs : List FSeg)
    (h : hexEscape intro n) (hn : hs.length = n) (hhs : ∀ c ∈ hs, (hexDigitVal c).isSome = true)
    (hv : ¬ (spelled 16 hs).isValidChar) :
    ∃ e, lexString q false fmt (f + 1) ⟨'\\' :: intro :: (hs ++ tail), loc⟩ work segs = .error e := by
  rw [lexString_hex_unfold q hq fmt f intro n _ loc work segs h,
    extractHexChar_invalid n hs tail _ hn hhs hv]
  exact ⟨_, rfl⟩

theorem lexString_hex_short (q : Char) (hq : isQuote q) (fmt : Bool) (f : Nat) (intro : Char) (n : Nat)
    (hs tail : List Char) (loc : Loc) (work : List Char) (segs : List FSeg)
    (h : hexEscape intro n) (hlt : hs.length < n) (hhs : ∀ c ∈ hs, (hexDigitVal c).isSome = true)
    (ht : ∀ c, tail.head? = some c → hexDigitVal c = none) :
    ∃ e, lexString q false fmt (f + 1) ⟨'\\' :: intro :: (hs ++ tail), loc⟩ work segs = .error e := by
  obtain ⟨e, he⟩ := extractHexChar_short hs n tail ((loc.adv '\\').adv intro) hlt hhs ht
  rw [lexString_hex_unfold q hq fmt f intro n _ loc work segs h, he]
  exact ⟨_, rfl⟩

/-- What the string loop does after `\` + a decimal digit: the three-digit octal escape. -/
theorem lexString_oct_unfold (q : Char) (hq : isQuote q) (fmt : Bool) (f : Nat) (d0 : Char)
    (body : List Char) (loc : Loc) (work : List Char) (segs : List FSeg) (h : isDigit d0 = true) :
    lexString q false fmt (f + 1) ⟨'\\' :: d0 :: body, loc⟩ work segs =
      match octalVal d0 ⟨body, (loc.adv '\\').adv d0⟩ with
      | .error er => .error er
      | .ok (v, s3) =>
        match charOfNat? v with
        | some ch => lexString q false fmt f s3 (ch :: work) segs
        | none => .error ⟨s3.loc⟩ := by
  rcases hq with rfl | rfl <;>
  rcases isDigit_cases d0 h with rfl|rfl|rfl|rfl|rfl|rfl|rfl|rfl|rfl|rfl <;>
  rfl

theorem isDigit_of_isOct (c : Char) (h : isOct c = true) : isDigit c = true := by
  rcases isOct_cases c h with rfl|rfl|rfl|rfl|rfl|rfl|rfl|rfl <;> rfl

theorem lexString_oct (q : Char) (hq : isQuote q) (fmt : Bool) (f : Nat) (d0 d1 d2 : Char) (tail : List Char)
    (loc : Loc) (work : List Char) (segs : List FSeg) (ch : Char)
    (h0 : isOct d0 = true) (h1 : isOct d1 = true) (h2 : isOct d2 = true)
    (hv : (d0.toNat - 48) * 64 + (d1.toNat - 48) * 8 + (d2.toNat - 48) = ch.toNat) :
    lexString q false fmt (f + 1) ⟨'\\' :: d0 :: d1 :: d2 :: tail, loc⟩ work segs =
      lexString q false fmt f ⟨tail, advAll loc ['\\', d0, d1, d2]⟩ (ch :: work) segs := by
  rw [lexString_oct_unfold q hq fmt f d0 _ loc work segs (isDigit_of_isOct d0 h0),
    octalVal_ok d0 d1 d2 tail _ h0 h1 h2]
  simp only [hv, charOfNat?_toNat]
  rfl

/-- A digit that is not octal anywhere in the three positions, or fewer than three characters. -/
theorem octalVal_bad (d0 : Char) (body : List Char) (loc : Loc)
    (h : body.length < 2 ∨ ∃ d1 d2 t, body = d1 :: d2 :: t ∧ (isOct d0 && isOct d1 && isOct d2) = false) :
    ∃ e, octalVal d0 ⟨body, loc⟩ = .error e := by
  rcases h with h | ⟨d1, d2, t, rfl, h⟩
  · match body, h with
    | [], _ => exact ⟨_, rfl⟩
    | [_], _ => exact ⟨_, rfl⟩
  · unfold isOct at h
    exact ⟨⟨(loc.adv d1).adv d2⟩, by simp [octalVal, Scan.next, h]⟩

theorem lexString_oct_bad (q : Char) (hq : isQuote q) (fmt : Bool) (f : Nat) (d0 : Char) (body : List Char)
    (loc : Loc) (work : List Char) (segs : List FSeg) (hd : isDigit d0 = true)
    (h : body.length < 2 ∨ ∃ d1 d2 t, body = d1 :: d2 :: t ∧ (isOct d0 && isOct d1 && isOct d2) = false) :
    ∃ e, lexString q false fmt (f + 1) ⟨'\\' :: d0 :: body, loc⟩ work segs = .error e := by
  obtain ⟨e, he⟩ := octalVal_bad d0 body ((loc.adv '\\').adv d0) h
  rw [lexString_oct_unfold q hq fmt f d0 _ loc work segs hd, he]
  exact ⟨_, rfl⟩

/-- `{{` and `}}` in a format string. -/
theorem lexString_brace (q : Char) (hq : isQuote q) (f : Nat) (c : Char) (tail : List Char) (loc : Loc)
    (work : List Char) (segs : List FSeg) (hc : c = '{' ∨ c = '}') :
    lexString q false true (f + 1) ⟨c :: c :: tail, loc⟩ work segs =
      lexString q false true f ⟨tail, (loc.adv c).adv c⟩ (c :: work) segs := by
  rcases hq with rfl | rfl <;> rcases hc with rfl | rfl <;> simp [lexString, Scan.next]

/-- A backslash at the very end. -/
theorem lexString_backslash_eof (q : Char) (hq : isQuote q) (fmt : Bool) (f : Nat) (loc : Loc)
    (work : List Char) (segs : List FSeg) :
    ∃ e, lexString q false fmt (f + 1) ⟨['\\'], loc⟩ work segs = .error e := by
  rcases hq with rfl | rfl <;> exact ⟨⟨loc.adv '\\'⟩, by simp [lexString, Scan.next]⟩

/-! ### the bytes loop -/

/-- An ASCII character written as itself in a bytes literal is the one byte with its code. -/
theorem utf8Bytes_ascii (c : Char) (h : c.toNat < 128) : utf8Bytes c = [UInt8.ofNat c.toNat] := by
  unfold utf8Bytes String.toUTF8
  rw [String.toByteArray_singleton, List.utf8Encode_singleton, String.utf8EncodeChar_eq_singleton]
  · have : ([c.val.toUInt8] : List UInt8).toByteArray = ByteArray.mk #[c.val.toUInt8] := rfl
    rw [this]
    have e : (ByteArray.mk #[c.val.toUInt8]).toList = [c.val.toUInt8] := by
      simp [ByteArray.toList, ByteArray.toList.loop, ByteArray.size]
      rfl
    rw [e]
    congr 1
  · rw [Char.utf8Size_eq_one_iff, UInt32.le_iff_toNat_le]
    have : c.val.toNat = c.toNat := rfl
    rw [this]
    show c.toNat ≤ 127
    omega

theorem lexBytes_close (q : Char) (f : Nat) (rest : List Char) (loc : Loc) (acc : List UInt8) :
    lexBytes q (f + 1) ⟨q :: rest, loc⟩ acc = .ok (.bytesLit acc.reverse, ⟨rest, loc.adv q⟩) := by
  simp [lexBytes, Scan.next]

theorem lexBytes_eof (q : Char) (f : Nat) (loc : Loc) (acc : List UInt8) :
    lexBytes q f ⟨[], loc⟩ acc = .error ⟨loc⟩ := by
  cases f <;> rfl

/-- A character written as itself stands for its UTF-8 bytes. -/
theorem lexBytes_plain (q : Char) (f : Nat) (c : Char) (tail : List Char) (loc : Loc) (acc : List UInt8)
    (h1 : c ≠ q) (h2 : c ≠ '\\') :
    lexBytes q (f + 1) ⟨c :: tail, loc⟩ acc = lexBytes q f ⟨tail, loc.adv c⟩ ((utf8Bytes c).reverse ++ acc) := by
  simp [lexBytes, Scan.next, h1, h2]

def namedByte (name : Char) (b : UInt8) : Prop :=
  (name = 'a' ∧ b = 7) ∨ (name = 'b' ∧ b = 8) ∨ (name = 'f' ∧ b = 12) ∨ (name = 'n' ∧ b = 10) ∨
  (name = 'r' ∧ b = 13) ∨ (name = 't' ∧ b = 9) ∨ (name = 'v' ∧ b = 11) ∨ (name = '\\' ∧ b = 92) ∨
  (name = '\'' ∧ b = 39) ∨ (name = '"' ∧ b = 34)

theorem lexBytes_named (q : Char) (hq : isQuote q) (f : Nat) (name : Char) (b : UInt8) (tail : List Char)
    (loc : Loc) (acc : List UInt8) (h : namedByte name b) :
    lexBytes q (f + 1) ⟨'\\' :: name :: tail, loc⟩ acc =
      lexBytes q f ⟨tail, (loc.adv '\\').adv name⟩ (b :: acc) := by
  rcases hq with rfl | rfl <;>
  rcases h with ⟨rfl, rfl⟩|⟨rfl, rfl⟩|⟨rfl, rfl⟩|⟨rfl, rfl⟩|⟨rfl, rfl⟩|⟨rfl, rfl⟩|⟨rfl, rfl⟩|⟨rfl, rfl⟩|⟨rfl, rfl⟩|⟨rfl, rfl⟩ <;>
  rfl

theorem lexBytes_hex_unfold (q : Char) (hq : isQuote q) (f : Nat) (x : Char) (body : List Char) (loc : Loc)
    (acc : List UInt8) (hx : x = 'x' ∨ x = 'X') :
    lexBytes q (f + 1) ⟨'\\' :: x :: body, loc⟩ acc =
      match extractHexChar 2 ⟨body, (loc.adv '\\').adv x⟩ with
      | .error er => .error er
      | .ok (ch, s3) => lexBytes q f s3 (UInt8.ofNat ch.toNat :: acc) := by
  rcases hq with rfl | rfl <;> rcases hx with rfl | rfl <;> rfl

theorem lexBytes_hex (q : Char) (hq : isQuote q) (f : Nat) (x : Char) (hs tail : List Char) (loc : Loc)
    (acc : List UInt8) (b : UInt8) (hx : x = 'x' ∨ x = 'X') (hn : hs.length = 2)
    (hhs : ∀ c ∈ hs, (hexDigitVal c).isSome = true) (hv : spelled 16 hs = b.toNat) :
    lexBytes q (f + 1) ⟨'\\' :: x :: (hs ++ tail), loc⟩ acc =
      lexBytes q f ⟨tail, advAll loc ('\\' :: x :: hs)⟩ (b :: acc) := by
  have hb : b.toNat < 256 := b.toNat_lt
  have hvalid : b.toNat.isValidChar := Or.inl (by omega)
  have hch : (Char.ofNat b.toNat).toNat = b.toNat := by
    simp [Char.ofNat, hvalid, Char.ofNatAux, Char.toNat]
  rw [lexBytes_hex_unfold q hq f x _ loc acc hx,
    extractHexChar_ok 2 hs tail _ (Char.ofNat b.toNat) hn hhs (by rw [hv, hch])]
  simp only [hch, UInt8.ofNat_toNat]
  rfl

theorem lexBytes_hex_short (q : Char) (hq : isQuote q) (f : Nat) (x : Char) (hs tail : List Char) (loc : Loc)
    (acc : List UInt8) (hx : x = 'x' ∨ x = 'X') (hlt : hs.length < 2)
    (hhs : ∀ c ∈ hs, (hexDigitVal c).isSome = true) (ht : ∀ c, tail.head? = some c → hexDigitVal c = none) :
    ∃ e, lexBytes q (f + 1) ⟨'\\' :: x :: (hs ++ tail), loc⟩ acc = .error e := by
  obtain ⟨e, he⟩ := extractHexChar_short hs 2 tail ((loc.adv '\\').adv x) hlt hhs ht
  rw [lexBytes_hex_unfold q hq f x _ loc acc hx, he]
  exact ⟨_, rfl⟩

theorem lexBytes_oct_unfold (q : Char) (hq : isQuote q) (f : Nat) (d0 : Char) (body : List Char) (loc : Loc)
    (acc : List UInt8) (h : isDigit d0 = true) :
    lexBytes q (f + 1) ⟨'\\' :: d0 :: body, loc⟩ acc =
      match octalVal d0 ⟨body, (loc.adv '\\').adv d0⟩ with
      | .error er => .error er
      | .ok (v, s3) => if v ≤ 255 then lexBytes q f s3 (UInt8.ofNat v :: acc) else .error ⟨s3.loc⟩ := by
  rcases hq with rfl | rfl <;>
  rcases isDigit_cases d0 h with rfl|rfl|rfl|rfl|rfl|rfl|rfl|rfl|rfl|rfl <;>
  rfl

theorem lexBytes_oct (q : Char) (hq : isQuote q) (f : Nat) (d0 d1 d2 : Char) (tail : List Char) (loc : Loc)
    (acc : List UInt8) (b : UInt8)
    (h0 : isOct d0 = true) (h1 : isOct d1 = true) (h2 : isOct d2 = true)
    (hv : (d0.toNat - 48) * 64 + (d1.toNat - 48) * 8 + (d2.toNat - 48) = b.toNat) :
    lexBytes q (f + 1) ⟨'\\' :: d0 :: d1 :: d2 :: tail, loc⟩ acc =
      lexBytes q f ⟨tail, advAll loc ['\\', d0, d1, d2]⟩ (b :: acc) := by
  have hb : b.toNat < 256 := b.toNat_lt
  rw [lexBytes_oct_unfold q hq f d0 _ loc acc (isDigit_of_isOct d0 h0), octalVal_ok d0 d1 d2 tail _ h0 h1 h2]
  have hle : b.toNat ≤ 255 := by omega
  simp only [hv, hle, if_true, UInt8.ofNat_toNat]
  rfl

/-- An octal escape above 255 does not fit a byte. -/
theorem lexBytes_oct_big (q : Char) (hq : isQuote q) (f : Nat) (d0 d1 d2 : Char) (tail : List Char) (loc : Loc)
    (acc : List UInt8) (h0 : isOct d0 = true) (h1 : isOct d1 = true) (h2 : isOct d2 = true)
    (hv : 255 < (d0.toNat - 48) * 64 + (d1.toNat - 48) * 8 + (d2.toNat - 48)) :
    ∃ e, lexBytes q (f + 1) ⟨'\\' :: d0 :: d1 :: d2 :: tail, loc⟩ acc = .error e := by
  rw [lexBytes_oct_unfold q hq f d0 _ loc acc (isDigit_of_isOct d0 h0), octalVal_ok d0 d1 d2 tail _ h0 h1 h2]
  have : ¬ ((d0.toNat - 48) * 64 + (d1.toNat - 48) * 8 + (d2.toNat - 48) ≤ 255) := by omega
  simp only [this, if_false]
  exact ⟨_, rfl⟩

theorem lexBytes_oct_bad (q : Char) (hq : isQuote q) (f : Nat) (d0 : Char) (body : List Char) (loc : Loc)
    (acc : List UInt8) (hd : isDigit d0 = true)
    (h : body.length < 2 ∨ ∃ d1 d2 t, body = d1 :: d2 :: t ∧ (isOct d0 && isOct d1 && isOct d2) = false) :
    ∃ e, lexBytes q (f + 1) ⟨'\\' :: d0 :: body, loc⟩ acc = .error e := by
  obtain ⟨e, he⟩ := octalVal_bad d0 body ((loc.adv '\\').adv d0) h
  rw [lexBytes_oct_unfold q hq f d0 _ loc acc hd, he]
  exact ⟨_, rfl⟩

/-! ### how `lexToken` enters the literal scanners -/

/-- The wrapper `lexToken` puts around a scanner result: the token's span starts where the token started. -/
def finish (start : Loc) (r : Except LexErr (Tok × Scan)) : Except LexErr (Option (Tok × Span) × Scan) :=
  match r with
  | .error e => .error e
  | .ok (t, s') => .ok (some (t, ⟨start, s'.loc⟩), s')

theorem lexToken_digit (c : Char) (cs : List Char) (loc : Loc) (h : isDigit c = true) :
    lexToken ⟨c :: cs, loc⟩ = finish loc (lexNumber [c] ⟨cs, loc.adv c⟩) := by
  rw [lexToken_digit_start c cs loc h]; rfl

theorem lexToken_quote (q : Char) (hq : isQuote q) (body : List Char) (loc : Loc) :
    lexToken ⟨q :: body, loc⟩ =
      finish loc (lexString q false false (body.length + 1) ⟨body, loc.adv q⟩ [] []) := by
  rcases hq with rfl | rfl <;> rfl

theorem lexToken_raw (q : Char) (hq : isQuote q) (body : List Char) (loc : Loc) :
    lexToken ⟨'r' :: q :: body, loc⟩ =
      finish loc (lexString q true false (body.length + 1) ⟨body, (loc.adv 'r').adv q⟩ [] []) := by
  rcases hq with rfl | rfl <;> rfl

theorem lexToken_fmt (q : Char) (hq : isQuote q) (body : List Char) (loc : Loc) :
    lexToken ⟨'f' :: q :: body, loc⟩ =
      finish loc (lexString q false true (body.length + 1) ⟨body, (loc.adv 'f').adv q⟩ [] []) := by
  rcases hq with rfl | rfl <;> rfl

theorem lexToken_bytes (q : Char) (hq : isQuote q) (body : List Char) (loc : Loc) :
    lexToken ⟨'b' :: q :: body, loc⟩ =
      finish loc (lexBytes q (body.length + 1) ⟨body, (loc.adv 'b').adv q⟩ []) := by
  rcases hq with rfl | rfl <;> rfl

theorem lexToken_eof (l : Loc) : lexToken ⟨[], l⟩ = .ok (none, ⟨[], l⟩) := rfl

/-- A source text that is one token: what `tokenize` returns. -/
theorem tokenize_single (src : Str) (t : Tok × Span) (l : Loc)
    (h : lexToken ⟨src, ⟨0, 0⟩⟩ = .ok (some t, ⟨[], l⟩)) : tokenize src = .ok ⟨[t], l⟩ := by
  simp [tokenize, tokenizeGo, h, lexToken_eof]

theorem tokenize_error (src : Str) (e : LexErr)
    (h : lexToken ⟨src, ⟨0, 0⟩⟩ = .error e) : tokenize src = .error e := by
  simp [tokenize, tokenizeGo, h]

end LexLit
end Rscel
