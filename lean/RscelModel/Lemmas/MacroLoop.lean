import RscelModel.Model.VM
/-
Generic facts about the comprehension loops of `Model/VM.lean` (`loopList`, `loopMap3`, `loopReduce`),
for an arbitrary nested-run callback `rec`, environment, loop variable and body block.

`scan` runs the body over a list from left to right, threading the call log, and collects the results
as long as no body fails.  `foldCont` folds a macro's per-element decision `k` over elements and their
results as long as it says "continue".  A loop over `pre ++ rest` whose prefix scans and continues is the
loop over `rest` from the state reached (`loopList_prefix`); at an element it stops with the decision
(`loopList_stop`), fails with the body's failure (`loopList_fail`), or finishes (`loopList_nil`);
`loopList_cases`: exactly these situations occur.
-/
namespace Rscel

variable (rec : Rec)

/-- The body's run for one element: the loop variable is bound to the element on top of the macro's
    environment; the callback `rec` — the depth budget — is the same for every element. -/
abbrev bodyRun (env : Env) (x : Str) (body : List Instr) (v : Val) (log : Log) : Out :=
  rec (env.bind x v) body true log

theorem runBody_eq (env : Env) (x : Str) (body : List Instr) (v : Val) (log : Log) :
    runBody rec env x v body log = bodyRun rec env x body v log := rfl

/-- Results of the bodies over the whole list, left to right, each run starting from the call log its
    predecessor left; `none` as soon as one body fails.  Second component: the log afterwards. -/
def scan (env : Env) (x : Str) (body : List Instr) : List Val → Log → Option (List Val × Log)
  | [], log => some ([], log)
  | v :: vs, log =>
    match (bodyRun rec env x body v log).res with
    | .error _ => none
    | .ok r =>
      match scan env x body vs (bodyRun rec env x body v log).log with
      | none => none
      | some (rs, log') => some (r :: rs, log')

/-- Fold a loop's decision function over elements and body results while it says "continue". -/
def foldCont {σ : Type} (k : σ → Val → Val → Sum Val σ) : σ → List Val → List Val → Option σ
  | acc, [], [] => some acc
  | acc, v :: vs, r :: rs =>
    match k acc v r with
    | .inl _ => none
    | .inr a => foldCont k a vs rs
  | _, _, _ => none

variable {rec}

theorem scan_cons {env : Env} {x : Str} {body : List Instr} {v : Val} {vs : List Val} {log log' : Log}
    {rs : List Val} (h : scan rec env x body (v :: vs) log = some (rs, log')) :
    ∃ r rs', (bodyRun rec env x body v log).res = .ok r ∧
      scan rec env x body vs (bodyRun rec env x body v log).log = some (rs', log') ∧ rs = r :: rs' := by
  rw [scan] at h
  split at h
  · cases h
  · rename_i r hr
    split at h
    · cases h
    · rename_i rs' l' hs
      cases h
      exact ⟨r, rs', hr, hs, rfl⟩

theorem scan_cons_ok {env : Env} {x : Str} {body : List Instr} {v r : Val} {vs rs : List Val} {log log' : Log}
    (hr : (bodyRun rec env x body v log).res = .ok r)
    (hs : scan rec env x body vs (bodyRun rec env x body v log).log = some (rs, log')) :
    scan rec env x body (v :: vs) log = some (r :: rs, log') := by
  rw [scan]; simp only [hr, hs]

theorem scan_length {env : Env} {x : Str} {body : List Instr} :
    ∀ {l : List Val} {log log' : Log} {rs : List Val}, scan rec env x body l log = some (rs, log') → rs.length = l.length
  | [], _, _, _, h => by rw [scan] at h; cases h; rfl
  | v :: vs, _, _, _, h => by
    obtain ⟨r, rs', _, hs, rfl⟩ := scan_cons h
    simp [scan_length hs]

/-- Scanning `pre ++ post` is scanning `pre`, then `post` from the log `pre` left. -/
theorem scan_append {env : Env} {x : Str} {body : List Instr} :
    ∀ (pre post : List Val) (log : Log),
      scan rec env x body (pre ++ post) log =
        match scan rec env x body pre log with
        | none => none
        | some (rs, l1) =>
          match scan rec env x body post l1 with
          | none => none
          | some (rs', l2) => some (rs ++ rs', l2)
  | [], post, log => by
    simp only [List.nil_append, scan]
    cases scan rec env x body post log with
    | none => rfl
    | some p => rfl
  | v :: vs, post, log => by
    rw [List.cons_append, scan, scan]
    cases hr : (bodyRun rec env x body v log).res with
    | error e => rfl
    | ok r =>
      simp only
      rw [scan_append vs post]
      cases scan rec env x body vs (bodyRun rec env x body v log).log with
      | none => rfl
      | some p =>
        obtain ⟨rs, l1⟩ := p
        simp only
        cases scan rec env x body post l1 with
        | none => rfl
        | some q => rfl

section loopList
variable {σ : Type} (k : σ → Val → Val → Sum Val σ) (fin : σ → Val)
variable (env : Env) (x : Str) (body : List Instr)

theorem loopList_nil (acc : σ) (log : Log) :
    loopList rec env x body k fin [] acc log = (fin acc, log) := by
  rw [loopList]

/-- The body fails on the first element: the loop fails with that failure; nothing else is run. -/
theorem loopList_fail (v : Val) (vs : List Val) (acc : σ) (log : Log) (e : Abort)
    (h : (bodyRun rec env x body v log).res = .error e) :
    loopList rec env x body k fin (v :: vs) acc log = (.err e.kind, (bodyRun rec env x body v log).log) := by
  rw [loopList]; simp only [runBody_eq, h]

/-- The decision function stops at the first element: that is the result; nothing else is run. -/
theorem loopList_stop (v : Val) (vs : List Val) (acc : σ) (log : Log) (r res : Val)
    (h : (bodyRun rec env x body v log).res = .ok r) (hk : k acc v r = .inl res) :
    loopList rec env x body k fin (v :: vs) acc log = (res, (bodyRun rec env x body v log).log) := by
  rw [loopList]; simp only [runBody_eq, h, hk]

theorem loopList_cont (v : Val) (vs : List Val) (acc acc' : σ) (log : Log) (r : Val)
    (h : (bodyRun rec env x body v log).res = .ok r) (hk : k acc v r = .inr acc') :
    loopList rec env x body k fin (v :: vs) acc log =
      loopList rec env x body k fin vs acc' (bodyRun rec env x body v log).log := by
  rw [loopList]; simp only [runBody_eq, h, hk]

/-- A prefix whose bodies all evaluate and on which the decision function continues is passed over:
    the loop goes on with the rest from the state and call log reached. -/
theorem loopList_prefix : ∀ (pre rest : List Val) (acc acc' : σ) (log log' : Log) (rs : List Val),
    scan rec env x body pre log = some (rs, log') → foldCont k acc pre rs = some acc' →
    loopList rec env x body k fin (pre ++ rest) acc log = loopList rec env x body k fin rest acc' log'
  | [], rest, acc, acc', log, log', rs, hs, hf => by
    rw [scan] at hs; cases hs
    rw [foldCont] at hf; cases hf
    rfl
  | v :: vs, rest, acc, acc', log, log', rs, hs, hf => by
    obtain ⟨r, rs', hr, hs', rfl⟩ := scan_cons hs
    rw [foldCont] at hf
    split at hf
    · cases hf
    · rename_i a hk
      rw [List.cons_append, loopList_cont k fin env x body v _ acc a log r hr hk]
      exact loopList_prefix vs rest a acc' _ log' rs' hs' hf

/-- Exactly three things can happen: every element is passed over; or after a passed-over prefix the
    body fails; or after a passed-over prefix the decision function stops. -/
theorem loopList_cases : ∀ (l : List Val) (acc : σ) (log : Log),
    (∃ rs log' acc', scan rec env x body l log = some (rs, log') ∧ foldCont k acc l rs = some acc') ∨
    (∃ pre v post rs log' acc', l = pre ++ v :: post ∧ scan rec env x body pre log = some (rs, log') ∧
        foldCont k acc pre rs = some acc' ∧
        ((∃ e, (bodyRun rec env x body v log').res = .error e) ∨
         (∃ r res, (bodyRun rec env x body v log').res = .ok r ∧ k acc' v r = .inl res)))
  | [], acc, log => .inl ⟨[], log, acc, rfl, rfl⟩
  | v :: vs, acc, log => by
    cases hr : (bodyRun rec env x body v log).res with
    | error e => exact .inr ⟨[], v, vs, [], log, acc, rfl, rfl, rfl, .inl ⟨e, hr⟩⟩
    | ok r =>
      cases hk : k acc v r with
      | inl res => exact .inr ⟨[], v, vs, [], log, acc, rfl, rfl, rfl, .inr ⟨r, res, hr, hk⟩⟩
      | inr a =>
        rcases loopList_cases vs a (bodyRun rec env x body v log).log with
          ⟨rs, log', acc', hs, hf⟩ | ⟨pre, w, post, rs, log', acc', hl, hs, hf, hw⟩
        · exact .inl ⟨r :: rs, log', acc', scan_cons_ok hr hs, by rw [foldCont]; simp only [hk]; exact hf⟩
        · exact .inr ⟨v :: pre, w, post, r :: rs, log', acc', by rw [hl]; rfl, scan_cons_ok hr hs,
            by rw [foldCont]; simp only [hk]; exact hf, hw⟩

end loopList

end Rscel
