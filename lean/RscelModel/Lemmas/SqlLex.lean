import RscelModel.Model.Sql
/-
Lexing lemmas for C20: the state machine `run` on the text of single tokens.
-/
namespace Rscel.Sql
open Rscel

theorem run_cons (st : LS) (c : Char) (cs : Str) : run st (c :: cs) = (step st c).2 ++ run (step st c).1 cs := rfl

theorem run_nil (st : LS) : run st [] = finish st := rfl

theorem step_idle (c : Char) : step .idle c = start c := rfl

/-- A character that closes the pending token: the rest is lexed from the idle state. -/
theorem run_flush (st : LS) (c : Char) (cs : Str) (h : step st c = restart st c) :
    run st (c :: cs) = finish st ++ run .idle (c :: cs) := by
  simp [run_cons, h, restart, step_idle, List.append_assoc]

/-! ### string literals -/

theorem run_str_escape (s : Str) : ∀ (acc rest : Str),
    run (.str acc) (escape s ++ '\'' :: rest) = run (.strq (acc ++ s)) rest := by
  induction s with
  | nil => intro acc rest; simp [escape, run_cons, step]
  | cons c cs ih =>
    intro acc rest
    by_cases hc : c = '\''
    · subst hc
      simp only [escape, if_true, List.cons_append, run_cons, step, List.nil_append]
      rw [ih]; simp [List.append_assoc]
    · simp only [escape, hc, if_false, List.cons_append, run_cons, step, List.nil_append]
      rw [ih]; simp [List.append_assoc]

/-- after the opening quote: the whole literal is read into the `strq` state -/
theorem run_quote (s rest : Str) : run .idle (quote s ++ rest) = run (.strq s) rest := by
  have h : start '\'' = (.str [], []) := by decide
  simp only [quote, List.cons_append, run_cons, step_idle, h, List.nil_append, List.append_assoc]
  rw [run_str_escape]; simp


/-! ### words, numbers, delimiters -/

/-- characters that may directly follow the text of a sub-expression -/
def isDelim (c : Char) : Bool := c == ')' || c == ']' || c == ',' || c == ':' || c == '[' || c == '('

/-- the text behind a token is empty or starts with a delimiter -/
def DelimStart (rest : Str) : Prop := ∀ c cs, rest = c :: cs → isDelim c = true

theorem DelimStart.nil : DelimStart [] := by intro c cs h; cases h

theorem delim_cases {c : Char} (h : isDelim c = true) :
    c = ')' ∨ c = ']' ∨ c = ',' ∨ c = ':' ∨ c = '[' ∨ c = '(' := by
  simpa [isDelim, or_assoc] using h

def validIdent : Str → Bool
  | [] => false
  | c :: cs => isWordStart c && cs.all isWordChar

/-- digits, possibly with dots, starting with a digit -/
def validNum : Str → Bool
  | [] => false
  | c :: cs => isDigitC c && cs.all isNumChar

theorem flush_word (acc rest : Str) (h : DelimStart rest) :
    run (.word acc) rest = .word acc :: run .idle rest := by
  cases rest with
  | nil => rfl
  | cons c cs =>
    have hd := delim_cases (h c cs rfl)
    rw [run_flush]; · rfl
    rcases hd with rfl | rfl | rfl | rfl | rfl | rfl <;> rfl

theorem flush_num (acc rest : Str) (h : DelimStart rest) :
    run (.num acc) rest = .num acc :: run .idle rest := by
  cases rest with
  | nil => rfl
  | cons c cs =>
    have hd := delim_cases (h c cs rfl)
    rw [run_flush]; · rfl
    rcases hd with rfl | rfl | rfl | rfl | rfl | rfl <;> rfl

theorem flush_strq (acc rest : Str) (h : rest.head? ≠ some '\'') :
    run (.strq acc) rest = .str acc :: run .idle rest := by
  cases rest with
  | nil => rfl
  | cons c cs =>
    have hc : c ≠ '\'' := by intro e; apply h; simp [e]
    rw [run_flush]; · rfl
    simp [step, hc]

theorem DelimStart.head_ne_quote {rest : Str} (h : DelimStart rest) : rest.head? ≠ some '\'' := by
  cases rest with
  | nil => simp
  | cons c cs =>
    have hd := delim_cases (h c cs rfl)
    rcases hd with rfl | rfl | rfl | rfl | rfl | rfl <;> simp

theorem run_word_chars (w : Str) : ∀ (acc rest : Str), w.all isWordChar = true →
    run (.word acc) (w ++ rest) = run (.word (acc ++ w)) rest := by
  induction w with
  | nil => intro acc rest _; simp
  | cons c cs ih =>
    intro acc rest h
    simp only [List.all_cons, Bool.and_eq_true] at h
    simp only [List.cons_append, run_cons, step, h.1, if_true, List.nil_append]
    rw [ih _ _ h.2]; simp [List.append_assoc]

theorem run_num_chars (w : Str) : ∀ (acc rest : Str), w.all isNumChar = true →
    run (.num acc) (w ++ rest) = run (.num (acc ++ w)) rest := by
  induction w with
  | nil => intro acc rest _; simp
  | cons c cs ih =>
    intro acc rest h
    simp only [List.all_cons, Bool.and_eq_true] at h
    simp only [List.cons_append, run_cons, step, h.1, if_true, List.nil_append]
    rw [ih _ _ h.2]; simp [List.append_assoc]

theorem start_wordStart {c : Char} (h : isWordStart c = true) : start c = (.word [c], []) := by
  have h1 : c ≠ ' ' := by rintro rfl; revert h; decide
  have h2 : c ≠ '\n' := by rintro rfl; revert h; decide
  have h3 : c ≠ '\t' := by rintro rfl; revert h; decide
  have h4 : c ≠ '\r' := by rintro rfl; revert h; decide
  have h5 : c ≠ '\'' := by rintro rfl; revert h; decide
  simp [start, h1, h2, h3, h4, h5, h]

theorem start_digit {c : Char} (h : isDigitC c = true) : start c = (.num [c], []) := by
  have h1 : c ≠ ' ' := by rintro rfl; revert h; decide
  have h2 : c ≠ '\n' := by rintro rfl; revert h; decide
  have h3 : c ≠ '\t' := by rintro rfl; revert h; decide
  have h4 : c ≠ '\r' := by rintro rfl; revert h; decide
  have h5 : c ≠ '\'' := by rintro rfl; revert h; decide
  have h6 : isWordStart c = false := by
    simp only [isDigitC, isWordStart, decide_eq_true_eq, decide_eq_false_iff_not] at h ⊢; omega
  simp [start, h1, h2, h3, h4, h5, h6, h]

/-- an identifier or keyword followed by a delimiter is one `word` token -/
theorem lex_word (w rest : Str) (hw : validIdent w = true) (hr : DelimStart rest) :
    run .idle (w ++ rest) = .word w :: run .idle rest := by
  cases w with
  | nil => simp [validIdent] at hw
  | cons c cs =>
    simp only [validIdent, Bool.and_eq_true] at hw
    simp only [List.cons_append, run_cons, step_idle, start_wordStart hw.1, List.nil_append]
    rw [run_word_chars _ _ _ hw.2, flush_word _ _ hr]; simp

theorem lex_num (w rest : Str) (hw : validNum w = true) (hr : DelimStart rest) :
    run .idle (w ++ rest) = .num w :: run .idle rest := by
  cases w with
  | nil => simp [validNum] at hw
  | cons c cs =>
    simp only [validNum, Bool.and_eq_true] at hw
    simp only [List.cons_append, run_cons, step_idle, start_digit hw.1, List.nil_append]
    rw [run_num_chars _ _ _ hw.2, flush_num _ _ hr]; simp

/-- **A quoted string is exactly one string-literal token**, whatever it contains. -/
theorem lex_quote (s rest : Str) (h : rest.head? ≠ some '\'') :
    run .idle (quote s ++ rest) = .str s :: run .idle rest := by
  rw [run_quote, flush_strq _ _ h]

end Rscel.Sql
