import RscelModel.Lemmas.ParseLoc
/-
Every span in a syntax tree produced by the parser model is made of locations handed out by its token
source (`Theorems/C18.lean: span_in_source`).  Same organisation as `ParseLoc.lean`: one claim per parse
function (`SClaims`), proved for all of them together by induction on the fuel; the invariant facts
`I ps.ts` come from `Claims` (already proved there).
-/
namespace Rscel

/-! ### all spans of a tree (format-string segments are parsed relative to their own text: not included) -/
mutual
def spansOf : Ast → List Span
  | .tern sp c t f => sp :: (spansOf c ++ spansOf t ++ spansOf f)
  | .match_ sp s cases => sp :: (spansOf s ++ spansOfCases cases)
  | .bin sp _ l r => sp :: (spansOf l ++ spansOf r)
  | .notRun sp ops m => sp :: (ops ++ spansOf m)
  | .negRun sp ops m => sp :: (ops ++ spansOf m)
  | .member sp p chain => sp :: (spansOfPrim p ++ spansOfOps chain)
def spansOfPrim : Prim → List Span
  | .ident sp _ => [sp]
  | .parens sp e => sp :: spansOf e
  | .list sp es => sp :: spansOfList es
  | .map sp inits => sp :: spansOfInits inits
  | .null sp => [sp]
  | .int sp _ => [sp]
  | .uint sp _ => [sp]
  | .float sp _ => [sp]
  | .str sp _ => [sp]
  | .bytes sp _ => [sp]
  | .bool sp _ => [sp]
  | .fstr sp _ => [sp]
def spansOfOps : List MOp → List Span
  | [] => []
  | .access sp isp _ :: rest => sp :: isp :: spansOfOps rest
  | .call sp args :: rest => sp :: (spansOfList args ++ spansOfOps rest)
  | .index sp e :: rest => sp :: (spansOf e ++ spansOfOps rest)
def spansOfList : List Ast → List Span
  | [] => []
  | e :: es => spansOf e ++ spansOfList es
def spansOfInits : List MInit → List Span
  | [] => []
  | .mk sp k v :: rest => sp :: (spansOf k ++ spansOf v ++ spansOfInits rest)
def spansOfCases : List MCase → List Span
  | [] => []
  | .mk sp p b :: rest => sp :: (spansOfPat p ++ spansOf b ++ spansOfCases rest)
def spansOfPat : Pat → List Span
  | .cmp sp osp _ e => sp :: osp :: spansOf e
  | .type sp _ _ => [sp]
  | .any sp => [sp]
end

section
variable {σ : Type} {T : TokSrc σ} {I : σ → Prop} {P : Loc → Prop}

/-- Both ends of a span are `P`-locations. -/
structure SP (P : Loc → Prop) (sp : Span) : Prop where
  s : P sp.s
  e : P sp.e

theorem SP.of_and {sp : Span} (h : P sp.s ∧ P sp.e) : SP P sp := ⟨h.1, h.2⟩

/-- … for every span of a list. -/
def AllQ (P : Loc → Prop) (l : List Span) : Prop := ∀ sp ∈ l, SP P sp

@[simp] theorem AllQ_nil : AllQ P [] ↔ True := by simp [AllQ]
@[simp] theorem AllQ_cons {a : Span} {l : List Span} : AllQ P (a :: l) ↔ SP P a ∧ AllQ P l := by
  simp [AllQ]
@[simp] theorem AllQ_append {a b : List Span} : AllQ P (a ++ b) ↔ AllQ P a ∧ AllQ P b := by
  simp only [AllQ, List.mem_append]
  constructor
  · intro h; exact ⟨fun sp hs => h sp (.inl hs), fun sp hs => h sp (.inr hs)⟩
  · rintro ⟨h1, h2⟩ sp (hs | hs)
    · exact h1 sp hs
    · exact h2 sp hs
theorem AllQ_reverse {l : List Span} : AllQ P l.reverse ↔ AllQ P l := by simp [AllQ]

theorem AllQ_head {a : Span} {l : List Span} (h : AllQ P (a :: l)) : SP P a := (AllQ_cons.mp h).1
theorem AllQ_tail {a : Span} {l : List Span} (h : AllQ P (a :: l)) : AllQ P l := (AllQ_cons.mp h).2

theorem SP_mk {a b : Loc} (ha : P a) (hb : P b) : SP P ⟨a, b⟩ := ⟨ha, hb⟩

theorem P_min {a b : Loc} (ha : P a) (hb : P b) : P (a.min b) := by unfold Loc.min; split <;> assumption
theorem P_max {a b : Loc} (ha : P a) (hb : P b) : P (a.max b) := by unfold Loc.max; split <;> assumption

theorem SP_join {a b : Span} (ha : SP P a) (hb : SP P b) : SP P (a.join b) :=
  ⟨P_min ha.s hb.s, P_max ha.e hb.e⟩

theorem SP_joinAll {sp : Span} {l : List Span} (h : SP P sp) (hl : AllQ P l) : SP P (joinAll sp l) := by
  unfold joinAll
  induction l generalizing sp with
  | nil => exact h
  | cons x xs ih =>
    simp only [List.foldl_cons]
    exact ih (SP_join h (hl x (by simp))) (fun y hy => hl y (by simp [hy]))

theorem span_SP {a : Ast} (h : AllQ P (spansOf a)) : SP P a.span := by
  cases a <;> simp only [spansOf, AllQ_cons] at h <;> exact h.1

theorem primSpan_SP {p : Prim} (h : AllQ P (spansOfPrim p)) : SP P p.span := by
  cases p <;> simp only [spansOfPrim, AllQ_cons] at h <;> exact h.1

theorem patSpan_SP {p : Pat} (h : AllQ P (spansOfPat p)) : SP P p.span := by
  cases p <;> simp only [spansOfPat, AllQ_cons] at h <;> exact h.1

theorem opSpans_AllQ : ∀ {l : List MOp}, AllQ P (spansOfOps l) → AllQ P (l.map MOp.span)
  | [], _ => by simp
  | .access .. :: rest, h => by
    simp only [spansOfOps, AllQ_cons] at h
    simp only [List.map_cons, AllQ_cons, MOp.span]
    exact ⟨h.1, opSpans_AllQ h.2.2⟩
  | .call .. :: rest, h => by
    simp only [spansOfOps, AllQ_cons, AllQ_append] at h
    simp only [List.map_cons, AllQ_cons, MOp.span]
    exact ⟨h.1, opSpans_AllQ h.2.2⟩
  | .index .. :: rest, h => by
    simp only [spansOfOps, AllQ_cons, AllQ_append] at h
    simp only [List.map_cons, AllQ_cons, MOp.span]
    exact ⟨h.1, opSpans_AllQ h.2.2⟩

/-! lists built in reverse -/
theorem spansOfList_mem {l : List Ast} : AllQ P (spansOfList l) ↔ ∀ a ∈ l, AllQ P (spansOf a) := by
  induction l with
  | nil => simp [spansOfList]
  | cons x xs ih => simp [spansOfList, ih]

theorem spansOfList_reverse {l : List Ast} (h : AllQ P (spansOfList l)) : AllQ P (spansOfList l.reverse) := by
  rw [spansOfList_mem] at h ⊢
  intro a ha; exact h a (List.mem_reverse.mp ha)

theorem spansOfOps_mem {l : List MOp} : AllQ P (spansOfOps l) ↔ ∀ o ∈ l, AllQ P (spansOfOps [o]) := by
  induction l with
  | nil => simp [spansOfOps]
  | cons x xs ih =>
    cases x <;> simp [spansOfOps, ih, and_assoc]

theorem spansOfOps_reverse {l : List MOp} (h : AllQ P (spansOfOps l)) : AllQ P (spansOfOps l.reverse) := by
  rw [spansOfOps_mem] at h ⊢
  intro a ha; exact h a (List.mem_reverse.mp ha)

theorem spansOfInits_mem {l : List MInit} : AllQ P (spansOfInits l) ↔ ∀ o ∈ l, AllQ P (spansOfInits [o]) := by
  induction l with
  | nil => simp [spansOfInits]
  | cons x xs ih =>
    cases x; simp [spansOfInits, ih, and_assoc]

theorem spansOfInits_reverse {l : List MInit} (h : AllQ P (spansOfInits l)) :
    AllQ P (spansOfInits l.reverse) := by
  rw [spansOfInits_mem] at h ⊢
  intro a ha; exact h a (List.mem_reverse.mp ha)

theorem spansOfCases_mem {l : List MCase} : AllQ P (spansOfCases l) ↔ ∀ o ∈ l, AllQ P (spansOfCases [o]) := by
  induction l with
  | nil => simp [spansOfCases]
  | cons x xs ih =>
    cases x; simp [spansOfCases, ih, and_assoc]

theorem spansOfCases_reverse {l : List MCase} (h : AllQ P (spansOfCases l)) :
    AllQ P (spansOfCases l.reverse) := by
  rw [spansOfCases_mem] at h ⊢
  intro a ha; exact h a (List.mem_reverse.mp ha)

/-- The span of an operator run `o :: rest`: from the first operator to the end of the last one. -/
theorem runSpan_SP {o : Span} {rest : List Span} (h : AllQ P (o :: rest)) :
    SP P ⟨o.s, (((o :: rest).getLast?).getD o).e⟩ := by
  refine ⟨(h o (by simp)).s, ?_⟩
  have : ((o :: rest).getLast?).getD o ∈ o :: rest := by
    cases hl : (o :: rest).getLast? with
    | none => simp
    | some x => simpa using List.mem_of_getLast? hl
  exact (h _ this).e

/-- Post-condition on the *value* of a successful parse. -/
def PostQ {α : Type} (Q : α → Prop) : PRes σ α → Prop
  | .error _ => True
  | .ok (a, _) => Q a

@[simp] theorem PostQ_ok {α : Type} (Q : α → Prop) (a : α) (ps : PS σ) : PostQ Q (.ok (a, ps) : PRes σ α) = Q a := rfl
@[simp] theorem PostQ_err {α : Type} (Q : α → Prop) (e : PErr) : PostQ Q (.error e : PRes σ α) = True := rfl

theorem PostQ.ok_inv {α : Type} {Q : α → Prop} {r : PRes σ α} {a : α} {ps : PS σ} (h : PostQ Q r)
    (e : r = .ok (a, ps)) : Q a := by subst e; exact h

abbrev QA (P : Loc → Prop) (a : Ast) : Prop := AllQ P (spansOf a)

theorem PostQ.ast_inv {r : PRes σ Ast} {a : Ast} {ps : PS σ} (h : PostQ (QA P) r) (e : r = .ok (a, ps)) :
    AllQ P (spansOf a) := PostQ.ok_inv (Q := QA P) h e
theorem PostQ.prim_inv {r : PRes σ Prim} {a : Prim} {ps : PS σ}
    (h : PostQ (fun p => AllQ P (spansOfPrim p)) r) (e : r = .ok (a, ps)) : AllQ P (spansOfPrim a) :=
  PostQ.ok_inv (Q := fun p => AllQ P (spansOfPrim p)) h e
theorem PostQ.pat_inv {r : PRes σ Pat} {a : Pat} {ps : PS σ}
    (h : PostQ (fun p => AllQ P (spansOfPat p)) r) (e : r = .ok (a, ps)) : AllQ P (spansOfPat a) :=
  PostQ.ok_inv (Q := fun p => AllQ P (spansOfPat p)) h e
theorem PostQ.spans_inv {r : PRes σ (List Span)} {a : List Span} {ps : PS σ}
    (h : PostQ (fun l => AllQ P l) r) (e : r = .ok (a, ps)) : AllQ P a := PostQ.ok_inv (Q := fun l => AllQ P l) h e
theorem PostQ.list_inv {r : PRes σ (List Ast)} {a : List Ast} {ps : PS σ}
    (h : PostQ (fun l => AllQ P (spansOfList l)) r) (e : r = .ok (a, ps)) : AllQ P (spansOfList a) :=
  PostQ.ok_inv (Q := fun l => AllQ P (spansOfList l)) h e
theorem PostQ.inits_inv {r : PRes σ (List MInit)} {a : List MInit} {ps : PS σ}
    (h : PostQ (fun l => AllQ P (spansOfInits l)) r) (e : r = .ok (a, ps)) : AllQ P (spansOfInits a) :=
  PostQ.ok_inv (Q := fun l => AllQ P (spansOfInits l)) h e
theorem PostQ.cases_inv1 {r : PRes σ (List MCase × Span)} {a : List MCase} {b : Span} {ps : PS σ}
    (h : PostQ (fun x => AllQ P (spansOfCases x.1) ∧ SP P x.2) r) (e : r = .ok ((a, b), ps)) :
    AllQ P (spansOfCases a) := (PostQ.ok_inv (Q := fun x => AllQ P (spansOfCases x.1) ∧ SP P x.2) h e).1
theorem PostQ.cases_inv2 {r : PRes σ (List MCase × Span)} {a : List MCase} {b : Span} {ps : PS σ}
    (h : PostQ (fun x => AllQ P (spansOfCases x.1) ∧ SP P x.2) r) (e : r = .ok ((a, b), ps)) :
    SP P b := (PostQ.ok_inv (Q := fun x => AllQ P (spansOfCases x.1) ∧ SP P x.2) h e).2

/-- The claim for all parse functions at one fuel value: every span of the result is made of
    `P`-locations, provided the accumulated arguments are. -/
structure SClaims (T : TokSrc σ) (I : σ → Prop) (P : Loc → Prop) (f : Nat) : Prop where
  expr : ∀ ps : PS σ, I ps.ts → PostQ (QA P) (parseExpr T f ps)
  exprUng : ∀ ps : PS σ, I ps.ts → PostQ (QA P) (parseExprUng T f ps)
  match_ : ∀ (m : Span) (ps : PS σ), SP P m → I ps.ts → PostQ (QA P) (parseMatch T f m ps)
  cases : ∀ (c : Bool) (acc : List MCase) (ps : PS σ), AllQ P (spansOfCases acc) → I ps.ts →
    PostQ (fun r => AllQ P (spansOfCases r.1) ∧ SP P r.2) (parseCases T f c acc ps)
  pattern : ∀ ps : PS σ, I ps.ts → PostQ (fun p => AllQ P (spansOfPat p)) (parsePattern T f ps)
  or : ∀ ps : PS σ, I ps.ts → PostQ (QA P) (parseOr T f ps)
  orLoop : ∀ (l : Ast) (ps : PS σ), QA P l → I ps.ts → PostQ (QA P) (parseOrLoop T f l ps)
  and_ : ∀ ps : PS σ, I ps.ts → PostQ (QA P) (parseAnd T f ps)
  andLoop : ∀ (l : Ast) (ps : PS σ), QA P l → I ps.ts → PostQ (QA P) (parseAndLoop T f l ps)
  rel : ∀ ps : PS σ, I ps.ts → PostQ (QA P) (parseRel T f ps)
  relLoop : ∀ (l : Ast) (ps : PS σ), QA P l → I ps.ts → PostQ (QA P) (parseRelLoop T f l ps)
  add : ∀ ps : PS σ, I ps.ts → PostQ (QA P) (parseAdd T f ps)
  addLoop : ∀ (l : Ast) (ps : PS σ), QA P l → I ps.ts → PostQ (QA P) (parseAddLoop T f l ps)
  mul : ∀ ps : PS σ, I ps.ts → PostQ (QA P) (parseMul T f ps)
  mulLoop : ∀ (l : Ast) (ps : PS σ), QA P l → I ps.ts → PostQ (QA P) (parseMulLoop T f l ps)
  unary : ∀ ps : PS σ, I ps.ts → PostQ (QA P) (parseUnary T f ps)
  opRun : ∀ (op : Tok) (acc : List Span) (ps : PS σ), AllQ P acc → I ps.ts →
    PostQ (fun r => AllQ P r) (parseOpRun T f op acc ps)
  member : ∀ ps : PS σ, I ps.ts → PostQ (QA P) (parseMember T f ps)
  memberLoop : ∀ (p : Prim) (acc : List MOp) (ps : PS σ), AllQ P (spansOfPrim p) → AllQ P (spansOfOps acc) →
    I ps.ts → PostQ (QA P) (parseMemberLoop T f p acc ps)
  exprList : ∀ (e : Tok) (acc : List Ast) (ps : PS σ), AllQ P (spansOfList acc) → I ps.ts →
    PostQ (fun r => AllQ P (spansOfList r)) (parseExprList T f e acc ps)
  objInits : ∀ (acc : List MInit) (ps : PS σ), AllQ P (spansOfInits acc) → I ps.ts →
    PostQ (fun r => AllQ P (spansOfInits r)) (parseObjInits T f acc ps)
  primary : ∀ ps : PS σ, I ps.ts → PostQ (fun p => AllQ P (spansOfPrim p)) (parsePrimary T f ps)

/-- Hypotheses, token spans, token-source locations. -/
syntax "pfact00" : tactic
macro_rules
  | `(tactic| pfact00) => `(tactic|
      first
      | assumption
      | trivial
      | (refine SP.of_and (pPeek_tok (by assumption) ?_ (by assumption)); pinv)
      | (refine SP.of_and (pNext_tok (by assumption) ?_ (by assumption)); pinv)
      | (refine SrcOK.loc (by assumption) ?_; pinv))

/-- Preconditions on accumulated span lists (`[]`, `sp :: acc`). -/
syntax "pacc" : tactic
macro_rules
  | `(tactic| pacc) => `(tactic|
      first
      | pfact00
      | (simp only [AllQ_cons, AllQ_nil, and_true, true_and]
         repeat' apply And.intro
         all_goals pfact00))

/-- Facts available directly: hypotheses, and the claims of the callees applied to the equations in the
    context. -/
syntax "pfact0" : tactic
macro_rules
  | `(tactic| pfact0) => `(tactic|
      first
      | pfact00
      | (refine PostQ.ast_inv (SClaims.or (by assumption) _ ?_) (by assumption); pinv)
      | (refine PostQ.ast_inv (SClaims.and_ (by assumption) _ ?_) (by assumption); pinv)
      | (refine PostQ.ast_inv (SClaims.rel (by assumption) _ ?_) (by assumption); pinv)
      | (refine PostQ.ast_inv (SClaims.add (by assumption) _ ?_) (by assumption); pinv)
      | (refine PostQ.ast_inv (SClaims.mul (by assumption) _ ?_) (by assumption); pinv)
      | (refine PostQ.ast_inv (SClaims.unary (by assumption) _ ?_) (by assumption); pinv)
      | (refine PostQ.ast_inv (SClaims.member (by assumption) _ ?_) (by assumption); pinv)
      | (refine PostQ.ast_inv (SClaims.expr (by assumption) _ ?_) (by assumption); pinv)
      | (refine PostQ.ast_inv (SClaims.exprUng (by assumption) _ ?_) (by assumption); pinv)
      | (refine PostQ.prim_inv (SClaims.primary (by assumption) _ ?_) (by assumption); pinv)
      | (refine PostQ.pat_inv (SClaims.pattern (by assumption) _ ?_) (by assumption); pinv)
      | (refine PostQ.spans_inv (SClaims.opRun (by assumption) _ _ _ ?_ ?_) (by assumption) <;> first | pinv | pacc))

/-- Proves a fact about the spans of a value built or obtained in the symbolic execution. -/
syntax "pfact" : tactic
macro_rules
  | `(tactic| pfact) => `(tactic|
      first
      | pfact0
      | (refine PostQ.list_inv (SClaims.exprList (by assumption) _ _ _ ?_ ?_) (by assumption) <;> first | pinv | pfact)
      | (refine PostQ.inits_inv (SClaims.objInits (by assumption) _ _ ?_ ?_) (by assumption) <;> first | pinv | pfact)
      | (refine PostQ.cases_inv1 (SClaims.cases (by assumption) _ _ _ ?_ ?_) (by assumption) <;> first | pinv | pfact)
      | (refine PostQ.cases_inv2 (SClaims.cases (by assumption) _ _ _ ?_ ?_) (by assumption) <;> first | pinv | pfact)
      | (show SP _ _; apply AllQ_head; pfact0)
      | (show AllQ _ _; apply AllQ_tail; pfact0)
      | (apply And.intro <;> pfact)
      | (refine SP_join ?_ ?_ <;> pfact)
      | (refine span_SP ?_; pfact)
      | (refine primSpan_SP ?_; pfact)
      | (refine patSpan_SP ?_; pfact)
      | (refine runSpan_SP ?_; pfact0)
      | (refine SP_mk ?_ ?_ <;> pfact)
      | (refine SP_joinAll ?_ ?_ <;> pfact)
      | (refine opSpans_AllQ ?_; pfact)
      | (refine spansOfList_reverse ?_; pfact)
      | (refine spansOfOps_reverse ?_; pfact)
      | (refine spansOfInits_reverse ?_; pfact)
      | (refine spansOfCases_reverse ?_; pfact)
      | (refine AllQ_reverse.mpr ?_; pfact)
      | (simp only [QA, spansOf, spansOfPrim, spansOfOps, spansOfList, spansOfInits, spansOfCases, spansOfPat,
           AllQ_cons, AllQ_append, AllQ_nil, and_true, true_and]
         repeat' apply And.intro
         all_goals pfact))

/-- Closes a leaf of the symbolic execution: trivial on errors, the span facts on success, the claim of the
    callee with its preconditions on a tail call. -/
syntax "sclose" : tactic
macro_rules
  | `(tactic| sclose) => `(tactic|
      first
      | trivial
      | pfact
      | (refine SClaims.orLoop (by assumption) _ _ ?_ ?_ <;> first | pinv | pfact)
      | (refine SClaims.andLoop (by assumption) _ _ ?_ ?_ <;> first | pinv | pfact)
      | (refine SClaims.relLoop (by assumption) _ _ ?_ ?_ <;> first | pinv | pfact)
      | (refine SClaims.addLoop (by assumption) _ _ ?_ ?_ <;> first | pinv | pfact)
      | (refine SClaims.mulLoop (by assumption) _ _ ?_ ?_ <;> first | pinv | pfact)
      | (refine SClaims.memberLoop (by assumption) _ _ _ ?_ ?_ ?_ <;> first | pinv | pfact)
      | (refine SClaims.member (by assumption) _ ?_; pinv)
      | (refine SClaims.match_ (by assumption) _ _ ?_ ?_ <;> first | pinv | pfact)
      | (refine SClaims.cases (by assumption) _ _ _ ?_ ?_ <;> first | pinv | pfact)
      | (refine SClaims.exprList (by assumption) _ _ _ ?_ ?_ <;> first | pinv | pfact)
      | (refine SClaims.objInits (by assumption) _ _ ?_ ?_ <;> first | pinv | pfact))

syntax "ssym" : tactic
macro_rules
  | `(tactic| ssym) => `(tactic|
      ((repeat' split) <;> (try simp only [PostQ_ok, PostQ_err]) <;> first | sclose | trace_state))

set_option linter.unusedSectionVars false
set_option linter.unusedSimpArgs false

variable (H : SrcOK T I P) {f : Nat} (C : Claims T I P f) (D : SClaims T I P f)
include H C D

theorem sstep_or : ∀ ps, I ps.ts → PostQ (QA P) (parseOr T (f + 1) ps) := by
  intro ps h0
  simp only [parseOr]
  ssym

theorem sstep_orLoop : ∀ l ps, QA P l → I ps.ts → PostQ (QA P) (parseOrLoop T (f + 1) l ps) := by
  intro l ps h0 h1
  simp only [parseOrLoop]
  ssym

theorem sstep_and_ : ∀ ps, I ps.ts → PostQ (QA P) (parseAnd T (f + 1) ps) := by
  intro ps h0
  simp only [parseAnd]
  ssym

theorem sstep_andLoop : ∀ l ps, QA P l → I ps.ts → PostQ (QA P) (parseAndLoop T (f + 1) l ps) := by
  intro l ps h0 h1
  simp only [parseAndLoop]
  ssym

theorem sstep_rel : ∀ ps, I ps.ts → PostQ (QA P) (parseRel T (f + 1) ps) := by
  intro ps h0
  simp only [parseRel]
  ssym

theorem sstep_relLoop : ∀ l ps, QA P l → I ps.ts → PostQ (QA P) (parseRelLoop T (f + 1) l ps) := by
  intro l ps h0 h1
  simp only [parseRelLoop]
  ssym

theorem sstep_add : ∀ ps, I ps.ts → PostQ (QA P) (parseAdd T (f + 1) ps) := by
  intro ps h0
  simp only [parseAdd]
  ssym

theorem sstep_addLoop : ∀ l ps, QA P l → I ps.ts → PostQ (QA P) (parseAddLoop T (f + 1) l ps) := by
  intro l ps h0 h1
  simp only [parseAddLoop]
  ssym

theorem sstep_mul : ∀ ps, I ps.ts → PostQ (QA P) (parseMul T (f + 1) ps) := by
  intro ps h0
  simp only [parseMul]
  ssym

theorem sstep_mulLoop : ∀ l ps, QA P l → I ps.ts → PostQ (QA P) (parseMulLoop T (f + 1) l ps) := by
  intro l ps h0 h1
  simp only [parseMulLoop]
  ssym

theorem sstep_member : ∀ ps, I ps.ts → PostQ (QA P) (parseMember T (f + 1) ps) := by
  intro ps h0
  simp only [parseMember]
  ssym

theorem sstep_exprUng : ∀ ps, I ps.ts → PostQ (QA P) (parseExprUng T (f + 1) ps) := by
  intro ps h0
  simp only [parseExprUng]
  ssym

theorem sstep_match_ : ∀ m ps, SP P m → I ps.ts → PostQ (QA P) (parseMatch T (f + 1) m ps) := by
  intro m ps h0 h1
  simp only [parseMatch]
  ssym

theorem sstep_cases : ∀ c acc ps, AllQ P (spansOfCases acc) → I ps.ts → PostQ (fun r => AllQ P (spansOfCases r.1) ∧ SP P r.2) (parseCases T (f + 1) c acc ps) := by
  intro c acc ps h0 h1
  simp only [parseCases]
  ssym

theorem sstep_exprList : ∀ e acc ps, AllQ P (spansOfList acc) → I ps.ts → PostQ (fun r => AllQ P (spansOfList r)) (parseExprList T (f + 1) e acc ps) := by
  intro e acc ps h0 h1
  simp only [parseExprList]
  ssym

theorem sstep_objInits : ∀ acc ps, AllQ P (spansOfInits acc) → I ps.ts → PostQ (fun r => AllQ P (spansOfInits r)) (parseObjInits T (f + 1) acc ps) := by
  intro acc ps h0 h1
  simp only [parseObjInits]
  ssym

theorem sstep_memberLoop : ∀ p acc ps, AllQ P (spansOfPrim p) → AllQ P (spansOfOps acc) → I ps.ts → PostQ (QA P) (parseMemberLoop T (f + 1) p acc ps) := by
  intro p acc ps h0 h1 h2
  simp only [parseMemberLoop]
  ssym

theorem sstep_unary : ∀ ps, I ps.ts → PostQ (QA P) (parseUnary T (f + 1) ps) := by
  intro ps h0
  simp only [parseUnary]
  ssym

theorem sstep_opRun : ∀ op acc ps, AllQ P acc → I ps.ts → PostQ (fun r => AllQ P r) (parseOpRun T (f + 1) op acc ps) := by
  intro op acc ps h0 h1
  simp only [parseOpRun]
  ssym

theorem sstep_pattern : ∀ ps, I ps.ts → PostQ (fun p => AllQ P (spansOfPat p)) (parsePattern T (f + 1) ps) := by
  intro ps h0
  simp only [parsePattern]
  ssym

theorem sstep_primary : ∀ ps, I ps.ts → PostQ (fun p => AllQ P (spansOfPrim p)) (parsePrimary T (f + 1) ps) := by
  intro ps h0
  simp only [parsePrimary]
  ssym


omit H C D in
theorem enter_postQ {α : Type} {Q : α → Prop} {ps : PS σ} {k : PS σ → PRes σ α}
    (hk : ∀ ps1 : PS σ, ps1.ts = ps.ts → PostQ Q (k ps1)) : PostQ Q (enter T ps k) := by
  unfold enter
  split
  · trivial
  · have := hk { ps with depth := ps.depth + 1 } rfl
    split
    · trivial
    · rename_i a ps' he; rw [he] at this; exact this

theorem sstep_expr : ∀ ps, I ps.ts → PostQ (QA P) (parseExpr T (f + 1) ps) := by
  intro ps hi
  simp only [parseExpr]
  exact enter_postQ (fun ps1 h1 => D.exprUng ps1 (h1 ▸ hi))

omit C D in
theorem sclaims_zero : SClaims T I P 0 := by
  constructor <;> intros <;> simp only [parseExpr, parseExprUng, parseMatch, parseCases, parsePattern, parseOr,
    parseOrLoop, parseAnd, parseAndLoop, parseRel, parseRelLoop, parseAdd, parseAddLoop, parseMul,
    parseMulLoop, parseUnary, parseOpRun, parseMember, parseMemberLoop, parseExprList, parseObjInits,
    parsePrimary, pFail] <;> trivial

theorem sclaims_succ : SClaims T I P (f + 1) where
  expr := sstep_expr H C D
  exprUng := sstep_exprUng H C D
  match_ := sstep_match_ H C D
  cases := sstep_cases H C D
  pattern := sstep_pattern H C D
  or := sstep_or H C D
  orLoop := sstep_orLoop H C D
  and_ := sstep_and_ H C D
  andLoop := sstep_andLoop H C D
  rel := sstep_rel H C D
  relLoop := sstep_relLoop H C D
  add := sstep_add H C D
  addLoop := sstep_addLoop H C D
  mul := sstep_mul H C D
  mulLoop := sstep_mulLoop H C D
  unary := sstep_unary H C D
  opRun := sstep_opRun H C D
  member := sstep_member H C D
  memberLoop := sstep_memberLoop H C D
  exprList := sstep_exprList H C D
  objInits := sstep_objInits H C D
  primary := sstep_primary H C D

omit C D in
theorem sclaims_all : ∀ n, SClaims T I P n
  | 0 => sclaims_zero H
  | n + 1 => sclaims_succ H (claims_all H n) (sclaims_all n)

omit C D in
/-- **Every span of the tree `parseProgram` returns is made of locations of the token source** (any token
    source satisfying `SrcOK`). -/
theorem parseProgram_spans (src : Str) (h0 : I (T.ofText src)) {a : Ast}
    (he : parseProgram T src = .ok a) : AllQ P (spansOf a) := by
  have D := sclaims_all H (I := I) (P := P) (T := T) (parseFuel src.length)
  unfold parseProgram parseFrom at he
  have hp := D.expr { ts := T.ofText src, depth := 0, minLit := false } h0
  split at he
  · cases he
  · rename_i a' ps he'
    split at he
    · cases he
    · cases he; exact PostQ.ast_inv hp he'
    · cases he

end
end Rscel
