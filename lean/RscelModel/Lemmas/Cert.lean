import RscelModel.Model.WF
import RscelModel.Model.Compile
/-
Certified fragments (C10, compiler side).

A *segment* `Seg code a b` is a piece of bytecode that, started anywhere on a stack holding at least `a`
values, reaches its own end on every path with `b` values in place of those `a`, never pops below the
`a` it was given, and only jumps forward to positions inside itself (its end included).  It is the
relative, compositional form of the certificate `checkHeights` verifies: the witness is a height for
every position of the segment.  Segments compose sequentially (`seg_append`) and under the two jump
shapes the compiler uses (`seg_jmpCond_end`: a conditional exit to the end of the segment;
`seg_ite`: `JMPCOND else; A; JMP end; Y`).  `seg_check` turns a segment `0 ↦ 1` into a table accepted
by `checkHeights`.
-/
namespace Rscel
namespace Cert

/-- The height function `f` (height before each position) justifies instruction `i` at position `k` of
    a block of length `len`. -/
def Ok (f : Nat → Nat) (len k : Nat) (i : Instr) : Prop :=
  i.effect.1 ≤ f k ∧
    ∃ ts, i.succs k len = some ts ∧ ∀ t ∈ ts, t ≤ len ∧ f t = f k - i.effect.1 + i.effect.2

/-- Every instruction of `code`, placed at offset `off` of a block of length `len`, is justified by `f`. -/
def Cert (code : List Instr) (off len : Nat) (f : Nat → Nat) : Prop :=
  ∀ k i, code[k]? = some i → Ok f len (off + k) i

theorem cert_nil (off len : Nat) (f : Nat → Nat) : Cert [] off len f := by
  intro k i h; simp at h

theorem cert_cons {i : Instr} {c : List Instr} {off len : Nat} {f : Nat → Nat} :
    Cert (i :: c) off len f ↔ Ok f len off i ∧ Cert c (off + 1) len f := by
  constructor
  · intro h
    refine ⟨by simpa using h 0 i (by simp), ?_⟩
    intro k j hk
    have := h (k + 1) j (by simpa using hk)
    rwa [show off + (k + 1) = off + 1 + k by omega] at this
  · rintro ⟨h0, h1⟩ k j hk
    cases k with
    | zero => simp at hk; subst hk; simpa using h0
    | succ k =>
      have := h1 k j (by simpa using hk)
      rwa [show off + 1 + k = off + (k + 1) by omega] at this

theorem cert_append {c1 c2 : List Instr} {off len : Nat} {f : Nat → Nat} :
    Cert (c1 ++ c2) off len f ↔ Cert c1 off len f ∧ Cert c2 (off + c1.length) len f := by
  induction c1 generalizing off with
  | nil => simp [cert_nil]
  | cons i c ih =>
    simp only [List.cons_append, cert_cons, ih, List.length_cons, and_assoc]
    rw [show off + 1 + c.length = off + (c.length + 1) by omega]

/-- Successors move with the block: jumps are relative and stay inside the fragment. -/
theorem succs_shift {i : Instr} {k n : Nat} {ts : List Nat} (hs : i.succs k n = some ts) (hk : k < n)
    (off len : Nat) (hl : off + n ≤ len) :
    i.succs (off + k) len = some (ts.map (off + ·)) ∧ ∀ t ∈ ts, t ≤ n := by
  cases i <;> simp only [Instr.succs, Option.some.injEq] at hs ⊢ <;> (try subst hs) <;>
    (try (simp; omega))
  case jmp d =>
    split at hs
    · rename_i hc
      cases hs
      have hle : off + k + 1 + d.toNat ≤ len := by omega
      simp [hc.1, hle]; omega
    · cases hs
  case jmpCond w d =>
    split at hs
    · rename_i hc
      cases hs
      have hle : off + k + 1 + d.toNat ≤ len := by omega
      simp [hc.1, hle]; omega
    · cases hs

/-- Position independence: a certificate of a fragment relative to its own start is a certificate at any
    offset of any larger block whose heights agree with it on the fragment. -/
theorem cert_shift {c : List Instr} {g f : Nat → Nat} {off len : Nat}
    (hg : Cert c 0 c.length g) (hf : ∀ j, j ≤ c.length → f (off + j) = g j) (hl : off + c.length ≤ len) :
    Cert c off len f := by
  intro k i hk
  have hlt : k < c.length := (List.getElem?_eq_some_iff.mp hk).1
  obtain ⟨hp, ts, hs, ht⟩ := hg k i hk
  rw [Nat.zero_add] at hp hs ht
  obtain ⟨hs', hb⟩ := succs_shift hs hlt off len hl
  refine ⟨by rw [hf k (by omega)]; exact hp, _, hs', ?_⟩
  intro t ht'
  obtain ⟨t0, ht0, rfl⟩ := List.mem_map.mp ht'
  have := ht t0 ht0
  have hb0 := hb t0 ht0
  refine ⟨by omega, ?_⟩
  rw [hf t0 hb0, hf k (by omega)]
  exact this.2

/-- Converse of `C10.checkGo_at`. -/
theorem checkGo_of_at (H : Heights) (len : Nat) :
    ∀ (code : List Instr) (start : Nat),
      (∀ (k : Nat) (i : Instr), code[k]? = some i → checkAt H len (start + k) i = true) →
      checkGo H len code start = true
  | [], _, _ => rfl
  | c :: rest, start, h => by
    simp only [checkGo, Bool.and_eq_true]
    refine ⟨by simpa using h 0 c (by simp), checkGo_of_at H len rest (start + 1) ?_⟩
    intro k i hk
    have := h (k + 1) i (by simpa using hk)
    rwa [show start + (k + 1) = start + 1 + k by omega] at this

/-- The table read off a height function. -/
def table (f : Nat → Nat) (len : Nat) : Heights := (List.range (len + 1)).map fun k => some (f k)

theorem table_get (f : Nat → Nat) (len k : Nat) (hk : k ≤ len) : (table f len)[k]? = some (some (f k)) := by
  simp [table, List.getElem?_range (show k < len + 1 by omega)]

theorem checkAt_of_ok {f : Nat → Nat} {len k : Nat} {i : Instr} (hk : k ≤ len) (h : Ok f len k i) :
    checkAt (table f len) len k i = true := by
  obtain ⟨hp, ts, hs, ht⟩ := h
  simp only [checkAt, table_get f len k hk, hs, Bool.and_eq_true, decide_eq_true_eq, List.all_eq_true,
    beq_iff_eq]
  refine ⟨hp, ?_⟩
  intro t htm
  obtain ⟨h1, h2⟩ := ht t htm
  rw [table_get f len t h1, h2]

/-- **Bridge**: a certificate by a height function is a table accepted by `checkHeights`. -/
theorem cert_check {code : List Instr} {f : Nat → Nat} (h : Cert code 0 code.length f) :
    checkHeights code (table f code.length) (f 0) (f code.length) = true := by
  simp only [checkHeights, Bool.and_eq_true, beq_iff_eq]
  refine ⟨⟨⟨by simp [table], table_get f _ 0 (Nat.zero_le _)⟩, table_get f _ _ (Nat.le_refl _)⟩, ?_⟩
  apply checkGo_of_at
  intro k i hk
  have hlt : k < code.length := (List.getElem?_eq_some_iff.mp hk).1
  exact checkAt_of_ok (by omega) (h k i hk)

/-- A certified fragment taking `a` values (on top of any stack) to `b` values. -/
def Seg (code : List Instr) (a b : Nat) : Prop :=
  ∀ h, ∃ f : Nat → Nat, f 0 = h + a ∧ f code.length = h + b ∧ Cert code 0 code.length f

/-- **Bridge** for an expression block. -/
theorem seg_check {code : List Instr} (h : Seg code 0 1) : ∃ H, checkHeights code H 0 1 = true := by
  obtain ⟨f, h0, h1, hc⟩ := h 0
  refine ⟨table f code.length, ?_⟩
  have := cert_check hc
  rwa [h0, h1] at this

theorem seg_nil (a : Nat) : Seg [] a a := fun h => ⟨fun _ => h + a, rfl, rfl, cert_nil _ _ _⟩

/-- More values underneath do not matter. -/
theorem seg_frame {code : List Instr} {a b : Nat} (h : Seg code a b) (k : Nat) : Seg code (a + k) (b + k) := by
  intro h0
  obtain ⟨f, h1, h2, h3⟩ := h (h0 + k)
  exact ⟨f, by omega, by omega, h3⟩

/-- Sequential composition. -/
theorem seg_append {c1 c2 : List Instr} {a b c : Nat} (h1 : Seg c1 a b) (h2 : Seg c2 b c) :
    Seg (c1 ++ c2) a c := by
  intro h
  obtain ⟨f1, a1, b1, k1⟩ := h1 h
  obtain ⟨f2, a2, b2, k2⟩ := h2 h
  refine ⟨fun k => if k ≤ c1.length then f1 k else f2 (k - c1.length), by simpa using a1, ?_, ?_⟩
  · simp only [List.length_append]
    split
    · rename_i hc
      have : c2.length = 0 := by omega
      rw [show c1.length + c2.length = c1.length by omega, b1]
      rw [this] at b2; omega
    · rw [show c1.length + c2.length - c1.length = c2.length by omega]; exact b2
  · rw [cert_append]
    constructor
    · apply cert_shift k1
      · intro j hj; simp [hj]
      · simp
    · apply cert_shift k2
      · intro j hj
        by_cases hj0 : j = 0
        · subst hj0; simp; omega
        · have : ¬ (0 + c1.length + j ≤ c1.length) := by omega
          simp only [this, if_false]
          congr 1; omega
      · simp

/-- One instruction that is not a jump. -/
theorem seg_single (i : Instr) (hs : ∀ k len, i.succs k len = some [k + 1]) (a b : Nat)
    (hp : i.effect.1 ≤ a) (hb : b = a - i.effect.1 + i.effect.2) : Seg [i] a b := by
  intro h
  refine ⟨fun k => if k = 0 then h + a else h + b, by simp, by simp, ?_⟩
  rw [cert_cons]
  refine ⟨⟨by simp; omega, [1], by simpa using hs 0 1, ?_⟩, cert_nil _ _ _⟩
  intro t ht
  simp at ht; subst ht
  simp; omega

theorem seg_cons {i : Instr} {c : List Instr} {a b d : Nat} (h1 : Seg [i] a b) (h2 : Seg c b d) :
    Seg (i :: c) a d := seg_append h1 h2

/-- `JMPCOND → end` in front of a segment that keeps the height: both the taken jump and the fall-through
    path arrive at the end with the same height. -/
theorem seg_jmpCond_end (w : Bool) (d : Int) (rest : List Instr) (b : Nat) (hd : d = rest.length)
    (hr : Seg rest b b) : Seg (.jmpCond w d :: rest) (b + 1) b := by
  intro h
  obtain ⟨g, g0, g1, gc⟩ := hr h
  refine ⟨fun k => if k = 0 then h + (b + 1) else g (k - 1), by simp, by simpa using g1, ?_⟩
  rw [cert_cons]
  constructor
  · refine ⟨by simp [Instr.effect]; omega, [1, 1 + rest.length], ?_, ?_⟩
    · subst hd
      simp [Instr.succs]; omega
    · intro t ht
      simp only [List.mem_cons, List.not_mem_nil, or_false] at ht
      rcases ht with rfl | rfl
      · simp [Instr.effect, g0]
      · simp [Instr.effect, g1]; omega
  · apply cert_shift gc
    · intro j _; simp
    · simp; omega

/-- `JMPCOND → Y; A; JMP → end; Y` where `A` and `Y` do the same job. -/
theorem seg_ite (w : Bool) (d1 d2 : Int) (A Y : List Instr) (a b : Nat) (h1 : d1 = A.length + 1)
    (h2 : d2 = Y.length) (hA : Seg A a b) (hY : Seg Y a b) :
    Seg (.jmpCond w d1 :: (A ++ .jmp d2 :: Y)) (a + 1) b := by
  intro h
  obtain ⟨fA, A0, A1, Ac⟩ := hA h
  obtain ⟨fY, Y0, Y1, Yc⟩ := hY h
  refine ⟨fun k => if k = 0 then h + (a + 1) else if k ≤ A.length + 1 then fA (k - 1)
    else fY (k - (A.length + 2)), by simp, ?_, ?_⟩
  · simp only [List.length_cons, List.length_append]
    have e1 : ¬ (A.length + (Y.length + 1) + 1 = 0) := by omega
    have e2 : ¬ (A.length + (Y.length + 1) + 1 ≤ A.length + 1) := by omega
    simp only [e1, e2, if_false]
    rw [show A.length + (Y.length + 1) + 1 - (A.length + 2) = Y.length by omega]; exact Y1
  · rw [cert_cons, cert_append, cert_cons]
    refine ⟨?_, ?_, ?_, ?_⟩
    · refine ⟨by simp [Instr.effect]; omega, [1, A.length + 2], ?_, ?_⟩
      · subst h1
        simp [Instr.succs]; omega
      · intro t ht
        simp only [List.mem_cons, List.not_mem_nil, or_false] at ht
        rcases ht with rfl | rfl
        · simp [Instr.effect, A0]
        · simp [Instr.effect, Y0]
    · apply cert_shift Ac
      · intro j hj
        have e1 : ¬ (0 + 1 + j = 0) := by omega
        have e2 : 0 + 1 + j ≤ A.length + 1 := by omega
        simp only [e1, e2, if_false, if_true]; congr 1; omega
      · simp; omega
    · refine ⟨by simp [Instr.effect], [A.length + Y.length + 2], ?_, ?_⟩
      · subst h2
        simp [Instr.succs]; omega
      · intro t ht
        simp only [List.mem_cons, List.not_mem_nil, or_false] at ht
        subst ht
        have e1 : ¬ (A.length + Y.length + 2 = 0) := by omega
        have e2 : ¬ (A.length + Y.length + 2 ≤ A.length + 1) := by omega
        have e3 : ¬ (0 + 1 + A.length = 0) := by omega
        have e4 : 0 + 1 + A.length ≤ A.length + 1 := by omega
        simp only [e1, e2, e3, e4, if_false, if_true, Instr.effect]
        rw [show A.length + Y.length + 2 - (A.length + 2) = Y.length by omega,
          show 0 + 1 + A.length - 1 = A.length by omega, A1, Y1]
        simp; omega
    · apply cert_shift Yc
      · intro j hj
        have e1 : ¬ (0 + 1 + A.length + 1 + j = 0) := by omega
        have e2 : ¬ (0 + 1 + A.length + 1 + j ≤ A.length + 1) := by omega
        simp only [e1, e2, if_false]; congr 1; omega
      · simp; omega

/-! ### The instruction sequences the compiler emits -/

/-- Not a jump: the only successor is the next instruction. -/
def Simple (i : Instr) : Prop := ∀ k len, i.succs k len = some [k + 1]

theorem seg_push (v : Val) (a : Nat) : Seg [.push v] a (a + 1) :=
  seg_single _ (fun _ _ => rfl) _ _ (by simp [Instr.effect]) (by simp [Instr.effect])

theorem seg_pop (a : Nat) : Seg [.pop] (a + 1) a :=
  seg_single _ (fun _ _ => rfl) _ _ (by simp [Instr.effect]) (by simp [Instr.effect])

theorem seg_dup (a : Nat) : Seg [.dup] (a + 1) (a + 2) :=
  seg_single _ (fun _ _ => rfl) _ _ (by simp [Instr.effect]) (by simp [Instr.effect])

/-- An instruction replacing the top value (`TEST`, `NOT`, `NEG`). -/
theorem seg_un (i : Instr) (hs : Simple i) (he : i.effect = (1, 1)) (a : Nat) : Seg [i] (a + 1) (a + 1) :=
  seg_single _ hs _ _ (by simp [he]) (by simp [he])

/-- An instruction replacing the two top values by one. -/
theorem seg_bin (i : Instr) (hs : Simple i) (he : i.effect = (2, 1)) (a : Nat) : Seg [i] (a + 2) (a + 1) :=
  seg_single _ hs _ _ (by simp [he]) (by simp [he])

theorem seg_mkList (n a : Nat) : Seg [.mkList n] (a + n) (a + 1) :=
  seg_single _ (fun _ _ => rfl) _ _ (by simp [Instr.effect]) (by simp [Instr.effect])

theorem seg_mkDict (n a : Nat) : Seg [.mkDict n] (a + 2 * n) (a + 1) :=
  seg_single _ (fun _ _ => rfl) _ _ (by simp [Instr.effect]) (by simp [Instr.effect])

theorem seg_fmt (n a : Nat) : Seg [.fmt n] (a + n) (a + 1) :=
  seg_single _ (fun _ _ => rfl) _ _ (by simp [Instr.effect]) (by simp [Instr.effect])

theorem seg_call (n a : Nat) : Seg [.call n] (a + (n + 1)) (a + 1) :=
  seg_single _ (fun _ _ => rfl) _ _ (by simp [Instr.effect]) (by simp [Instr.effect])

theorem binOp_simple (op : BinOp) : Simple op.instr := by
  intro k len; cases op <;> rfl

theorem binOp_effect (op : BinOp) : op.instr.effect = (2, 1) := by cases op <;> rfl

theorem cmpOp_simple (op : CmpOp) : Simple op.instr := by
  intro k len; cases op <;> rfl

theorem cmpOp_effect (op : CmpOp) : op.instr.effect = (2, 1) := by cases op <;> rfl

/-- `l; r; OP`. -/
theorem seg_binary {l r : List Instr} {i : Instr} (hs : Simple i) (he : i.effect = (2, 1))
    (hl : Seg l 0 1) (hr : Seg r 0 1) : Seg (l ++ r ++ [i]) 0 1 := by
  have h1 : Seg r 1 2 := by simpa using seg_frame hr 1
  exact seg_append (seg_append hl h1) (by simpa using seg_bin i hs he 0)

/-- A run of `n` unary operators. -/
theorem seg_replicate (i : Instr) (hs : Simple i) (he : i.effect = (1, 1)) (a : Nat) :
    ∀ n, Seg (List.replicate n i) (a + 1) (a + 1)
  | 0 => seg_nil _
  | n + 1 => by
    rw [List.replicate_succ]
    exact seg_cons (seg_un i hs he a) (seg_replicate i hs he a n)

theorem seg_unary {m : List Instr} (i : Instr) (hs : Simple i) (he : i.effect = (1, 1)) (n : Nat)
    (hm : Seg m 0 1) : Seg (m ++ List.replicate n i) 0 1 :=
  seg_append hm (by simpa using seg_replicate i hs he 0 n)

/-- The tail of an `||` / `&&` chain: on the first operand's value, every short-circuit jump lands at the end
    of the chain with that one value, and so does the path through all operands. -/
theorem seg_chainTail (w : Bool) (op : Instr) (hs : Simple op) (he : op.effect = (2, 1)) :
    ∀ cs : List (List Instr), (∀ c ∈ cs, Seg c 0 1) → Seg (chainTail w op cs) 1 1
  | [], _ => seg_nil 1
  | c :: cs, h => by
    have hc : Seg c 1 2 := by simpa using seg_frame (h c (by simp)) 1
    have ht := seg_chainTail w op hs he cs (fun x hx => h x (by simp [hx]))
    have hrest : Seg (c ++ [op] ++ chainTail w op cs) 1 1 :=
      seg_append (seg_append hc (by simpa using seg_bin op hs he 0)) ht
    have hj := seg_jmpCond_end w (c.length + 1 + (chainTail w op cs).length) _ 1
      (by simp; omega) hrest
    have h2 : Seg [Instr.test, Instr.dup] 1 2 :=
      seg_cons (by simpa using seg_un .test (fun _ _ => rfl) rfl 0) (by simpa using seg_dup 0)
    have := seg_append h2 hj
    simpa [chainTail] using this

/-- `first; chain tail`. -/
theorem seg_chain (w : Bool) (op : Instr) (hs : Simple op) (he : op.effect = (2, 1)) {first : List Instr}
    {cs : List (List Instr)} (hf : Seg first 0 1) (h : ∀ c ∈ cs, Seg c 0 1) :
    Seg (first ++ chainTail w op cs) 0 1 :=
  seg_append hf (seg_chainTail w op hs he cs h)

/-- `c ? t : f`. -/
theorem seg_tern {c t f : List Instr} (hc : Seg c 0 1) (ht : Seg t 0 1) (hf : Seg f 0 1) :
    Seg (ternCode c t f) 0 1 := by
  -- else part, entered with the tested condition on the stack
  have hY : Seg (Instr.dup :: Instr.not :: Instr.jmpCond false (f.length + 1) :: (Instr.pop :: f)) 1 1 := by
    have hpf : Seg (Instr.pop :: f) 1 1 := seg_cons (by simpa using seg_pop 0) hf
    have hj := seg_jmpCond_end false (f.length + 1) (Instr.pop :: f) 1 (by simp) hpf
    exact seg_cons (by simpa using seg_dup 0)
      (seg_cons (by simpa using seg_un .not (fun _ _ => rfl) rfl 1) hj)
  have hA : Seg (Instr.pop :: t) 1 1 := seg_cons (by simpa using seg_pop 0) ht
  have hite := seg_ite false (t.length + 2) (f.length + 4) (Instr.pop :: t) _ 1 1
    (by simp; omega) (by simp; omega) hA hY
  have h2 : Seg [Instr.test, Instr.dup] 1 2 :=
    seg_cons (by simpa using seg_un .test (fun _ _ => rfl) rfl 0) (by simpa using seg_dup 0)
  have := seg_append hc (seg_append h2 hite)
  simpa [ternCode] using this

/-- The cases of a `match`, entered with the scrutinee on the stack, leave the result in its place. -/
theorem seg_matchTail :
    ∀ cases : List (List Instr × List Instr), (∀ pe ∈ cases, Seg pe.1 1 1 ∧ Seg pe.2 0 1) →
      Seg (matchTail cases) 1 1
  | [], _ => by
    simpa [matchTail] using seg_cons (by simpa using seg_pop 0) (seg_push .null 0)
  | (p, e) :: rest, h => by
    obtain ⟨hp, he⟩ := h (p, e) (by simp)
    have ht := seg_matchTail rest (fun x hx => h x (by simp [hx]))
    have hA : Seg (Instr.pop :: e) 1 1 := seg_cons (by simpa using seg_pop 0) he
    have hite := seg_ite false (e.length + 2) (matchTail rest).length (Instr.pop :: e) _ 1 1
      (by simp; omega) rfl hA ht
    have hp2 : Seg p 2 2 := by simpa using seg_frame hp 1
    have := seg_append (seg_cons (by simpa using seg_dup 0) hp2) hite
    simpa [matchTail] using this

/-- `scrutinee; cases`. -/
theorem seg_match {s : List Instr} {cases : List (List Instr × List Instr)} (hs : Seg s 0 1)
    (h : ∀ pe ∈ cases, Seg pe.1 1 1 ∧ Seg pe.2 0 1) : Seg (s ++ matchTail cases) 0 1 :=
  seg_append hs (seg_matchTail cases h)

/-- Children one after the other. -/
theorem seg_flatten : ∀ cs : List (List Instr), (∀ c ∈ cs, Seg c 0 1) → Seg cs.flatten 0 cs.length
  | [], _ => seg_nil 0
  | c :: cs, h => by
    have h1 := h c (by simp)
    have h2 := seg_frame (seg_flatten cs (fun x hx => h x (by simp [hx]))) 1
    have := seg_append h1 (by simpa using h2 : Seg cs.flatten 1 (cs.length + 1))
    simpa using this

theorem seg_list {cs : List (List Instr)} {n : Nat} (hn : cs.length = n) (h : ∀ c ∈ cs, Seg c 0 1) :
    Seg (cs.flatten ++ [.mkList n]) 0 1 := by
  subst hn
  exact seg_append (seg_flatten cs h) (by simpa using seg_mkList cs.length 0)

theorem seg_dict {cs : List (List Instr)} {n : Nat} (hn : cs.length = 2 * n) (h : ∀ c ∈ cs, Seg c 0 1) :
    Seg (cs.flatten ++ [.mkDict n]) 0 1 := by
  have := seg_append (seg_flatten cs h) (by simpa [hn] using seg_mkDict n 0 : Seg [.mkDict n] cs.length 1)
  exact this

/-- `obj; PUSH name; ACCESS`. -/
theorem seg_access {c : List Instr} (name : Str) (hc : Seg c 0 1) :
    Seg (c ++ [.push (.ident name), .access]) 0 1 :=
  seg_append hc (seg_cons (seg_push _ 1) (by simpa using seg_bin .access (fun _ _ => rfl) rfl 0))

/-- `args…; callee; CALL n`. -/
theorem seg_callSeq {args cur : List Instr} {n : Nat} (ha : Seg args 0 n) (hc : Seg cur 0 1) :
    Seg (args ++ cur ++ [.call n]) 0 1 := by
  have h1 : Seg cur n (n + 1) := by simpa [Nat.add_comm] using seg_frame hc n
  exact seg_append (seg_append ha h1) (by simpa using seg_call n 0)

/-- One f-string segment: `PUSH x; PUSH string; CALL 1`. -/
theorem seg_fseg (v : Val) (a : Nat) :
    Seg [.push v, .push (.ident "string".toList), .call 1] a (a + 1) :=
  seg_cons (seg_push v a) (seg_cons (seg_push _ (a + 1)) (by simpa using seg_call 1 a))

end Cert
end Rscel
