import RscelModel.Lemmas.ParseSpec
namespace Rscel
namespace C02

theorem P6_nots {o : Span} {os : List Span} {e : T} (hl : 7 ≤ e.level) (h : P 7 e) : P 6 (.nots o os e) := by
  intro f ps rest d hf ha hn hs
  simp only [fuel, nest] at hf hn
  obtain ⟨f, rfl⟩ : ∃ f', f = f' + 1 := ⟨f - 1, by omega⟩
  have ha' : At ps (((o :: os).map fun s => (Tok.not, s)) ++ (render e ++ rest)) d := by
    simpa [render] using ha
  obtain ⟨ps1, e1, a1⟩ := pPeek_at ha'
  obtain ⟨tk, sp, r, hr, _, hne⟩ := render_head e
  obtain ⟨ps2, e2, a2⟩ := opRun_spec .not (o :: os) f [] ps1 (render e ++ rest) d (by simp; omega) a1
    (by simp; omega) (by intro sp' r' h; simp [hr] at h; exact (hne hl).1 h.1.1)
  obtain ⟨ps3, e3, a3⟩ := h f ps2 rest d (by omega) a2 (by simp at hn ⊢; omega) (stopAt_mono hs (by omega))
  refine ⟨ps3, ?_, a3⟩
  simp only [parseAt, embed] at e3 ⊢
  rw [parseUnary, e1]
  simp only [List.map_cons, List.cons_append, List.head?, e2, e3]
  simp [runSpan]

theorem P6_negs {o : Span} {os : List Span} {e : T} (hl : 7 ≤ e.level) (h : P 7 e)
    (hmin : ∀ n sp r, render e = (.intLit n, sp) :: r → n ≠ minIntMagnitude) : P 6 (.negs o os e) := by
  intro f ps rest d hf ha hn hs
  simp only [fuel, nest] at hf hn
  obtain ⟨f, rfl⟩ : ∃ f', f = f' + 1 := ⟨f - 1, by omega⟩
  have ha' : At ps (((o :: os).map fun s => (Tok.minus, s)) ++ (render e ++ rest)) d := by
    simpa [render] using ha
  obtain ⟨ps1, e1, a1⟩ := pPeek_at ha'
  obtain ⟨tk, sp, r, hr, _, hne⟩ := render_head e
  obtain ⟨ps2, e2, a2⟩ := opRun_spec .minus (o :: os) f [] ps1 (render e ++ rest) d (by simp; omega) a1
    (by simp; omega) (by intro sp' r' h; simp [hr] at h; exact (hne hl).2 h.1.1)
  obtain ⟨ps3, e3, a3⟩ := pPeek_at a2
  obtain ⟨ps4, e4, a4⟩ := h f ps3 rest d (by omega) a3 (by simp at hn ⊢; omega) (stopAt_mono hs (by omega))
  refine ⟨ps4, ?_, a4⟩
  simp only [parseAt, embed] at e4 ⊢
  rw [parseUnary, e1]
  simp only [List.map_cons, List.cons_append, List.head?, e2, e3, hr]
  have hm := fun n => hmin n sp r
  cases tk <;> simp_all [runSpan]

/-! ### Expression level -/

theorem enter_spec {α : Type} {ps : PS ListTok} {toks rest : TS} {d : Nat} {k : PS ListTok → PRes ListTok α}
    {a : α} (ha : At ps toks d) (hd : d + 1 ≤ maxNesting)
    (hk : ∀ ps0, At ps0 toks (d + 1) → ∃ ps', k ps0 = .ok (a, ps') ∧ At ps' rest (d + 1)) :
    ∃ ps', enter listSrc ps k = .ok (a, ps') ∧ At ps' rest d := by
  obtain ⟨ps1, e1, a1⟩ := hk _ (At_enter ha)
  refine ⟨{ ps1 with depth := ps1.depth - 1 }, ?_, At_leave a1⟩
  have : ¬ ps.depth ≥ maxNesting := by rw [At_depth ha]; omega
  simp only [enter, this, if_false, e1]

theorem exprUng_plain {t : T} (h : P 1 t) {f : Nat} {ps : PS ListTok} {rest : TS} {d : Nat}
    (hf : fuel t + 14 ≤ f) (ha : At ps (render t ++ rest) d) (hn : d + nest t ≤ maxNesting)
    (hs : stopAt 0 rest) :
    ∃ ps', parseExprUng listSrc (f + 1) ps = .ok (embed t, ps') ∧ At ps' rest d := by
  obtain ⟨tk, sp, r, hr, hst, _⟩ := render_head t
  obtain ⟨ps1, e1, a1⟩ := pPeek_at ha
  obtain ⟨ps2, e2, a2⟩ := h f ps1 rest d (by omega) a1 (by simpa using hn) (stopAt_mono hs (by omega))
  obtain ⟨ps3, e3, a3⟩ := pPeek_at a2
  refine ⟨ps3, ?_, a3⟩
  simp only [parseAt] at e2
  rw [parseExprUng, e1]
  simp only [hr, List.cons_append, List.head?]
  have hq : ∀ qsp, rest.head? ≠ some (Tok.question, qsp) := by
    intro qsp hh
    cases rest with
    | nil => simp at hh
    | cons x r => simp at hh; subst hh; simp [stopAt, bindOf] at hs
  cases tk <;> simp only [startTok] at hst <;> try contradiction
  all_goals
    simp only [e2, e3]

theorem P0_of_P1 {t : T} (h : P 1 t) : P 0 t := by
  intro f ps rest d hf ha hn hs
  obtain ⟨f, rfl⟩ : ∃ f', f = f' + 2 := ⟨f - 2, by omega⟩
  simp only [parseAt]
  rw [parseExpr]
  exact enter_spec ha (by simp at hn; omega)
    (fun ps0 a0 => exprUng_plain h (by omega) a0 (by simp at hn; omega) hs)

theorem exprUng_tern {q c : Span} {a b e : T} (h1 : P 1 a) (h2 : P 1 b) (h3 : P 0 e)
    {f : Nat} {ps : PS ListTok} {rest : TS} {d : Nat}
    (hf : fuel (.tern q c a b e) + 14 ≤ f) (ha : At ps (render (.tern q c a b e) ++ rest) d)
    (hn : d + nest (.tern q c a b e) ≤ maxNesting) (hs : stopAt 0 rest) :
    ∃ ps', parseExprUng listSrc (f + 1) ps = .ok (embed (.tern q c a b e), ps') ∧ At ps' rest d := by
  simp only [fuel, nest] at hf hn
  obtain ⟨tk, sp, r, hr, hst, _⟩ := render_head a
  have ha' : At ps (render a ++ ((Tok.question, q) :: (render b ++ ((Tok.colon, c) :: (render e ++ rest))))) d := by
    simpa [render] using ha
  obtain ⟨ps1, e1, a1⟩ := pPeek_at ha'
  obtain ⟨ps2, e2, a2⟩ := h1 f ps1 _ d (by omega) a1 (by simp; omega) (by simp [stopAt, bindOf])
  obtain ⟨ps3, e3, a3⟩ := pPeek_at a2
  obtain ⟨ps4, e4, a4⟩ := pNext_at a3
  obtain ⟨ps5, e5, a5⟩ := h2 f ps4 _ d (by omega) a4 (by simp; omega) (by simp [stopAt, bindOf])
  obtain ⟨ps6, e6, a6⟩ := pNext_at a5
  obtain ⟨ps7, e7, a7⟩ := h3 f ps6 rest d (by omega) a6 (by simp; omega) hs
  refine ⟨ps7, ?_, a7⟩
  simp only [parseAt] at e2 e5 e7
  rw [parseExprUng, e1]
  simp only [hr, List.cons_append, List.head?]
  cases tk <;> simp only [startTok] at hst <;> try contradiction
  all_goals
    simp only [e2, e3, List.head?, e4, e5, e6, e7, embed]

/-! ### The induction over derivation trees -/

theorem P_down {t : T} {k : Nat} (hk : k < t.level) (h : P (k + 1) t) : P k t := by
  have h7 := level_le t
  have : k = 0 ∨ (1 ≤ k ∧ k ≤ 5) ∨ k = 6 := by omega
  rcases this with rfl | hk' | rfl
  · exact P0_of_P1 h
  · exact P_of_R hk' (R_of_P hk' hk h)
  · exact P6_of_P7 (by omega) h

theorem P_all {t : T} (h : P t.level t) : ∀ k, k ≤ t.level → P k t := by
  intro k hk
  obtain ⟨n, hn⟩ : ∃ n, t.level = k + n := ⟨t.level - k, by omega⟩
  induction n generalizing k with
  | zero => have : k = t.level := by omega
            rw [this]; exact h
  | succ n ih => exact P_down (by omega) (ih (k + 1) (by omega) (by omega))

theorem all_of_top {t : T} (hP : P t.level t) (hR : 1 ≤ t.level ∧ t.level ≤ 5 → R t.level t) :
    (∀ k, k ≤ t.level → P k t) ∧ (∀ k, 1 ≤ k ∧ k ≤ 5 → k ≤ t.level → R k t) := by
  refine ⟨P_all hP, fun k hk hl => ?_⟩
  by_cases hkl : k = t.level
  · subst hkl; exact hR hk
  · exact R_of_P hk (by omega) (P_all hP (k + 1) (by omega))

theorem min_ok {e : T} (hl : 7 ≤ e.level) (hw : e.Wf) :
    ∀ n sp r, render e = (.intLit n, sp) :: r → n ≠ minIntMagnitude := by
  intro n sp r h
  cases e <;> simp [render, T.level] at h hl
  case int sp' n' =>
    simp only [T.Wf, i64Max] at hw
    obtain ⟨⟨rfl, _⟩, _⟩ := h
    simp only [minIntMagnitude]; omega
  case bin op _ _ _ => cases op <;> simp [BinOp.level] at hl

/-- Every derivation tree is parsed back, at every grammar level its root admits. -/
theorem main (t : T) (hw : t.Wf) :
    (∀ k, k ≤ t.level → P k t) ∧ (∀ k, 1 ≤ k ∧ k ≤ 5 → k ≤ t.level → R k t) := by
  induction t with
  | ident sp n => exact all_of_top (P7_ident sp n) (by simp [T.level])
  | int sp n => exact all_of_top (P7_int sp n hw) (by simp [T.level])
  | paren l r e ih => exact all_of_top (P7_paren ((ih hw).1 0 (Nat.zero_le _))) (by simp [T.level])
  | nots o os e ih =>
    obtain ⟨hl, hw⟩ := hw
    exact all_of_top (P6_nots hl ((ih hw).1 7 hl)) (by simp [T.level])
  | negs o os e ih =>
    obtain ⟨hl, hw⟩ := hw
    exact all_of_top (P6_negs hl ((ih hw).1 7 hl) (min_ok hl hw)) (by simp [T.level])
  | bin op osp l r ihl ihr =>
    obtain ⟨hll, hlr, hwl, hwr⟩ := hw
    have hk : 1 ≤ op.level ∧ op.level ≤ 5 := by cases op <;> simp [BinOp.level]
    have hR : R op.level (.bin op osp l r) :=
      R_bin ((ihl hwl).2 _ hk hll) ((ihr hwr).1 _ hlr)
    exact all_of_top (P_of_R hk hR) (fun _ => hR)
  | tern q c a b e iha ihb ihe =>
    obtain ⟨hla, hlb, hwa, hwb, hwe⟩ := hw
    refine all_of_top ?_ (by simp [T.level])
    intro f ps rest d hf ha hn hs
    obtain ⟨f, rfl⟩ : ∃ f', f = f' + 2 := ⟨f - 2, by simp [T.level] at hf; omega⟩
    simp only [T.level, parseAt]
    rw [parseExpr]
    simp only [T.level] at hf
    exact enter_spec ha (by simp [T.level] at hn; omega)
      (fun ps0 a0 => exprUng_tern ((iha hwa).1 1 hla) ((ihb hwb).1 1 hlb) ((ihe hwe).1 0 (Nat.zero_le _))
        (by omega) a0 (by simp [T.level] at hn; omega) hs)

end C02
end Rscel
