import RscelModel.Lemmas.ParseSpec
namespace Rscel
namespace C02

theorem P6_nots {o : Span} {os : List Span} {e : T} (hw : e.Wf) (hl : 7 ≤ e.level) (h : P 7 e) :
    P 6 (.nots o os e) := by
  intro f ps rest d hf ha hn hs
  simp only [fuel, nest] at hf hn
  obtain ⟨f, rfl⟩ : ∃ f', f = f' + 1 := ⟨f - 1, by omega⟩
  have ha' : At ps (((o :: os).map fun s => (Tok.not, s)) ++ (render e ++ rest)) d := by
    simpa [render] using ha
  obtain ⟨ps1, e1, a1⟩ := pPeek_at ha'
  obtain ⟨tk, sp, r, hr, _, hne⟩ := render_head e
  obtain ⟨ps2, e2, a2⟩ := opRun_spec .not (o :: os) f [] ps1 (render e ++ rest) d (by simp; omega) a1
    (by simp; omega) (by intro sp' r' h; simp [hr] at h; exact (hne hw hl).1 h.1.1)
  obtain ⟨ps3, e3, a3⟩ := h f ps2 rest d (by omega) a2 (by simp at hn ⊢; omega) (stopAt_mono hs (by omega))
  refine ⟨ps3, ?_, a3⟩
  simp only [parseAt, embed] at e3 ⊢
  rw [parseUnary, e1]
  simp only [List.map_cons, List.cons_append, List.head?, e2, e3]
  simp [runSpan]

theorem P6_negs {o : Span} {os : List Span} {e : T} (hw : e.Wf) (hl : 7 ≤ e.level) (h : P 7 e)
    (hmin : ∀ n sp r, render e = (.intLit n, sp) :: r → n ≠ minIntMagnitude) : P 6 (.negs o os e) := by
  intro f ps rest d hf ha hn hs
  simp only [fuel, nest] at hf hn
  obtain ⟨f, rfl⟩ : ∃ f', f = f' + 1 := ⟨f - 1, by omega⟩
  have ha' : At ps (((o :: os).map fun s => (Tok.minus, s)) ++ (render e ++ rest)) d := by
    simpa [render] using ha
  obtain ⟨ps1, e1, a1⟩ := pPeek_at ha'
  obtain ⟨tk, sp, r, hr, _, hne⟩ := render_head e
  obtain ⟨ps2, e2, a2⟩ := opRun_spec .minus (o :: os) f [] ps1 (render e ++ rest) d (by simp; omega) a1
    (by simp; omega) (by intro sp' r' h; simp [hr] at h; exact (hne hw hl).2 h.1.1)
  obtain ⟨ps3, e3, a3⟩ := pPeek_at a2
  obtain ⟨ps4, e4, a4⟩ := h f ps3 rest d (by omega) a3 (by simp at hn ⊢; omega) (stopAt_mono hs (by omega))
  refine ⟨ps4, ?_, a4⟩
  simp only [parseAt, embed] at e4 ⊢
  rw [parseUnary, e1]
  simp only [List.map_cons, List.cons_append, List.head?, e2, e3, hr]
  have hm := fun n => hmin n sp r
  cases tk <;> simp_all [runSpan]

/-! ### Expression level -/

theorem enter_spec {α : Type} {ps : PS ListTok} {toks rest : TS} {d : Nat} {k : PS ListTok → PRes ListTok α}
    {a : α} (ha : At ps toks d) (hd : d + 1 ≤ maxNesting)
    (hk : ∀ ps0, At ps0 toks (d + 1) → ∃ ps', k ps0 = .ok (a, ps') ∧ At ps' rest (d + 1)) :
    ∃ ps', enter listSrc ps k = .ok (a, ps') ∧ At ps' rest d := by
  obtain ⟨ps1, e1, a1⟩ := hk _ (At_enter ha)
  refine ⟨{ ps1 with depth := ps1.depth - 1 }, ?_, At_leave a1⟩
  have : ¬ ps.depth ≥ maxNesting := by rw [At_depth ha]; omega
  simp only [enter, this, if_false, e1]

theorem exprUng_plain {t : T} (h : P 1 t) {f : Nat} {ps : PS ListTok} {rest : TS} {d : Nat}
    (hf : fuel t + 14 ≤ f) (ha : At ps (render t ++ rest) d) (hn : d + nest t ≤ maxNesting)
    (hs : stopAt 0 rest) :
    ∃ ps', parseExprUng listSrc (f + 1) ps = .ok (embed t, ps') ∧ At ps' rest d := by
  obtain ⟨tk, sp, r, hr, hst, _⟩ := render_head t
  obtain ⟨ps1, e1, a1⟩ := pPeek_at ha
  obtain ⟨ps2, e2, a2⟩ := h f ps1 rest d (by omega) a1 (by simpa using hn) (stopAt_mono hs (by omega))
  obtain ⟨ps3, e3, a3⟩ := pPeek_at a2
  refine ⟨ps3, ?_, a3⟩
  simp only [parseAt] at e2
  rw [parseExprUng, e1]
  simp only [hr, List.cons_append, List.head?]
  have hq : ∀ qsp, rest.head? ≠ some (Tok.question, qsp) := by
    intro qsp hh
    cases rest with
    | nil => simp at hh
    | cons x r => simp at hh; subst hh; simp [stopAt, bindOf] at hs
  cases tk <;> simp only [startTok] at hst <;> try contradiction
  all_goals
    simp only [e2, e3]

theorem P0_of_P1 {t : T} (h : P 1 t) : P 0 t := by
  intro f ps rest d hf ha hn hs
  obtain ⟨f, rfl⟩ : ∃ f', f = f' + 2 := ⟨f - 2, by omega⟩
  simp only [parseAt]
  rw [parseExpr]
  exact enter_spec ha (by simp at hn; omega)
    (fun ps0 a0 => exprUng_plain h (by omega) a0 (by simp at hn; omega) hs)

theorem exprUng_tern {q c : Span} {a b e : T} (h1 : P 1 a) (h2 : P 1 b) (h3 : P 0 e)
    {f : Nat} {ps : PS ListTok} {rest : TS} {d : Nat}
    (hf : fuel (.tern q c a b e) + 14 ≤ f) (ha : At ps (render (.tern q c a b e) ++ rest) d)
    (hn : d + nest (.tern q c a b e) ≤ maxNesting) (hs : stopAt 0 rest) :
    ∃ ps', parseExprUng listSrc (f + 1) ps = .ok (embed (.tern q c a b e), ps') ∧ At ps' rest d := by
  simp only [fuel, nest] at hf hn
  obtain ⟨tk, sp, r, hr, hst, _⟩ := render_head a
  have ha' : At ps (render a ++ ((Tok.question, q) :: (render b ++ ((Tok.colon, c) :: (render e ++ rest))))) d := by
    simpa [render] using ha
  obtain ⟨ps1, e1, a1⟩ := pPeek_at ha'
  obtain ⟨ps2, e2, a2⟩ := h1 f ps1 _ d (by omega) a1 (by simp; omega) (by simp [stopAt, bindOf])
  obtain ⟨ps3, e3, a3⟩ := pPeek_at a2
  obtain ⟨ps4, e4, a4⟩ := pNext_at a3
  obtain ⟨ps5, e5, a5⟩ := h2 f ps4 _ d (by omega) a4 (by simp; omega) (by simp [stopAt, bindOf])
  obtain ⟨ps6, e6, a6⟩ := pNext_at a5
  obtain ⟨ps7, e7, a7⟩ := h3 f ps6 rest d (by omega) a6 (by simp; omega) hs
  refine ⟨ps7, ?_, a7⟩
  simp only [parseAt] at e2 e5 e7
  rw [parseExprUng, e1]
  simp only [hr, List.cons_append, List.head?]
  cases tk <;> simp only [startTok] at hst <;> try contradiction
  all_goals
    simp only [e2, e3, List.head?, e4, e5, e6, e7, embed]

/-! ### The induction over derivation trees -/

theorem P_down {t : T} {k : Nat} (hw : t.Wf) (hk : k < t.level) (h : P (k + 1) t) : P k t := by
  have h7 := level_le t
  have : k = 0 ∨ (1 ≤ k ∧ k ≤ 5) ∨ k = 6 := by omega
  rcases this with rfl | hk' | rfl
  · exact P0_of_P1 h
  · exact P_of_R hk' (R_of_P hk' hk h)
  · exact P6_of_P7 hw (by omega) h

theorem P_all {t : T} (hw : t.Wf) (h : P t.level t) : ∀ k, k ≤ t.level → P k t := by
  intro k hk
  obtain ⟨n, hn⟩ : ∃ n, t.level = k + n := ⟨t.level - k, by omega⟩
  induction n generalizing k with
  | zero => have : k = t.level := by omega
            rw [this]; exact h
  | succ n ih => exact P_down hw (by omega) (ih (k + 1) (by omega) (by omega))

/-- What the induction carries for a tree: it is parsed back at every level its root admits, reaches
    the loop of every binary level, and — for a member — the postfix loop. -/
def Good (t : T) : Prop :=
  (∀ k, k ≤ t.level → P k t) ∧ (∀ k, 1 ≤ k ∧ k ≤ 5 → k ≤ t.level → R k t) ∧ (7 ≤ t.level → M t)

theorem all_of_top {t : T} (hw : t.Wf) (hP : P t.level t) (hR : 1 ≤ t.level ∧ t.level ≤ 5 → R t.level t)
    (hM : 7 ≤ t.level → M t) : Good t := by
  refine ⟨P_all hw hP, fun k hk hl => ?_, hM⟩
  by_cases hkl : k = t.level
  · subst hkl; exact hR hk
  · exact R_of_P hk (by omega) (P_all hw hP (k + 1) (by omega))

theorem good_member {t : T} (hw : t.Wf) (hl : t.level = 7) (hM : M t) : Good t :=
  all_of_top hw (by rw [hl]; exact P7_of_M hM) (by omega) (fun _ => hM)

theorem head_of_append {e : T} {tail : TS} {x : Tok × Span} {r : TS} (h : render e ++ tail = x :: r) :
    ∃ r', render e = x :: r' := by
  obtain ⟨tk, sp, r', hr, _, _⟩ := render_head e
  rw [hr] at h ⊢
  simp only [List.cons_append, List.cons.injEq] at h
  exact ⟨r', by rw [h.1]⟩

theorem min_ok (e : T) (hw : e.Wf) (hl : 7 ≤ e.level) :
    ∀ n sp r, render e = (.intLit n, sp) :: r → n ≠ minIntMagnitude := by
  induction e with
  | ident => intro n sp r h; simp [render] at h
  | int sp' n' =>
    intro n sp r h
    simp only [T.Wf, i64Max] at hw
    simp only [render, List.cons.injEq, Prod.mk.injEq, Tok.intLit.injEq] at h
    obtain ⟨⟨rfl, _⟩, _⟩ := h
    simp only [minIntMagnitude]; omega
  | paren => intro n sp r h; simp [render] at h
  | nots => simp [T.level] at hl
  | negs => simp [T.level] at hl
  | bin op _ _ _ => cases op <;> simp [T.level, BinOp.level] at hl
  | tern => simp [T.level] at hl
  | access e _ _ _ ih =>
    intro n sp r h
    obtain ⟨r', h'⟩ := head_of_append (by simpa [render] using h)
    exact ih hw.2 hw.1 n sp r' h'
  | index e _ _ _ ih _ =>
    intro n sp r h
    obtain ⟨r', h'⟩ := head_of_append (by simpa [render] using h)
    exact ih hw.2.1 hw.1 n sp r' h'
  | call0 e _ _ ih =>
    intro n sp r h
    obtain ⟨r', h'⟩ := head_of_append (by simpa [render] using h)
    exact ih hw.2 hw.1 n sp r' h'
  | call1 e _ _ _ ih _ =>
    intro n sp r h
    obtain ⟨r', h'⟩ := head_of_append (by simpa [render] using h)
    exact ih hw.2.1 hw.1 n sp r' h'
  | call2 e _ _ _ _ _ ih _ _ =>
    intro n sp r h
    obtain ⟨r', h'⟩ := head_of_append (by simpa [render] using h)
    exact ih hw.2.1 hw.1 n sp r' h'

/-- Every derivation tree is parsed back, at every grammar level its root admits. -/
theorem main (t : T) (hw : t.Wf) : Good t := by
  induction t with
  | ident sp n => exact good_member hw rfl (M_ident sp n)
  | int sp n => exact good_member hw rfl (M_int sp n hw)
  | paren l r e ih => exact good_member hw rfl (M_paren ((ih hw).1 0 (Nat.zero_le _)))
  | nots o os e ih =>
    obtain ⟨hl, hwe⟩ := hw
    exact all_of_top ⟨hl, hwe⟩ (P6_nots hwe hl ((ih hwe).1 7 hl)) (by simp [T.level]) (by simp [T.level])
  | negs o os e ih =>
    obtain ⟨hl, hwe⟩ := hw
    exact all_of_top ⟨hl, hwe⟩ (P6_negs hwe hl ((ih hwe).1 7 hl) (min_ok e hwe hl)) (by simp [T.level])
      (by simp [T.level])
  | bin op osp l r ihl ihr =>
    have hw' := hw
    obtain ⟨hll, hlr, hwl, hwr⟩ := hw
    have hk : 1 ≤ op.level ∧ op.level ≤ 5 := by cases op <;> simp [BinOp.level]
    have hR : R op.level (.bin op osp l r) :=
      R_bin ((ihl hwl).2.1 _ hk hll) ((ihr hwr).1 _ hlr)
    exact all_of_top hw' (P_of_R hk hR) (fun _ => hR) (by simp only [T.level]; omega)
  | tern q c a b e iha ihb ihe =>
    have hw' := hw
    obtain ⟨hla, hlb, hwa, hwb, hwe⟩ := hw
    refine all_of_top hw' ?_ (by simp [T.level]) (by simp [T.level])
    intro f ps rest d hf ha hn hs
    obtain ⟨f, rfl⟩ : ∃ f', f = f' + 2 := ⟨f - 2, by simp [T.level] at hf; omega⟩
    simp only [T.level, parseAt]
    rw [parseExpr]
    simp only [T.level] at hf
    exact enter_spec ha (by simp [T.level] at hn; omega)
      (fun ps0 a0 => exprUng_tern ((iha hwa).1 1 hla) ((ihb hwb).1 1 hlb) ((ihe hwe).1 0 (Nat.zero_le _))
        (by omega) a0 (by simp [T.level] at hn; omega) hs)
  | access e d i n ih => exact good_member hw rfl (M_access ((ih hw.2).2.2 hw.1))
  | index e l r i ihe ihi =>
    exact good_member hw rfl (M_index ((ihe hw.2.1).2.2 hw.1) ((ihi hw.2.2).1 0 (Nat.zero_le _)))
  | call0 e l r ih => exact good_member hw rfl (M_call0 ((ih hw.2).2.2 hw.1))
  | call1 e l r a ihe iha =>
    exact good_member hw rfl (M_call1 ((ihe hw.2.1).2.2 hw.1) ((iha hw.2.2).1 0 (Nat.zero_le _)))
  | call2 e l r a c b ihe iha ihb =>
    exact good_member hw rfl (M_call2 ((ihe hw.2.1).2.2 hw.1) ((iha hw.2.2.1).1 0 (Nat.zero_le _))
      ((ihb hw.2.2.2).1 0 (Nat.zero_le _)))

end C02
end Rscel
