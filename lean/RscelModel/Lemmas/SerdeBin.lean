import RscelModel.Lemmas.SerdePrim
/-
bincode round trip of values, instructions and programs (`decBin ∘ encBin = msTrunc`), by mutual
structural induction over `CVal` / `CInstr` and the lists nested in them.
-/
namespace Rscel.Serde
open Rscel

theorem depthV_pos (v : CVal) : 0 < depthV v := by cases v <;> simp [depthV]
theorem depthI_pos (i : CInstr) : 0 < depthI i := by cases i <;> simp [depthI]

theorem tsMs_roundtrip (n : Int) (h : tsMsOk (tsMs n) = true) : inI64 (tsMs n) = true := by
  simp only [tsMsOk, Bool.and_eq_true, decide_eq_true_eq] at h
  rw [inI64_iff]; omega

theorem durMs_roundtrip (n : Int) (h : durMsOk (durMs n) = true) : inI64 (durMs n) = true := by
  simp only [durMsOk, Bool.and_eq_true, decide_eq_true_eq] at h
  rw [inI64_iff]; omega

mutual
theorem decVal_enc : ∀ (v : CVal) (fuel : Nat) (rest : List UInt8), fitsV v = true → depthV v ≤ fuel →
    decVal fuel (encVal v ++ rest) = some (msV v, rest)
  | .int i, fuel, rest, h, hd => by
    obtain ⟨f, rfl⟩ : ∃ f, fuel = f + 1 := ⟨fuel - 1, by simp [depthV] at hd; omega⟩
    simp only [fitsV] at h
    simp [encVal, decVal, msV, rd_tagV, deTag_value, rdI64_i64le i h]
  | .uint n, fuel, rest, h, hd => by
    obtain ⟨f, rfl⟩ : ∃ f, fuel = f + 1 := ⟨fuel - 1, by simp [depthV] at hd; omega⟩
    simp only [fitsV, inU64_iff] at h
    have hn : n < 18446744073709551616 := by omega
    simp [encVal, decVal, msV, rd_tagV, deTag_value, rdU64_u64le n hn]
  | .float b, fuel, rest, h, hd => by
    obtain ⟨f, rfl⟩ : ∃ f, fuel = f + 1 := ⟨fuel - 1, by simp [depthV] at hd; omega⟩
    have hn : b.toNat < 18446744073709551616 := b.toNat_lt
    simp [encVal, decVal, msV, rd_tagV, deTag_value, rdU64_u64le _ hn]
  | .bool b, fuel, rest, h, hd => by
    obtain ⟨f, rfl⟩ : ∃ f, fuel = f + 1 := ⟨fuel - 1, by simp [depthV] at hd; omega⟩
    simp [encVal, decVal, msV, rd_tagV, deTag_value, rdBool_enc]
  | .str s, fuel, rest, h, hd => by
    obtain ⟨f, rfl⟩ : ∃ f, fuel = f + 1 := ⟨fuel - 1, by simp [depthV] at hd; omega⟩
    simp only [fitsV] at h
    simp [encVal, decVal, msV, rd_tagV, deTag_value, rdStr_encStr s h]
  | .ident s, fuel, rest, h, hd => by
    obtain ⟨f, rfl⟩ : ∃ f, fuel = f + 1 := ⟨fuel - 1, by simp [depthV] at hd; omega⟩
    simp only [fitsV] at h
    simp [encVal, decVal, msV, rd_tagV, deTag_value, rdStr_encStr s h]
  | .type s, fuel, rest, h, hd => by
    obtain ⟨f, rfl⟩ : ∃ f, fuel = f + 1 := ⟨fuel - 1, by simp [depthV] at hd; omega⟩
    simp only [fitsV] at h
    simp [encVal, decVal, msV, rd_tagV, deTag_value, rdStr_encStr s h]
  | .bytes b, fuel, rest, h, hd => by
    obtain ⟨f, rfl⟩ : ∃ f, fuel = f + 1 := ⟨fuel - 1, by simp [depthV] at hd; omega⟩
    simp only [fitsV, fitsLen, decide_eq_true_eq] at h
    simp [encVal, decVal, msV, rd_tagV, deTag_value, rdU64_u64le _ h, rdBytes_append]
  | .null, fuel, rest, h, hd => by
    obtain ⟨f, rfl⟩ : ∃ f, fuel = f + 1 := ⟨fuel - 1, by simp [depthV] at hd; omega⟩
    simp [encVal, decVal, msV, rd_tagV, deTag_value]
  | .ts n, fuel, rest, h, hd => by
    obtain ⟨f, rfl⟩ : ∃ f, fuel = f + 1 := ⟨fuel - 1, by simp [depthV] at hd; omega⟩
    simp only [fitsV] at h
    simp [encVal, decVal, msV, rd_tagV, deTag_value, rdI64_i64le _ (tsMs_roundtrip n h), h]
  | .dur n, fuel, rest, h, hd => by
    obtain ⟨f, rfl⟩ : ∃ f, fuel = f + 1 := ⟨fuel - 1, by simp [depthV] at hd; omega⟩
    simp only [fitsV] at h
    simp [encVal, decVal, msV, rd_tagV, deTag_value, rdI64_i64le _ (durMs_roundtrip n h), h]
  | .err e, fuel, rest, h, hd => by
    obtain ⟨f, rfl⟩ : ∃ f, fuel = f + 1 := ⟨fuel - 1, by simp [depthV] at hd; omega⟩
    simp only [fitsV] at h
    simp [encVal, decVal, msV, rd_tagV, deTag_value, rdErr_enc e h]
  | .list l, fuel, rest, h, hd => by
    obtain ⟨f, rfl⟩ : ∃ f, fuel = f + 1 := ⟨fuel - 1, by simp [depthV] at hd; omega⟩
    simp only [fitsV, Bool.and_eq_true, fitsLen, decide_eq_true_eq] at h
    simp only [depthV] at hd
    simp [encVal, decVal, msV, rd_tagV, deTag_value, rdU64_u64le _ h.1,
      decVals_enc l f rest h.2 (by omega)]
  | .map m, fuel, rest, h, hd => by
    obtain ⟨f, rfl⟩ : ∃ f, fuel = f + 1 := ⟨fuel - 1, by simp [depthV] at hd; omega⟩
    simp only [fitsV, Bool.and_eq_true, fitsLen, decide_eq_true_eq] at h
    simp only [depthV] at hd
    simp [encVal, decVal, msV, rd_tagV, deTag_value, rdU64_u64le _ h.1,
      decEntries_enc m f rest h.2 (by omega)]
  | .code c, fuel, rest, h, hd => by
    obtain ⟨f, rfl⟩ : ∃ f, fuel = f + 1 := ⟨fuel - 1, by simp [depthV] at hd; omega⟩
    simp only [fitsV, Bool.and_eq_true, fitsLen, decide_eq_true_eq] at h
    simp only [depthV] at hd
    simp [encVal, decVal, msV, rd_tagV, deTag_value, rdU64_u64le _ h.1,
      decInstrs_enc c f rest h.2 (by omega)]
theorem decVals_enc : ∀ (l : List CVal) (fuel : Nat) (rest : List UInt8), fitsVs l = true → depthVs l ≤ fuel →
    decSeq (decVal fuel) l.length (encVals l ++ rest) = some (msVs l, rest)
  | [], _, _, _, _ => by simp [decSeq, encVals, msVs]
  | v :: vs, fuel, rest, h, hd => by
    simp only [fitsVs, Bool.and_eq_true] at h
    simp only [depthVs] at hd
    simp only [List.length_cons, decSeq, encVals, msVs, List.append_assoc,
      decVal_enc v fuel _ h.1 (by omega), decVals_enc vs fuel rest h.2 (by omega)]
theorem decEntries_enc : ∀ (m : List (Str × CVal)) (fuel : Nat) (rest : List UInt8), fitsEs m = true →
    depthEs m ≤ fuel →
    decSeq (rdEntry (decVal fuel)) m.length (encEntries m ++ rest) = some (msEs m, rest)
  | [], _, _, _, _ => by simp [decSeq, encEntries, msEs]
  | (k, v) :: es, fuel, rest, h, hd => by
    simp only [fitsEs, Bool.and_eq_true] at h
    simp only [depthEs] at hd
    simp only [List.length_cons, decSeq, rdEntry, encEntries, msEs, List.append_assoc,
      rdStr_encStr k h.1.1, decVal_enc v fuel _ h.1.2 (by omega), decEntries_enc es fuel rest h.2 (by omega)]
theorem decInstr_enc : ∀ (i : CInstr) (fuel : Nat) (rest : List UInt8), fitsI i = true → depthI i ≤ fuel →
    decInstr fuel (encInstr i ++ rest) = some (msI i, rest)
  | .push v, fuel, rest, h, hd => by
    obtain ⟨f, rfl⟩ : ∃ f, fuel = f + 1 := ⟨fuel - 1, by simp [depthI] at hd; omega⟩
    simp only [fitsI] at h
    simp only [depthI] at hd
    simp [encInstr, decInstr, msI, rd_tagI, deTag_instr, decVal_enc v f rest h (by omega)]
  | .jmp d, fuel, rest, h, hd => by
    obtain ⟨f, rfl⟩ : ∃ f, fuel = f + 1 := ⟨fuel - 1, by simp [depthI] at hd; omega⟩
    simp only [fitsI] at h
    simp [encInstr, decInstr, msI, rd_tagI, deTag_instr, rdI32_i32le d h]
  | .jmpCond w d, fuel, rest, h, hd => by
    obtain ⟨f, rfl⟩ : ∃ f, fuel = f + 1 := ⟨fuel - 1, by simp [depthI] at hd; omega⟩
    simp only [fitsI] at h
    simp [encInstr, decInstr, msI, rd_tagI, deTag_instr, rd_tagW, deTag_when, rdI32_i32le d h]
  | .mkList n, fuel, rest, h, hd => by
    obtain ⟨f, rfl⟩ : ∃ f, fuel = f + 1 := ⟨fuel - 1, by simp [depthI] at hd; omega⟩
    simp only [fitsI, fitsU32, decide_eq_true_eq] at h
    simp [encInstr, decInstr, msI, rd_tagI, deTag_instr, rdU32_u32le n h]
  | .mkDict n, fuel, rest, h, hd => by
    obtain ⟨f, rfl⟩ : ∃ f, fuel = f + 1 := ⟨fuel - 1, by simp [depthI] at hd; omega⟩
    simp only [fitsI, fitsU32, decide_eq_true_eq] at h
    simp [encInstr, decInstr, msI, rd_tagI, deTag_instr, rdU32_u32le n h]
  | .call n, fuel, rest, h, hd => by
    obtain ⟨f, rfl⟩ : ∃ f, fuel = f + 1 := ⟨fuel - 1, by simp [depthI] at hd; omega⟩
    simp only [fitsI, fitsU32, decide_eq_true_eq] at h
    simp [encInstr, decInstr, msI, rd_tagI, deTag_instr, rdU32_u32le n h]
  | .fmt n, fuel, rest, h, hd => by
    obtain ⟨f, rfl⟩ : ∃ f, fuel = f + 1 := ⟨fuel - 1, by simp [depthI] at hd; omega⟩
    simp only [fitsI, fitsU32, decide_eq_true_eq] at h
    simp [encInstr, decInstr, msI, rd_tagI, deTag_instr, rdU32_u32le n h]
  | .pop, fuel, rest, _, hd | .test, fuel, rest, _, hd | .dup, fuel, rest, _, hd | .or, fuel, rest, _, hd
  | .and, fuel, rest, _, hd | .not, fuel, rest, _, hd | .neg, fuel, rest, _, hd | .add, fuel, rest, _, hd
  | .sub, fuel, rest, _, hd | .mul, fuel, rest, _, hd | .div, fuel, rest, _, hd | .mod, fuel, rest, _, hd
  | .lt, fuel, rest, _, hd | .le, fuel, rest, _, hd | .eq, fuel, rest, _, hd | .ne, fuel, rest, _, hd
  | .ge, fuel, rest, _, hd | .gt, fuel, rest, _, hd | .in_, fuel, rest, _, hd | .index, fuel, rest, _, hd
  | .access, fuel, rest, _, hd => by
    obtain ⟨f, rfl⟩ : ∃ f, fuel = f + 1 := ⟨fuel - 1, by simp [depthI] at hd; omega⟩
    simp [encInstr, decInstr, msI, rd_tagI, deTag_instr]
theorem decInstrs_enc : ∀ (c : List CInstr) (fuel : Nat) (rest : List UInt8), fitsIs c = true → depthIs c ≤ fuel →
    decSeq (decInstr fuel) c.length (encInstrs c ++ rest) = some (msIs c, rest)
  | [], _, _, _, _ => by simp [decSeq, encInstrs, msIs]
  | i :: is, fuel, rest, h, hd => by
    simp only [fitsIs, Bool.and_eq_true] at h
    simp only [depthIs] at hd
    simp only [List.length_cons, decSeq, encInstrs, msIs, List.append_assoc,
      decInstr_enc i fuel _ h.1 (by omega), decInstrs_enc is fuel rest h.2 (by omega)]
end

end Rscel.Serde

namespace Rscel.Serde
open Rscel

theorem u32le_length (n : Nat) : (u32le n).length = 4 := by simp [u32le]

mutual
theorem depthV_le_len : ∀ v : CVal, depthV v ≤ (encVal v).length
  | .list l => by
    have := depthVs_le_len l
    simp only [depthV, encVal, tagV, List.length_append, u32le_length]; omega
  | .map m => by
    have := depthEs_le_len m
    simp only [depthV, encVal, tagV, List.length_append, u32le_length]; omega
  | .code c => by
    have := depthIs_le_len c
    simp only [depthV, encVal, tagV, List.length_append, u32le_length]; omega
  | .int _ | .uint _ | .float _ | .bool _ | .str _ | .bytes _ | .null | .ident _ | .type _ | .ts _ | .dur _
  | .err _ => by
    simp only [depthV, encVal, tagV, List.length_append, u32le_length]; omega
theorem depthVs_le_len : ∀ l : List CVal, depthVs l ≤ (encVals l).length
  | [] => by simp [depthVs]
  | v :: vs => by
    have := depthV_le_len v
    have := depthVs_le_len vs
    simp only [depthVs, encVals, List.length_append]; omega
theorem depthEs_le_len : ∀ m : List (Str × CVal), depthEs m ≤ (encEntries m).length
  | [] => by simp [depthEs]
  | (_, v) :: es => by
    have := depthV_le_len v
    have := depthEs_le_len es
    simp only [depthEs, encEntries, List.length_append]; omega
theorem depthI_le_len : ∀ i : CInstr, depthI i ≤ (encInstr i).length
  | .push v => by
    have := depthV_le_len v
    simp only [depthI, encInstr, tagI, List.length_append, u32le_length]; omega
  | .pop | .test | .dup | .or | .and | .not | .neg | .add | .sub | .mul | .div | .mod | .lt | .le | .eq | .ne
  | .ge | .gt | .in_ | .index | .access | .jmp _ | .jmpCond _ _ | .mkList _ | .mkDict _ | .call _ | .fmt _ => by
    simp only [depthI, encInstr, tagI, List.length_append, u32le_length]; omega
theorem depthIs_le_len : ∀ c : List CInstr, depthIs c ≤ (encInstrs c).length
  | [] => by simp [depthIs]
  | i :: is => by
    have := depthI_le_len i
    have := depthIs_le_len is
    simp only [depthIs, encInstrs, List.length_append]; omega
end

/-- With any sufficient fuel and any trailing bytes the program comes back, time constants at millisecond
    resolution. -/
theorem decProg_enc (p : CProg) (h : p.fits = true) (fuel : Nat) (hf : depthIs p.code ≤ fuel) (extra : List UInt8) :
    decProg fuel (encBin p ++ extra) = some (msTrunc p) := by
  simp only [CProg.fits, Bool.and_eq_true, fitsLen, decide_eq_true_eq] at h
  obtain ⟨⟨⟨⟨hs, hpl⟩, hp⟩, hcl⟩, hc⟩ := h
  simp only [decProg, encBin, List.append_assoc, rdOptStr_enc p.source hs, rdU64_u64le _ hpl,
    decSeq_strs p.params hp, rdU64_u64le _ hcl, decInstrs_enc p.code fuel extra hc hf, msTrunc]

end Rscel.Serde
