import RscelModel.Lemmas.SqlBuild
/-
No token of the text of a well-formed builder tree is a comment, a `;` or a stray character.
-/
set_option linter.unusedSimpArgs false
namespace Rscel.Sql
open Rscel

/-- a name, a number, a string literal, or an operator / bracket / comma — not a comment, not `;`, not a
    character without meaning -/
def cleanTok : STok → Bool
  | .word _ | .num _ | .str _ => true
  | .sym s => s != [';']
  | .comment | .bad _ => false

def AllClean (ts : List STok) : Prop := ts.all cleanTok = true

theorem AllClean.append {a b} (ha : AllClean a) (hb : AllClean b) : AllClean (a ++ b) := by
  simp only [AllClean, List.all_append, Bool.and_eq_true] at *; exact ⟨ha, hb⟩

theorem AllClean.cons {t ts} (ht : cleanTok t = true) (hb : AllClean ts) : AllClean (t :: ts) := by
  simp only [AllClean, List.all_cons, Bool.and_eq_true] at *; exact ⟨ht, hb⟩

theorem AllClean.nil : AllClean [] := rfl

theorem AllClean.wrap {ts} (b : Bool) (h : AllClean ts) : AllClean (wrapToks b ts) := by
  cases b
  · simpa [wrapToks] using h
  · simp only [wrapToks, if_true]
    exact AllClean.cons (by rfl) (h.append (AllClean.cons (by rfl) AllClean.nil))

theorem cleanTok_opTok (op : Str) (h : okOps.contains op = true) : cleanTok (opTok op) = true := by
  simp only [okOps, List.contains_cons, List.contains_nil, Bool.or_false, Bool.or_eq_true, beq_iff_eq] at h
  rcases h with rfl | rfl | rfl | rfl | rfl | rfl | rfl | rfl | rfl | rfl | rfl | rfl | rfl | rfl <;> decide

theorem AllClean.typeToks (ty : Str) : AllClean (typeToks ty) := by
  unfold Sql.typeToks; split <;> rfl

theorem AllClean.lit (l : Lit) : AllClean l.toks := by
  cases l with
  | bool b => cases b <;> rfl
  | _ => rfl

theorem AllClean.replicate (op : Char) (hop : (op == '!' || (op == '-' && b)) = true) (n : Nat) :
    AllClean (List.replicate n (.sym [op])) := by
  have hc : cleanTok (.sym [op]) = true := by
    simp only [Bool.or_eq_true, beq_iff_eq, Bool.and_eq_true] at hop
    rcases hop with rfl | ⟨rfl, _⟩ <;> decide
  induction n with
  | zero => rfl
  | succ n ih => exact AllClean.cons hc ih

mutual
theorem toks_clean : (d : Doc) → d.wf = true → AllClean d.toks
  | .ternary c t f, h => by
    simp only [Doc.wf, Bool.and_eq_true] at h
    simp only [Doc.toks]
    exact ((((((AllClean.cons (by rfl) (AllClean.cons (by rfl) AllClean.nil)).append (toks_clean c h.1.1)).append
      (by rfl)).append (toks_clean t h.1.2)).append (by rfl)).append (toks_clean f h.2)).append (by rfl)
  | .binary l op r, h => by
    simp only [Doc.wf, Bool.and_eq_true] at h
    simp only [Doc.toks]
    exact AllClean.cons (by rfl) ((((toks_clean l h.1.1).append
      (AllClean.cons (by rfl) (AllClean.cons (cleanTok_opTok op h.1.2) (AllClean.cons (by rfl) AllClean.nil)))).append
      (toks_clean r h.2)).append (by rfl))
  | .unary op n x, h => by
    simp only [Doc.wf, Bool.and_eq_true] at h
    simp only [Doc.toks]
    exact AllClean.cons (by rfl) (((AllClean.replicate op h.1 n).append ((toks_clean x h.2).wrap _)).append (by rfl))
  | .ident _, _ => by simp only [Doc.toks]; rfl
  | .lit l, _ => by simp only [Doc.toks]; exact AllClean.lit l
  | .parens x, h => by
    simp only [Doc.wf] at h
    simp only [Doc.toks]
    exact AllClean.cons (by rfl) ((toks_clean x h).append (by rfl))
  | .call f args, h => by
    simp only [Doc.wf, Bool.and_eq_true] at h
    simp only [Doc.toks]
    exact (((toks_clean f h.1).wrap _).append (AllClean.cons (by rfl) (toksList_clean args h.2))).append (by rfl)
  | .cast v ty, h => by
    simp only [Doc.wf, Bool.and_eq_true] at h
    simp only [Doc.toks]
    exact ((toks_clean v h.1).wrap _).append (AllClean.cons (by rfl) (AllClean.typeToks ty))
  | .access o f ext, h => by
    simp only [Doc.wf, Bool.and_eq_true] at h
    simp only [Doc.toks]
    exact AllClean.cons (by rfl) ((toks_clean o h.1).append (by cases ext <;> rfl))
  | .array es, h => by
    simp only [Doc.wf] at h
    simp only [Doc.toks]
    exact ((AllClean.cons (by rfl) (AllClean.cons (by rfl) AllClean.nil)).append (toksList_clean es h)).append (by rfl)
  | .index a i, h => by
    simp only [Doc.wf, Bool.and_eq_true] at h
    simp only [Doc.toks]
    exact AllClean.cons (by rfl) ((((toks_clean a h.1).wrap _).append (AllClean.cons (by rfl) (toks_clean i h.2))).append (by rfl))
theorem toksList_clean : (ds : List Doc) → wfList ds = true → AllClean (toksList ds)
  | [], _ => rfl
  | d :: ds, h => by
    simp only [wfList, Bool.and_eq_true] at h
    simp only [toksList]
    exact (toks_clean d h.1).append (toksTail_clean ds h.2)
theorem toksTail_clean : (ds : List Doc) → wfList ds = true → AllClean (toksTail ds)
  | [], _ => rfl
  | d :: ds, h => by
    simp only [wfList, Bool.and_eq_true] at h
    simp only [toksTail]
    exact AllClean.cons (by rfl) ((toks_clean d h.1).append (toksTail_clean ds h.2))
end

end Rscel.Sql
