import RscelModel.Lemmas.LexLit
/-
The number scanner on decimal / exponent doubles: which characters make up the lexeme
(`digits [. digits] [(e|E) [+|-] digits]`, or `. digits [exponent]`) and what `parseFloatText` reads from it.
-/
namespace Rscel
namespace LexFloat
open LexLit

/-- `e` / `E`, an optional sign, the exponent digits. -/
structure ExpPart where
  marker : Char
  sign : Option Char
  digits : List Char

def ExpPart.text (x : ExpPart) : List Char :=
  x.marker :: ((match x.sign with | some s => [s] | none => []) ++ x.digits)

def ExpPart.ok (x : ExpPart) : Prop :=
  (x.marker = 'e' ∨ x.marker = 'E') ∧ (∀ s, x.sign = some s → s = '+' ∨ s = '-') ∧
  x.digits ≠ [] ∧ ∀ c ∈ x.digits, isDigit c = true

def expText : Option ExpPart → List Char
  | none => []
  | some x => x.text

def expOk : Option ExpPart → Prop
  | none => True
  | some x => x.ok

theorem isDigit_not_sign (c : Char) (h : isDigit c = true) : c ≠ '+' ∧ c ≠ '-' ∧ c ≠ '.' ∧ c ≠ 'e' ∧ c ≠ 'E' := by
  rcases isDigit_cases c h with rfl|rfl|rfl|rfl|rfl|rfl|rfl|rfl|rfl|rfl <;> decide

/-- The `.` step (not yet a float): the dot is taken; a directly following sign would be taken too, so
    the next character is required not to be one. -/
theorem scan_dot (f : Nat) (cs : List Char) (loc : Loc) (st : NumState)
    (hb : st.base = 10) (hf : st.isFloat = false) (he : st.isExp = false)
    (hnext : ∀ c, cs.head? = some c → c ≠ '+' ∧ c ≠ '-') :
    scanNumber (f + 1) ⟨'.' :: cs, loc⟩ st =
      scanNumber f ⟨cs, loc.adv '.'⟩ { st with isFloat := true, isExp := false, working := '.' :: st.working } := by
  cases cs with
  | nil => simp [scanNumber, Scan.next, hb, hf, he, hexDigitVal, isDigit]
  | cons c cs =>
    obtain ⟨h1, h2⟩ := hnext c rfl
    simp [scanNumber, Scan.next, hb, hf, he, hexDigitVal, isDigit, h1, h2]

/-- The exponent marker and its optional sign. -/
theorem scan_exp_marker (f : Nat) (x : ExpPart) (hx : x.ok) (tail : List Char) (loc : Loc) (st : NumState)
    (hb : st.base = 10) (he : st.isExp = false) :
    scanNumber (f + 1) ⟨x.marker :: ((match x.sign with | some s => [s] | none => []) ++ (x.digits ++ tail)), loc⟩ st =
      scanNumber f ⟨x.digits ++ tail, advAll loc (x.marker :: (match x.sign with | some s => [s] | none => []))⟩
        { st with isFloat := true, isExp := true,
                  working := (match x.sign with | some s => [s] | none => []) ++ x.marker :: st.working } := by
  obtain ⟨hm, hs, hne, hd⟩ := hx
  cases hds : x.digits with
  | nil => exact absurd hds hne
  | cons d ds =>
    have hdd : isDigit d = true := hd d (by simp [hds])
    obtain ⟨n1, n2, _, _, _⟩ := isDigit_not_sign d hdd
    cases hsg : x.sign with
    | none =>
      rcases hm with hm | hm <;>
        simp [hm, scanNumber, Scan.next, hb, he, hexDigitVal, isDigit, n1, n2]
    | some s =>
      rcases hs s hsg with rfl | rfl <;> rcases hm with hm | hm <;>
        simp [hm, scanNumber, Scan.next, hb, he, hexDigitVal, isDigit]

/-- The scanner state after an (optional) exponent part. -/
def tailState : Option ExpPart → NumState → NumState
  | none, st => st
  | some x, st => { st with isFloat := true, isExp := true, working := x.text.reverse ++ st.working }

theorem scan_tail (ex : Option ExpPart) (hex : expOk ex) (rest : List Char) (loc : Loc) (st : NumState)
    (fuel : Nat) (hfuel : (expText ex ++ rest).length < fuel) (hb : st.base = 10) (he : st.isExp = false)
    (hstop : numStop 10 rest) :
    scanNumber fuel ⟨expText ex ++ rest, loc⟩ st = (⟨rest, advAll loc (expText ex)⟩, tailState ex st) := by
  cases ex with
  | none =>
    obtain ⟨k, rfl⟩ : ∃ k, fuel = k + 1 := ⟨fuel - 1, by omega⟩
    simp only [expText, List.nil_append, tailState, advAll_nil]
    exact scanNumber_stop k rest loc st (by rw [hb]; exact hstop)
  | some x =>
    obtain ⟨k, rfl⟩ : ∃ k, fuel = k + 1 := ⟨fuel - 1, by omega⟩
    have hx : x.ok := hex
    obtain ⟨hm, hs, hne, hd⟩ := hx
    simp only [expText, ExpPart.text, List.cons_append, List.append_assoc] at hfuel ⊢
    rw [scan_exp_marker k x hex rest loc st hb he]
    rw [scanNumber_digits x.digits k rest _ _ (by intro c hc; simp [numChar, hb, hd c hc])
      (by simp at hfuel; omega)]
    obtain ⟨j, hj⟩ : ∃ j, k - x.digits.length = j + 1 := ⟨k - x.digits.length - 1, by simp at hfuel; omega⟩
    rw [hj, scanNumber_stop j rest _ _ (by simp only [hb]; exact hstop)]
    cases hsg : x.sign <;> simp [tailState, ExpPart.text, hsg, advAll_append]

/-- `. digits` after the integer digits, or nothing. -/
def dotText : Option (List Char) → List Char
  | none => []
  | some f => '.' :: f

/-- The lexeme after its first character `c`: more integer digits, optional fraction, optional exponent. -/
def afterFirst (ds : List Char) (fp : Option (List Char)) (ex : Option ExpPart) : List Char :=
  ds ++ (dotText fp ++ expText ex)

/-- What may follow a double literal: nothing the number loop would draw in; directly after a trailing
    dot (`1.`) also no sign, which the scanner would take for an exponent sign. -/
def floatStop (fp : Option (List Char)) (ex : Option ExpPart) (rest : List Char) : Prop :=
  numStop 10 rest ∧ (fp = some [] → ex = none → ∀ c, rest.head? = some c → c ≠ '+' ∧ c ≠ '-')

theorem scan_float_digit (c : Char) (ds : List Char) (fp : Option (List Char)) (ex : Option ExpPart)
    (rest : List Char) (loc : Loc) (hds : ∀ x ∈ ds, isDigit x = true)
    (hfp : ∀ f, fp = some f → ∀ x ∈ f, isDigit x = true) (hex : expOk ex) (hstop : floatStop fp ex rest)
    (hfloat : fp.isSome = true ∨ ex.isSome = true) :
    ∃ st, scanNumber ((afterFirst ds fp ex ++ rest).length + 1) ⟨afterFirst ds fp ex ++ rest, loc⟩
        { working := [c], isFloat := false, isExp := false, isUnsigned := false, base := 10 } =
      (⟨rest, advAll loc (afterFirst ds fp ex)⟩, st) ∧
      st.working.reverse = c :: afterFirst ds fp ex ∧ st.isFloat = true ∧ st.isUnsigned = false ∧ st.base = 10 := by
  unfold afterFirst
  rw [List.append_assoc, scanNumber_digits ds _ _ loc _ (by intro x hx; simp [numChar, hds x hx]) (by simp; omega)]
  cases fp with
  | none =>
    have hx : ex.isSome = true := by simpa using hfloat
    simp only [dotText, List.nil_append]
    rw [scan_tail ex hex rest _ _ _ (by simp; omega) rfl rfl hstop.1]
    refine ⟨tailState ex ⟨ds.reverse ++ [c], false, false, false, 10⟩, by simp [advAll_append], ?_, ?_, ?_, ?_⟩
    · cases ex with
      | none => simp at hx
      | some x => simp [tailState, expText]
    · cases ex with
      | none => simp at hx
      | some x => rfl
    · cases ex <;> rfl
    · cases ex <;> rfl
  | some f =>
    have hf := hfp f rfl
    simp only [dotText, List.cons_append, List.append_assoc]
    obtain ⟨k, hk⟩ : ∃ k, (ds ++ '.' :: (f ++ (expText ex ++ rest))).length + 1 - ds.length = k + 1 :=
      ⟨(f ++ (expText ex ++ rest)).length + 1, by simp; omega⟩
    have hnext : ∀ x, (f ++ (expText ex ++ rest)).head? = some x → x ≠ '+' ∧ x ≠ '-' := by
      intro x hx
      cases f with
      | cons d f' =>
        simp at hx; subst hx
        have := isDigit_not_sign d (hf d (by simp)); exact ⟨this.1, this.2.1⟩
      | nil =>
        cases ex with
        | some e =>
          obtain ⟨hm, _⟩ := (hex : e.ok)
          simp [expText, ExpPart.text] at hx; subst hx
          rcases hm with hm | hm <;> rw [hm] <;> decide
        | none => simpa [expText] using hstop.2 rfl rfl x (by simpa [expText] using hx)
    rw [hk, scan_dot k _ _ _ rfl rfl rfl hnext]
    rw [scanNumber_digits f k _ _ _ (by intro x hx; simp [numChar, hf x hx]) (by simp at hk; omega)]
    rw [scan_tail ex hex rest _ _ _ (by simp at hk ⊢; omega) rfl rfl hstop.1]
    refine ⟨tailState ex ⟨f.reverse ++ '.' :: (ds.reverse ++ [c]), true, false, false, 10⟩,
      by simp [advAll_append], ?_, ?_, ?_, ?_⟩
    · cases ex <;> simp [tailState, expText]
    · cases ex <;> rfl
    · cases ex <;> rfl
    · cases ex <;> rfl

theorem scan_float_dot (fp : List Char) (ex : Option ExpPart) (rest : List Char) (loc : Loc)
    (hfp : ∀ x ∈ fp, isDigit x = true) (hex : expOk ex) (hstop : numStop 10 rest) :
    ∃ st, scanNumber ((fp ++ (expText ex ++ rest)).length + 1) ⟨fp ++ (expText ex ++ rest), loc⟩
        { working := ['.'], isFloat := true, isExp := false, isUnsigned := false, base := 10 } =
      (⟨rest, advAll loc (fp ++ expText ex)⟩, st) ∧
      st.working.reverse = '.' :: (fp ++ expText ex) ∧ st.isFloat = true ∧ st.isUnsigned = false ∧ st.base = 10 := by
  rw [scanNumber_digits fp _ _ loc _ (by intro x hx; simp [numChar, hfp x hx]) (by simp; omega)]
  rw [scan_tail ex hex rest _ _ _ (by simp; omega) rfl rfl hstop]
  refine ⟨tailState ex ⟨fp.reverse ++ ['.'], true, false, false, 10⟩, by simp [advAll_append], ?_, ?_, ?_, ?_⟩
  · cases ex <;> simp [tailState, expText]
  · cases ex <;> rfl
  · cases ex <;> rfl
  · cases ex <;> rfl

/-! ### `parseFloatText` on a well-formed lexeme -/

theorem takeWhile_digits (ip r : List Char) (hip : ∀ x ∈ ip, isDigit x = true)
    (hr : ∀ c, r.head? = some c → isDigit c = false) :
    (ip ++ r).takeWhile isDigit = ip ∧ (ip ++ r).dropWhile isDigit = r := by
  induction ip with
  | nil =>
    cases r with
    | nil => simp
    | cons c cs => simp [List.takeWhile, List.dropWhile, hr c rfl]
  | cons d ds ih =>
    have hd := hip d (by simp)
    obtain ⟨h1, h2⟩ := ih (fun x hx => hip x (by simp [hx]))
    simp [List.takeWhile, List.dropWhile, hd, h1, h2]

/-- The decimal exponent an exponent part spells (absurdly long ones are clamped, as the result is
    0 or infinity long before). -/
def expVal : Option ExpPart → Int
  | none => 0
  | some x =>
    let ev : Int := if x.digits.length > 8 then 100000000 else digitsVal x.digits
    if x.sign = some '-' then -ev else ev

theorem expText_head (ex : Option ExpPart) (hex : expOk ex) (rest : List Char) (hrest : rest = [])
    (c : Char) (h : (expText ex ++ rest).head? = some c) : isDigit c = false ∧ c ≠ '.' := by
  subst hrest
  cases ex with
  | none => simp [expText] at h
  | some x =>
    obtain ⟨hm, _⟩ := (hex : x.ok)
    simp [expText, ExpPart.text] at h; subst h
    rcases hm with hm | hm <;> rw [hm] <;> exact ⟨by decide, by decide⟩

theorem parseFloatText_spec (ip : List Char) (fp : Option (List Char)) (ex : Option ExpPart)
    (hip : ∀ x ∈ ip, isDigit x = true) (hfp : ∀ f, fp = some f → ∀ x ∈ f, isDigit x = true)
    (hex : expOk ex) (hne : ip ++ fp.getD [] ≠ []) :
    parseFloatText (ip ++ (dotText fp ++ expText ex)) =
      some (F.ofDecimal (digitsVal (ip ++ fp.getD [])) (expVal ex - ((fp.getD []).length : Int))) := by
  have hhead : ∀ c, (dotText fp ++ expText ex).head? = some c → isDigit c = false := by
    intro c hc
    cases fp with
    | some f => simp [dotText] at hc; subst hc; decide
    | none => exact (expText_head ex hex [] rfl c (by simpa [dotText] using hc)).1
  obtain ⟨hI, hR⟩ := takeWhile_digits ip (dotText fp ++ expText ex) hip hhead
  unfold parseFloatText
  simp only [hI, hR]
  cases fp with
  | none =>
    simp only [dotText, List.nil_append, Option.getD_none, List.append_nil] at hne ⊢
    cases ex with
    | none =>
      simp [expText, expVal, hne]
    | some x =>
      obtain ⟨m, sg, dg⟩ := x
      obtain ⟨hm, hs, hdne, hd⟩ := (hex : ExpPart.ok ⟨m, sg, dg⟩)
      simp only at hm hs hdne hd
      cases dg with
      | nil => exact absurd rfl hdne
      | cons d ds =>
        have hdd := hd d (by simp)
        have htl : ∀ x ∈ ds, isDigit x = true := fun x hx => hd x (by simp [hx])
        obtain ⟨n1, n2, _, _, _⟩ := isDigit_not_sign d hdd
        cases sg with
        | none =>
          rcases hm with rfl | rfl <;>
            simp [expText, ExpPart.text, expVal, hne, n1, n2, hdd] <;> exact htl
        | some s =>
          rcases hs s rfl with rfl | rfl <;> rcases hm with rfl | rfl <;>
            simp [expText, ExpPart.text, expVal, hne, hdd] <;> exact htl
  | some f =>
    have hf := hfp f rfl
    have hhead2 : ∀ c, (expText ex).head? = some c → isDigit c = false := by
      intro c hc
      exact (expText_head ex hex [] rfl c (by simpa using hc)).1
    obtain ⟨hF, hR2⟩ := takeWhile_digits f (expText ex) hf hhead2
    simp only [dotText, List.cons_append, Option.getD_some, hF, hR2] at hne ⊢
    have hemp : (ip.isEmpty && f.isEmpty) = false := by
      cases ip <;> cases f <;> simp_all
    cases ex with
    | none =>
      simp [expText, expVal, hemp]
    | some x =>
      obtain ⟨m, sg, dg⟩ := x
      obtain ⟨hm, hs, hdne, hd⟩ := (hex : ExpPart.ok ⟨m, sg, dg⟩)
      simp only at hm hs hdne hd
      cases dg with
      | nil => exact absurd rfl hdne
      | cons d ds =>
        have hdd := hd d (by simp)
        have htl : ∀ x ∈ ds, isDigit x = true := fun x hx => hd x (by simp [hx])
        obtain ⟨n1, n2, _, _, _⟩ := isDigit_not_sign d hdd
        cases sg with
        | none =>
          rcases hm with rfl | rfl <;>
            simp [expText, ExpPart.text, expVal, hemp, n1, n2, hdd] <;> exact htl
        | some s =>
          rcases hs s rfl with rfl | rfl <;> rcases hm with rfl | rfl <;>
            simp [expText, ExpPart.text, expVal, hemp, hdd] <;> exact htl

/-! ### double tokens -/

theorem lexNumber_of_scan (start : List Char) (s s' : Scan) (st : NumState)
    (hscan : scanNumber (s.rest.length + 1) s
      { working := start.reverse, isFloat := start.contains '.', isExp := false, isUnsigned := false, base := 10 } = (s', st))
    (hf : st.isFloat = true) (hu : st.isUnsigned = false) :
    lexNumber start s =
      match parseFloatText st.working.reverse with
      | some b => .ok (.floatLit b, s')
      | none => .error ⟨s'.loc⟩ := by
  unfold lexNumber
  simp only [hscan, hu, hf, Bool.false_eq_true, if_false, if_true]
  cases parseFloatText st.working.reverse <;> rfl

theorem lexToken_dot_start (d : Char) (cs : List Char) (loc : Loc) (h : isDigit d = true) :
    lexToken ⟨'.' :: d :: cs, loc⟩ = LexLit.finish loc (lexNumber ['.'] ⟨d :: cs, loc.adv '.'⟩) := by
  rcases isDigit_cases d h with rfl|rfl|rfl|rfl|rfl|rfl|rfl|rfl|rfl|rfl <;> rfl

/-- A double written with integer digits first: `digits [. digits] [exponent]` with a dot or an
    exponent (or both). -/
theorem float_token_digit (c : Char) (ds : List Char) (fp : Option (List Char)) (ex : Option ExpPart)
    (rest : List Char) (loc : Loc) (hc : isDigit c = true) (hds : ∀ x ∈ ds, isDigit x = true)
    (hfp : ∀ f, fp = some f → ∀ x ∈ f, isDigit x = true) (hex : expOk ex) (hstop : floatStop fp ex rest)
    (hfloat : fp.isSome = true ∨ ex.isSome = true) :
    lexToken ⟨c :: afterFirst ds fp ex ++ rest, loc⟩ =
      .ok (some (.floatLit (F.ofDecimal (digitsVal (c :: ds ++ fp.getD []))
                  (expVal ex - ((fp.getD []).length : Int))),
                ⟨loc, advAll loc (c :: afterFirst ds fp ex)⟩),
           ⟨rest, advAll loc (c :: afterFirst ds fp ex)⟩) := by
  obtain ⟨st, hscan, hw, hf, hu, _⟩ := scan_float_digit c ds fp ex rest (loc.adv c) hds hfp hex hstop hfloat
  rw [List.cons_append, lexToken_digit c _ loc hc]
  have hstart : ([c].contains '.') = false := not_dot_of_isDigit c hc
  have hscan' : scanNumber ((⟨afterFirst ds fp ex ++ rest, loc.adv c⟩ : Scan).rest.length + 1)
      ⟨afterFirst ds fp ex ++ rest, loc.adv c⟩
      { working := [c].reverse, isFloat := [c].contains '.', isExp := false, isUnsigned := false, base := 10 } =
      (⟨rest, advAll (loc.adv c) (afterFirst ds fp ex)⟩, st) := by
    rw [hstart]; exact hscan
  rw [lexNumber_of_scan [c] _ _ st hscan' hf hu, hw]
  have hp := parseFloatText_spec (c :: ds) fp ex
    (by intro x hx; rcases List.mem_cons.mp hx with rfl | hx; exact hc; exact hds x hx) hfp hex (by simp)
  have htext : c :: afterFirst ds fp ex = (c :: ds) ++ (dotText fp ++ expText ex) := by simp [afterFirst]
  rw [htext, hp]
  simp [LexLit.finish, afterFirst]

/-- A double written with a leading dot: `. digits [exponent]`. -/
theorem float_token_dot (d : Char) (fp : List Char) (ex : Option ExpPart) (rest : List Char) (loc : Loc)
    (hd : isDigit d = true) (hfp : ∀ x ∈ fp, isDigit x = true) (hex : expOk ex) (hstop : numStop 10 rest) :
    lexToken ⟨'.' :: d :: fp ++ (expText ex ++ rest), loc⟩ =
      .ok (some (.floatLit (F.ofDecimal (digitsVal (d :: fp)) (expVal ex - (((d :: fp).length : Nat) : Int))),
                ⟨loc, advAll loc ('.' :: d :: fp ++ expText ex)⟩),
           ⟨rest, advAll loc ('.' :: d :: fp ++ expText ex)⟩) := by
  have hall : ∀ x ∈ d :: fp, isDigit x = true := by
    intro x hx; rcases List.mem_cons.mp hx with rfl | hx; exact hd; exact hfp x hx
  obtain ⟨st, hscan, hw, hf, hu, _⟩ := scan_float_dot (d :: fp) ex rest (loc.adv '.') hall hex hstop
  rw [List.cons_append, List.cons_append, lexToken_dot_start d _ loc hd]
  have hscan' : scanNumber ((⟨d :: fp ++ (expText ex ++ rest), loc.adv '.'⟩ : Scan).rest.length + 1)
      ⟨d :: fp ++ (expText ex ++ rest), loc.adv '.'⟩
      { working := ['.'].reverse, isFloat := ['.'].contains '.', isExp := false, isUnsigned := false, base := 10 } =
      (⟨rest, advAll (loc.adv '.') (d :: fp ++ expText ex)⟩, st) := hscan
  have e := lexNumber_of_scan ['.'] _ _ st hscan' hf hu
  simp only [List.cons_append] at e hw
  rw [e, hw]
  have hp := parseFloatText_spec [] (some (d :: fp)) ex (by simp) (by intro f hf; injection hf with hf; subst hf; exact hall)
    hex (by simp)
  simp only [List.nil_append, dotText, Option.getD_some, List.cons_append] at hp ⊢
  rw [hp]
  simp [LexLit.finish, advAll_append]

end LexFloat
end Rscel
