import RscelModel.Model.Basic
/-
`strLt` / `bytesLt` are strict total orders (lexicographic over a linear order on the elements).
Proved once for a generic lexicographic order on lists of naturals and transported.
-/
namespace Rscel

/-- generic lexicographic strict order on lists over `Nat` keys -/
def lexLt : List Nat → List Nat → Bool
  | [], [] => false
  | [], _ :: _ => true
  | _ :: _, [] => false
  | a :: as, b :: bs => if a < b then true else if b < a then false else lexLt as bs

theorem lexLt_irrefl : ∀ l, lexLt l l = false
  | [] => rfl
  | a :: as => by simp [lexLt, lexLt_irrefl as]

theorem lexLt_trans : ∀ a b c, lexLt a b = true → lexLt b c = true → lexLt a c = true
  | [], [], _, h, _ => by simp [lexLt] at h
  | [], _ :: _, [], _, h => by simp [lexLt] at h
  | [], _ :: _, _ :: _, _, _ => by simp [lexLt]
  | _ :: _, [], _, h, _ => by simp [lexLt] at h
  | _ :: _, _ :: _, [], _, h => by simp [lexLt] at h
  | x :: xs, y :: ys, z :: zs, h1, h2 => by
    simp only [lexLt] at h1 h2 ⊢
    by_cases hxy : x < y
    · by_cases hyz : y < z
      · have : x < z := by omega
        simp [this]
      · by_cases hzy : z < y
        · simp [hyz, hzy] at h2
        · have : y = z := by omega
          subst this; simp [hxy]
    · by_cases hyx : y < x
      · simp [hxy, hyx] at h1
      · have hxy' : x = y := by omega
        subst hxy'
        by_cases hyz : x < z
        · simp [hyz]
        · by_cases hzy : z < x
          · simp [hyz, hzy] at h2
          · simp [hxy] at h1
            simp [hyz, hzy] at h2 ⊢
            exact lexLt_trans xs ys zs h1 h2

theorem lexLt_total : ∀ a b, lexLt a b = true ∨ a = b ∨ lexLt b a = true
  | [], [] => by simp
  | [], _ :: _ => by simp [lexLt]
  | _ :: _, [] => by simp [lexLt]
  | x :: xs, y :: ys => by
    simp only [lexLt]
    by_cases hxy : x < y
    · simp [hxy]
    · by_cases hyx : y < x
      · simp [hxy, hyx]
      · have : x = y := by omega
        subst this
        simp
        rcases lexLt_total xs ys with h | h | h
        · exact Or.inl h
        · exact Or.inr (Or.inl h)
        · exact Or.inr (Or.inr h)

theorem lexLt_asymm (a b : List Nat) (h : lexLt a b = true) : lexLt b a = false := by
  cases hba : lexLt b a
  · rfl
  · have := lexLt_trans a b a h hba
    simp [lexLt_irrefl] at this

theorem strLt_eq_lex : ∀ a b : Str, strLt a b = lexLt (a.map (·.val.toNat)) (b.map (·.val.toNat))
  | [], [] => rfl
  | [], _ :: _ => rfl
  | _ :: _, [] => rfl
  | a :: as, b :: bs => by
    simp only [strLt, List.map, lexLt, strLt_eq_lex as bs, UInt32.lt_iff_toNat_lt]

theorem bytesLt_eq_lex : ∀ a b : List UInt8, bytesLt a b = lexLt (a.map (·.toNat)) (b.map (·.toNat))
  | [], [] => rfl
  | [], _ :: _ => rfl
  | _ :: _, [] => rfl
  | a :: as, b :: bs => by
    simp only [bytesLt, List.map, lexLt, bytesLt_eq_lex as bs, UInt8.lt_iff_toNat_lt]

theorem charKey_inj : ∀ a b : Str, a.map (·.val.toNat) = b.map (·.val.toNat) → a = b
  | [], [], _ => rfl
  | [], _ :: _, h => by simp at h
  | _ :: _, [], h => by simp at h
  | x :: xs, y :: ys, h => by
    simp only [List.map, List.cons.injEq] at h
    have h1 : x = y := Char.ext (UInt32.toNat_inj.mp h.1)
    rw [h1, charKey_inj xs ys h.2]

theorem byteKey_inj : ∀ a b : List UInt8, a.map (·.toNat) = b.map (·.toNat) → a = b
  | [], [], _ => rfl
  | [], _ :: _, h => by simp at h
  | _ :: _, [], h => by simp at h
  | x :: xs, y :: ys, h => by
    simp only [List.map, List.cons.injEq] at h
    rw [UInt8.toNat_inj.mp h.1, byteKey_inj xs ys h.2]

theorem strLt_irrefl (a : Str) : strLt a a = false := by rw [strLt_eq_lex]; exact lexLt_irrefl _
theorem strLt_trans (a b c : Str) : strLt a b = true → strLt b c = true → strLt a c = true := by
  simp only [strLt_eq_lex]; exact lexLt_trans _ _ _
theorem strLt_total (a b : Str) : strLt a b = true ∨ a = b ∨ strLt b a = true := by
  simp only [strLt_eq_lex]
  rcases lexLt_total (a.map (·.val.toNat)) (b.map (·.val.toNat)) with h | h | h
  · exact Or.inl h
  · exact Or.inr (Or.inl (charKey_inj a b h))
  · exact Or.inr (Or.inr h)
theorem strLt_asymm (a b : Str) : strLt a b = true → strLt b a = false := by
  simp only [strLt_eq_lex]; exact lexLt_asymm _ _

theorem bytesLt_irrefl (a : List UInt8) : bytesLt a a = false := by rw [bytesLt_eq_lex]; exact lexLt_irrefl _
theorem bytesLt_trans (a b c : List UInt8) : bytesLt a b = true → bytesLt b c = true → bytesLt a c = true := by
  simp only [bytesLt_eq_lex]; exact lexLt_trans _ _ _
theorem bytesLt_total (a b : List UInt8) : bytesLt a b = true ∨ a = b ∨ bytesLt b a = true := by
  simp only [bytesLt_eq_lex]
  rcases lexLt_total (a.map (·.toNat)) (b.map (·.toNat)) with h | h | h
  · exact Or.inl h
  · exact Or.inr (Or.inl (byteKey_inj a b h))
  · exact Or.inr (Or.inr h)
theorem bytesLt_asymm (a b : List UInt8) : bytesLt a b = true → bytesLt b a = false := by
  simp only [bytesLt_eq_lex]; exact lexLt_asymm _ _

end Rscel
