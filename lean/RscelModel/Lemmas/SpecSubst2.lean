import RscelModel.Theorems.C05Compile2
import RscelModel.Lemmas.SpecSubst
/-
The substitution lemma of the declarative semantics for **all trees** (`Model/Spec.lean`, `Model/Subst.lean`),
the larger fragment `Frag2` included: calls, macros, map literals, f-strings, index / field access, type
patterns.  Used by `Theorems/C09Sem2.lean`.

`substIdent x r` replaces *every* identifier primary `x` — also where the identifier is not a variable:
the name of a called function (`x(..)`) and the loop variable of a macro (`l.map(x, ..)`, a binder).  The lemma
is therefore stated for trees in which `x` occurs as a variable only: `varOnly x e` —
  * no call `x(..)` (with `x` bound as a parameter such a call fails anyway, in a standard environment),
  * no macro call (in function or method position, by name and arity as `evalSpecMacro` reads them) whose
    loop-variable argument is the identifier `x` (occurrences of `x` inside such a macro would be bound).
-/
namespace Rscel
namespace SpecSubst2
open Rscel.Seq Rscel.C05Compile Rscel.C05Compile2

/-! ### `x` occurs as a variable only -/

def notIdent (x : Str) (a : Ast) : Bool := decide (identOf a ≠ some x)

/-- The loop-variable arguments of the macro `name` (positions as `evalSpecMacro` reads them; `args`: last
    argument first) are not the identifier `x`. -/
def loopPos (x name : Str) (args : List Ast) : Bool :=
  if name = "has".toList || name = "coalesce".toList then true
  else if name = "reduce".toList then
    match args with
    | [_, _, n, c] => notIdent x c && notIdent x n
    | _ => true
  else if name = "map".toList then
    match args with
    | [_, xb] => notIdent x xb
    | [_, _, xb] => notIdent x xb
    | _ => true
  else
    match args with
    | [_, xb] => notIdent x xb
    | _ => true

/-- … when `name` is the name of a macro at all (any other call is unconstrained). -/
def loopFree (x name : Str) (args : List Ast) : Bool :=
  if defaultMacros.any (·.toList = name) then loopPos x name args else true

/-- A method call `.name(args)` directly in front of the chain. -/
def headLoopFree (x name : Str) : List MOp → Bool
  | .call _ args :: _ => loopFree x name args
  | _ => true

/-- The callee of `f(args)` is not `x`, and its loop variables are not `x`. -/
def calleeOK (x : Str) : Prim → List MOp → Bool
  | .ident _ f, .call _ args :: _ => decide (f ≠ x) && loopFree x f args
  | _, _ => true

mutual
/-- `x` occurs in the tree as a variable only: not as the callee of a call, not as the loop variable of a
    macro. -/
def varOnly (x : Str) : Ast → Bool
  | .tern _ c t f => varOnly x c && varOnly x t && varOnly x f
  | .match_ _ s cases => varOnly x s && varOnlyCases x cases
  | .bin _ _ a b => varOnly x a && varOnly x b
  | .notRun _ _ m => varOnly x m
  | .negRun _ _ m => varOnly x m
  | .member _ p chain => calleeOK x p chain && varOnlyPrim x p && varOnlyOps x chain
def varOnlyPrim (x : Str) : Prim → Bool
  | .parens _ e => varOnly x e
  | .list _ es => varOnlyList x es
  | .map _ inits => varOnlyInits x inits
  | .fstr _ segs => varOnlySegs x segs
  | _ => true
def varOnlyOps (x : Str) : List MOp → Bool
  | [] => true
  | .access _ _ name :: rest => headLoopFree x name rest && varOnlyOps x rest
  | .call _ args :: rest => varOnlyList x args && varOnlyOps x rest
  | .index _ e :: rest => varOnly x e && varOnlyOps x rest
def varOnlyList (x : Str) : List Ast → Bool
  | [] => true
  | e :: es => varOnly x e && varOnlyList x es
def varOnlyInits (x : Str) : List MInit → Bool
  | [] => true
  | .mk _ k v :: rest => varOnly x k && varOnly x v && varOnlyInits x rest
def varOnlyCases (x : Str) : List MCase → Bool
  | [] => true
  | .mk _ p b :: rest => varOnlyPat x p && varOnly x b && varOnlyCases x rest
def varOnlyPat (x : Str) : Pat → Bool
  | .cmp _ _ _ e => varOnly x e
  | _ => true
def varOnlySegs (x : Str) : List FSegAst → Bool
  | [] => true
  | .lit _ :: rest => varOnlySegs x rest
  | .expr _ e :: rest => varOnly x e && varOnlySegs x rest
end

/-! ### small facts -/

theorem resolve_bind_ne (env : Env) {y x : Str} (w : Val) (h : y ≠ x) :
    resolveIdent (env.bind y w) x = resolveIdent env x := by
  have hp : (env.bind y w).getParam x = env.getParam x := by
    simp [Env.getParam, Env.bind, lookup, h]
  have ht : (env.bind y w).getType x = env.getType x := rfl
  unfold resolveIdent
  rw [hp, ht]

/-- A loop-variable argument that is not the identifier `x` is the same loop variable after the
    substitution (the replacement `r` is not an identifier). -/
theorem identOf_subst {x : Str} {r : Prim} (hri : ∀ sp n, r ≠ .ident sp n) {a : Ast} (h : notIdent x a = true) :
    identOf (substIdent x r a) = identOf a := by
  simp only [notIdent, decide_eq_true_eq] at h
  cases a with
  | member sp p chain =>
    cases chain with
    | nil =>
      cases p with
      | ident sp' n =>
        have hn : n ≠ x := fun hh => h (by simp [identOf, hh])
        simp [substIdent, substIdentPrim, substIdentOps, hn]
      | _ => simp [substIdent, substIdentPrim, substIdentOps, identOf]
    | cons op rest =>
      cases op <;> simp [substIdent, substIdentOps, identOf]
  | _ => simp [substIdent, identOf]

theorem notIdent_ne {x y : Str} {a : Ast} (h : notIdent x a = true) (hy : identOf a = some y) : y ≠ x := by
  simp only [notIdent, decide_eq_true_eq] at h
  intro hh; subst hh; exact h hy

theorem callOf_congr {B : Builtins} (k : CallKind) (name : Str) (vs : List Val) {mac mac' : Val → Val}
    (h : ∀ this, k = .macro_ this → name ≠ "coalesce".toList → mac this = mac' this) :
    callOf B k name vs mac = callOf B k name vs mac' := by
  cases k with
  | macro_ this =>
    simp only [callOf]
    split
    · rfl
    · rename_i hn; exact h this rfl hn
  | _ => rfl

theorem eso_call {B : Builtins} (v : Val) (sp : Span) (args : List Ast) (rest : List MOp) (env : Env) :
    evalSpecOps B v (.call sp args :: rest) env = notCovered := by
  rw [evalSpecOps]

/-! ### the value is preserved -/

section
variable {B : Builtins} {x : Str} {r : Prim} {v : Val}

/-- The macro bodies: `evalSpecMacro` reads the substituted arguments as it reads the arguments, given that
    every argument keeps its value in every environment in which `x` still resolves to `v`. -/
theorem macro_subst (hri : ∀ sp n, r ≠ .ident sp n) {name : Str} (this : Val) {args : List Ast} {env : Env}
    (hn : name ≠ "coalesce".toList) (hl : loopPos x name args = true) (hx : resolveIdent env x = v)
    (harg : ∀ a ∈ args, ∀ env', resolveIdent env' x = v →
      evalSpec B (substIdent x r a) env' = evalSpec B a env') :
    evalSpecMacro B name this (substIdentList x r args) env = evalSpecMacro B name this args env := by
  have hbind : ∀ {y : Str} (w : Val) {env' : Env}, y ≠ x → resolveIdent env' x = v →
      resolveIdent (env'.bind y w) x = v := fun w _ hy h => (resolve_bind_ne _ w hy).trans h
  unfold loopPos at hl
  rw [evalSpecMacro.eq_def, evalSpecMacro.eq_def]
  dsimp only
  by_cases h1 : name = "has".toList
  · rw [if_pos h1, if_pos h1]
    match args, harg with
    | [], _ => rfl
    | [a], harg => simp only [substIdentList]; rw [harg a (List.mem_cons_self ..) env hx]
    | _ :: _ :: _, _ => simp only [substIdentList]
  · have hhc : ¬ ((name = "has".toList || name = "coalesce".toList) = true) := by
      simp only [Bool.or_eq_true, decide_eq_true_eq, not_or]; exact ⟨h1, hn⟩
    rw [if_neg hhc] at hl
    rw [if_neg h1, if_neg h1]
    by_cases h2 : name = "reduce".toList
    · rw [if_pos h2] at hl
      rw [if_pos h2, if_pos h2]
      match args, harg, hl with
      | [], _, _ => rfl
      | [_], _, _ => simp only [substIdentList]
      | [_, _], _, _ => simp only [substIdentList]
      | [_, _, _], _, _ => simp only [substIdentList]
      | _ :: _ :: _ :: _ :: _ :: _, _, _ => simp only [substIdentList]
      | [seed, step, n, c], harg, hl =>
        simp only [Bool.and_eq_true] at hl
        simp only [substIdentList, identOf_subst hri hl.1, identOf_subst hri hl.2]
        cases hc : identOf c with
        | none => rfl
        | some cur =>
          cases hnx : identOf n with
          | none => rfl
          | some nxt =>
            have hcur := notIdent_ne hl.1 hc
            have hnxt := notIdent_ne hl.2 hnx
            simp only
            rw [harg seed (by simp) env hx]
            have : (fun acc w => evalSpec B (substIdent x r step) ((env.bind nxt w).bind cur acc)) =
                (fun acc w => evalSpec B step ((env.bind nxt w).bind cur acc)) :=
              funext fun acc => funext fun w => harg step (by simp) _ (hbind acc hcur (hbind w hnxt hx))
            rw [this]
    · rw [if_neg h2] at hl
      rw [if_neg h2, if_neg h2]
      by_cases h3 : name = "map".toList
      · rw [if_pos h3] at hl
        rw [if_pos h3, if_pos h3]
        match args, harg, hl with
        | [], _, _ => rfl
        | [_], _, _ => simp only [substIdentList]
        | _ :: _ :: _ :: _ :: _, _, _ => simp only [substIdentList]
        | [e, xb], harg, hl =>
          simp only [substIdentList, identOf_subst hri hl]
          cases hxb : identOf xb with
          | none => rfl
          | some y =>
            have hy := notIdent_ne hl hxb
            have : (fun w => evalSpec B (substIdent x r e) (env.bind y w)) = (fun w => evalSpec B e (env.bind y w)) :=
              funext fun w => harg e (by simp) _ (hbind w hy hx)
            simp only [this]
        | [e, p, xb], harg, hl =>
          simp only [substIdentList, identOf_subst hri hl]
          cases hxb : identOf xb with
          | none => rfl
          | some y =>
            have hy := notIdent_ne hl hxb
            have h1' : (fun w => evalSpec B (substIdent x r e) (env.bind y w)) = (fun w => evalSpec B e (env.bind y w)) :=
              funext fun w => harg e (by simp) _ (hbind w hy hx)
            have h2' : (fun w => evalSpec B (substIdent x r p) (env.bind y w)) = (fun w => evalSpec B p (env.bind y w)) :=
              funext fun w => harg p (by simp) _ (hbind w hy hx)
            simp only [h1', h2']
      · rw [if_neg h3] at hl
        rw [if_neg h3, if_neg h3]
        match args, harg, hl with
        | [], _, _ => rfl
        | [_], _, _ => simp only [substIdentList]
        | _ :: _ :: _ :: _, _, _ => simp only [substIdentList]
        | [body, xb], harg, hl =>
          simp only [substIdentList, identOf_subst hri hl]
          cases hxb : identOf xb with
          | none => rfl
          | some y =>
            have hy := notIdent_ne hl hxb
            have : (fun w => evalSpec B (substIdent x r body) (env.bind y w)) =
                (fun w => evalSpec B body (env.bind y w)) :=
              funext fun w => harg body (by simp) _ (hbind w hy hx)
            simp only [this]

theorem mem_all_list : ∀ {es : List Ast}, varOnlyList x es = true → ∀ a ∈ es, varOnly x a = true
  | [], _, _, h => by cases h
  | e :: es, ho, a, h => by
    simp only [varOnlyList, Bool.and_eq_true] at ho
    rcases List.mem_cons.mp h with rfl | h
    · exact ho.1
    · exact mem_all_list ho.2 a h

/-- A member expression that is not a call `f(..)` is not one after the substitution either. -/
theorem subst_not_call (hri : ∀ sp n, r ≠ .ident sp n) {sp : Span} {p : Prim} {chain : List MOp}
    (hnc : ∀ sp' f sp'' args rest, Ast.member sp p chain = .member sp (.ident sp' f) (.call sp'' args :: rest) → False)
    : ∀ sp' f sp'' args rest, substIdentPrim x r p = .ident sp' f →
      substIdentOps x r chain = .call sp'' args :: rest → False := by
  intro sp' f sp'' args rest hp hc
  cases chain with
  | nil => simp [substIdentOps] at hc
  | cons op rest0 =>
    cases op with
    | access _ _ _ => simp [substIdentOps] at hc
    | index _ _ => simp [substIdentOps] at hc
    | call c args0 =>
      cases p with
      | ident s n =>
        simp only [substIdentPrim] at hp
        by_cases hn : n = x
        · rw [if_pos hn] at hp; exact hri _ _ hp
        · exact hnc s n c args0 rest0 rfl
      | _ => simp [substIdentPrim] at hp

/-- What the mutual induction assumes of the replacement `r`: it is not an identifier, not the bare token
    `int i64Min`, and has the value `v` in every environment. -/
structure ConstPrim (B : Builtins) (r : Prim) (v : Val) : Prop where
  notIdent : ∀ sp n, r ≠ .ident sp n
  notMin : ∀ sp, r ≠ .int sp i64Min
  val : ∀ env, evalSpecPrim B r env = v

/-- A call (function or method position): the same callee kind, the arguments and the macro reading of the
    arguments keep their values. -/
theorem call_subst (hr : ConstPrim B r v) (k : CallKind) {name : Str} {args : List Ast} {env : Env}
    (hk : ∀ this, k = .macro_ this → env.isMacro name = true)
    (hl : loopFree x name args = true) (hx : resolveIdent env x = v)
    (hlist : evalSpecList B (substIdentList x r args) env = evalSpecList B args env)
    (harg : ∀ a ∈ args, ∀ env', resolveIdent env' x = v →
      evalSpec B (substIdent x r a) env' = evalSpec B a env') :
    callOf B k name (evalSpecList B (substIdentList x r args) env).reverse
        (fun this => evalSpecMacro B name this (substIdentList x r args) env) =
      callOf B k name (evalSpecList B args env).reverse (fun this => evalSpecMacro B name this args env) := by
  rw [hlist]
  apply callOf_congr
  intro this hkm hn
  have hm := isMacro_default (hk this hkm)
  unfold loopFree at hl
  rw [if_pos hm] at hl
  exact macro_subst hr.notIdent this hn hl hx harg

theorem member_subst_of (hr : ConstPrim B r v) (sp : Span) (p : Prim) (chain : List MOp) (env : Env)
    (hnc : ∀ sp' f sp'' args rest, Ast.member sp p chain = .member sp (.ident sp' f) (.call sp'' args :: rest) → False)
    (hp : evalSpecPrim B (substIdentPrim x r p) env = evalSpecPrim B p env)
    (hops : ∀ u, evalSpecOps B u (substIdentOps x r chain) env = evalSpecOps B u chain env) :
    evalSpec B (substIdent x r (.member sp p chain)) env = evalSpec B (.member sp p chain) env := by
  simp only [substIdent]
  rw [es_member sp p chain env (fun sp' f sp'' args rest hp hc => hnc sp' f sp'' args rest (by rw [hp, hc])),
    es_member sp _ _ env (subst_not_call hr.notIdent hnc), hp]
  exact hops _

mutual
theorem se_ast (hr : ConstPrim B r v) : ∀ (e : Ast) (env : Env), varOnly x e = true → resolveIdent env x = v →
    evalSpec B (substIdent x r e) env = evalSpec B e env
  | .tern _ c t f, env, ho, hx => by
    simp only [varOnly, Bool.and_eq_true] at ho
    simp only [substIdent, evalSpec, se_ast hr c env ho.1.1 hx, se_ast hr t env ho.1.2 hx, se_ast hr f env ho.2 hx]
  | .match_ _ s cases, env, ho, hx => by
    simp only [varOnly, Bool.and_eq_true] at ho
    simp only [substIdent, evalSpec, se_ast hr s env ho.1 hx]
    exact se_cases hr cases _ env ho.2 hx
  | .bin _ op a b, env, ho, hx => by
    simp only [varOnly, Bool.and_eq_true] at ho
    have ha := se_ast hr a env ho.1 hx
    have hb := se_ast hr b env ho.2 hx
    cases op <;> simp only [substIdent, evalSpec, ha, hb]
  | .notRun _ ops m, env, ho, hx => by
    simp only [varOnly] at ho
    simp only [substIdent, evalSpec, se_ast hr m env ho hx]
  | .negRun _ ops m, env, ho, hx => by
    simp only [varOnly] at ho
    simp only [substIdent, evalSpec, se_ast hr m env ho hx, SpecSubst.negCount_subst hr.notMin]
  | .member sp (.ident sp' f) (.call sp'' args :: rest), env, ho, hx => by
    simp only [varOnly, calleeOK, varOnlyPrim, varOnlyOps, Bool.and_eq_true, decide_eq_true_eq, Bool.true_and] at ho
    obtain ⟨⟨⟨hf, hl⟩, -⟩, ha, hrest⟩ := ho
    simp only [substIdent, substIdentPrim, if_neg hf, substIdentOps]
    rw [es_call, es_call,
      call_subst hr _ (fun this hk => fnKind_macro hk) hl hx (se_list hr args env ha hx)
        (fun a hm env' hx' => se_ast hr a env' (mem_all_list ha a hm) hx')]
    exact se_ops hr rest _ env hrest hx
  | .member _ (.ident _ _) [], env, ho, hx | .member _ (.ident _ _) (.access _ _ _ :: _), env, ho, hx
  | .member _ (.ident _ _) (.index _ _ :: _), env, ho, hx
  | .member _ (.parens _ _) _, env, ho, hx | .member _ (.list _ _) _, env, ho, hx
  | .member _ (.map _ _) _, env, ho, hx | .member _ (.fstr _ _) _, env, ho, hx
  | .member _ (.null _) _, env, ho, hx | .member _ (.int _ _) _, env, ho, hx | .member _ (.uint _ _) _, env, ho, hx
  | .member _ (.float _ _) _, env, ho, hx | .member _ (.str _ _) _, env, ho, hx
  | .member _ (.bytes _ _) _, env, ho, hx | .member _ (.bool _ _) _, env, ho, hx => by
    simp only [varOnly, Bool.and_eq_true] at ho
    exact member_subst_of hr _ _ _ _ (by intro _ _ _ _ _ h; cases h) (se_prim hr _ env ho.1.2 hx)
      (fun u => se_ops hr _ u env ho.2 hx)
theorem se_prim (hr : ConstPrim B r v) : ∀ (p : Prim) (env : Env), varOnlyPrim x p = true → resolveIdent env x = v →
    evalSpecPrim B (substIdentPrim x r p) env = evalSpecPrim B p env
  | .ident _ n, env, _, hx => by
    simp only [substIdentPrim]
    by_cases hn : n = x
    · rw [if_pos hn, hr.val env, hn]; simp only [evalSpecPrim, hx]
    · rw [if_neg hn]
  | .parens _ e, env, ho, hx => by
    simp only [varOnlyPrim] at ho
    simp only [substIdentPrim, evalSpecPrim, se_ast hr e env ho hx]
  | .list _ es, env, ho, hx => by
    simp only [varOnlyPrim] at ho
    simp only [substIdentPrim, evalSpecPrim, se_list hr es env ho hx]
  | .map _ inits, env, ho, hx => by
    simp only [varOnlyPrim] at ho
    simp only [substIdentPrim, evalSpecPrim, se_inits hr inits env ho hx]
  | .fstr _ segs, env, ho, hx => by
    simp only [varOnlyPrim] at ho
    simp only [substIdentPrim, evalSpecPrim, se_segs hr segs env ho hx]
  | .null _, _, _, _ | .int _ _, _, _, _ | .uint _ _, _, _, _ | .float _ _, _, _, _ | .str _ _, _, _, _
  | .bytes _ _, _, _, _ | .bool _ _, _, _, _ => by simp only [substIdentPrim]
theorem se_ops (hr : ConstPrim B r v) : ∀ (chain : List MOp) (u : Val) (env : Env), varOnlyOps x chain = true →
    resolveIdent env x = v → evalSpecOps B u (substIdentOps x r chain) env = evalSpecOps B u chain env
  | [], u, env, _, _ => by simp only [substIdentOps]
  | .access a b name :: .call c args :: rest, u, env, ho, hx => by
    simp only [varOnlyOps, headLoopFree, Bool.and_eq_true] at ho
    obtain ⟨hl, ha, hrest⟩ := ho
    simp only [substIdentOps]
    rw [eso_method, eso_method,
      call_subst hr _ (fun this hk => methodKind_macro hk) hl hx (se_list hr args env ha hx)
        (fun a hm env' hx' => se_ast hr a env' (mem_all_list ha a hm) hx')]
    exact se_ops hr rest _ env hrest hx
  | .access a b name :: [], u, env, ho, hx => by
    simp only [substIdentOps]
  | .access a b name :: .access a' b' name' :: rest, u, env, ho, hx => by
    simp only [varOnlyOps, Bool.and_eq_true] at ho
    have ih := se_ops hr (.access a' b' name' :: rest) (fieldOf u name) env (by simpa [varOnlyOps] using ho.2) hx
    simp only [substIdentOps] at ih ⊢
    rw [eso_field u a b name (.access a' b' name' :: substIdentOps x r rest) env (fun _ _ _ h => by cases h),
      eso_field u a b name (.access a' b' name' :: rest) env (fun _ _ _ h => by cases h)]
    exact ih
  | .access a b name :: .index a' e :: rest, u, env, ho, hx => by
    simp only [varOnlyOps, Bool.and_eq_true] at ho
    have ih := se_ops hr (.index a' e :: rest) (fieldOf u name) env (by simpa [varOnlyOps] using ho.2) hx
    simp only [substIdentOps] at ih ⊢
    rw [eso_field u a b name (.index a' (substIdent x r e) :: substIdentOps x r rest) env (fun _ _ _ h => by cases h),
      eso_field u a b name (.index a' e :: rest) env (fun _ _ _ h => by cases h)]
    exact ih
  | .index a e :: rest, u, env, ho, hx => by
    simp only [varOnlyOps, Bool.and_eq_true] at ho
    simp only [substIdentOps]
    rw [eso_index, eso_index, se_ast hr e env ho.1 hx]
    exact se_ops hr rest _ env ho.2 hx
  | .call a args :: rest, u, env, _, _ => by
    simp only [substIdentOps]
    rw [eso_call, eso_call]
theorem se_list (hr : ConstPrim B r v) : ∀ (es : List Ast) (env : Env), varOnlyList x es = true →
    resolveIdent env x = v → evalSpecList B (substIdentList x r es) env = evalSpecList B es env
  | [], _, _, _ => by simp only [substIdentList]
  | e :: es, env, ho, hx => by
    simp only [varOnlyList, Bool.and_eq_true] at ho
    simp only [substIdentList, evalSpecList, se_ast hr e env ho.1 hx, se_list hr es env ho.2 hx]
theorem se_inits (hr : ConstPrim B r v) : ∀ (inits : List MInit) (env : Env), varOnlyInits x inits = true →
    resolveIdent env x = v → evalSpecInits B (substIdentInits x r inits) env = evalSpecInits B inits env
  | [], _, _, _ => by simp only [substIdentInits]
  | .mk _ k w :: rest, env, ho, hx => by
    simp only [varOnlyInits, Bool.and_eq_true] at ho
    simp only [substIdentInits, evalSpecInits, se_ast hr k env ho.1.1 hx, se_ast hr w env ho.1.2 hx,
      se_inits hr rest env ho.2 hx]
theorem se_cases (hr : ConstPrim B r v) : ∀ (cases : List MCase) (vs : Val) (env : Env), varOnlyCases x cases = true →
    resolveIdent env x = v → evalSpecCases B (substIdentCases x r cases) vs env = evalSpecCases B cases vs env
  | [], _, _, _, _ => by simp only [substIdentCases]
  | .mk _ (.cmp _ _ op e) b :: rest, vs, env, ho, hx => by
    simp only [varOnlyCases, varOnlyPat, Bool.and_eq_true] at ho
    simp only [substIdentCases, substIdentPat, evalSpecCases, evalSpecPat, se_ast hr e env ho.1.1 hx,
      se_ast hr b env ho.1.2 hx, se_cases hr rest vs env ho.2 hx]
  | .mk _ (.type _ _ _) b :: rest, vs, env, ho, hx => by
    simp only [varOnlyCases, varOnlyPat, Bool.and_eq_true] at ho
    simp only [substIdentCases, substIdentPat, evalSpecCases, se_ast hr b env ho.1.2 hx, se_cases hr rest vs env ho.2 hx]
  | .mk _ (.any _) b :: rest, vs, env, ho, hx => by
    simp only [varOnlyCases, varOnlyPat, Bool.and_eq_true] at ho
    simp only [substIdentCases, substIdentPat, evalSpecCases, se_ast hr b env ho.1.2 hx, se_cases hr rest vs env ho.2 hx]
theorem se_segs (hr : ConstPrim B r v) : ∀ (segs : List FSegAst) (env : Env), varOnlySegs x segs = true →
    resolveIdent env x = v → evalSpecSegs B (substIdentSegs x r segs) env = evalSpecSegs B segs env
  | [], _, _, _ => by simp only [substIdentSegs]
  | .lit _ :: rest, env, ho, hx => by
    simp only [varOnlySegs] at ho
    simp only [substIdentSegs, evalSpecSegs, se_segs hr rest env ho hx]
  | .expr _ e :: rest, env, ho, hx => by
    simp only [varOnlySegs, Bool.and_eq_true] at ho
    simp only [substIdentSegs, evalSpecSegs, se_ast hr e env ho.1 hx, se_segs hr rest env ho.2 hx]
end

end

/-! ### the nesting depth is preserved -/

section
variable {x : Str} {r : Prim}

mutual
theorem dp_ast (hr : depthPrim r = 0) : ∀ (e : Ast), depth (substIdent x r e) = depth e
  | .tern _ c t f => by simp only [substIdent, depth, dp_ast hr c, dp_ast hr t, dp_ast hr f]
  | .match_ _ s cases => by simp only [substIdent, depth, dp_ast hr s, dp_cases hr cases]
  | .bin _ _ a b => by simp only [substIdent, depth, dp_ast hr a, dp_ast hr b]
  | .notRun _ _ m => by simp only [substIdent, depth, dp_ast hr m]
  | .negRun _ _ m => by simp only [substIdent, depth, dp_ast hr m]
  | .member _ p chain => by simp only [substIdent, depth, dp_prim hr p, dp_ops hr chain]
theorem dp_prim (hr : depthPrim r = 0) : ∀ (p : Prim), depthPrim (substIdentPrim x r p) = depthPrim p
  | .ident _ n => by
    simp only [substIdentPrim]
    split
    · rw [hr]; rfl
    · rfl
  | .parens _ e => by simp only [substIdentPrim, depthPrim, dp_ast hr e]
  | .list _ es => by simp only [substIdentPrim, depthPrim, dp_list hr es]
  | .map _ inits => by simp only [substIdentPrim, depthPrim, dp_inits hr inits]
  | .fstr _ segs => by simp only [substIdentPrim, depthPrim, dp_segs hr segs]
  | .null _ | .int _ _ | .uint _ _ | .float _ _ | .str _ _ | .bytes _ _ | .bool _ _ => by simp only [substIdentPrim]
theorem dp_ops (hr : depthPrim r = 0) : ∀ (chain : List MOp), depthOps (substIdentOps x r chain) = depthOps chain
  | [] => by simp only [substIdentOps]
  | .access _ _ _ :: rest => by simp only [substIdentOps, depthOps, dp_ops hr rest]
  | .call _ args :: rest => by simp only [substIdentOps, depthOps, dp_args hr args, dp_ops hr rest]
  | .index _ e :: rest => by simp only [substIdentOps, depthOps, dp_ast hr e, dp_ops hr rest]
theorem dp_list (hr : depthPrim r = 0) : ∀ (es : List Ast), depthList (substIdentList x r es) = depthList es
  | [] => by simp only [substIdentList]
  | e :: es => by simp only [substIdentList, depthList, dp_ast hr e, dp_list hr es]
theorem dp_args (hr : depthPrim r = 0) : ∀ (es : List Ast), depthArgs (substIdentList x r es) = depthArgs es
  | [] => by simp only [substIdentList]
  | e :: es => by simp only [substIdentList, depthArgs, dp_ast hr e, dp_args hr es]
theorem dp_inits (hr : depthPrim r = 0) : ∀ (l : List MInit), depthInits (substIdentInits x r l) = depthInits l
  | [] => by simp only [substIdentInits]
  | .mk _ k v :: rest => by simp only [substIdentInits, depthInits, dp_ast hr k, dp_ast hr v, dp_inits hr rest]
theorem dp_cases (hr : depthPrim r = 0) : ∀ (l : List MCase), depthCases (substIdentCases x r l) = depthCases l
  | [] => by simp only [substIdentCases]
  | .mk _ (.cmp _ _ _ e) b :: rest => by
    simp only [substIdentCases, substIdentPat, depthCases, depthPat, dp_ast hr e, dp_ast hr b, dp_cases hr rest]
  | .mk _ (.type _ _ _) b :: rest => by
    simp only [substIdentCases, substIdentPat, depthCases, depthPat, dp_ast hr b, dp_cases hr rest]
  | .mk _ (.any _) b :: rest => by
    simp only [substIdentCases, substIdentPat, depthCases, depthPat, dp_ast hr b, dp_cases hr rest]
theorem dp_segs (hr : depthPrim r = 0) : ∀ (l : List FSegAst), depthSegs (substIdentSegs x r l) = depthSegs l
  | [] => by simp only [substIdentSegs]
  | .lit _ :: rest => by simp only [substIdentSegs, depthSegs, dp_segs hr rest]
  | .expr _ e :: rest => by simp only [substIdentSegs, depthSegs, dp_ast hr e, dp_segs hr rest]
end

end

/-! ### `x` is gone (all trees) -/

section
variable {x : Str} {r : Prim}

mutual
theorem rm_ast (hr : identsOfPrim r = []) : ∀ (e : Ast), x ∉ identsOf (substIdent x r e)
  | .tern _ c t f => by
    simp only [substIdent, identsOf, List.mem_append, not_or]
    exact ⟨⟨rm_ast hr c, rm_ast hr t⟩, rm_ast hr f⟩
  | .match_ _ s cases => by
    simp only [substIdent, identsOf, List.mem_append, not_or]
    exact ⟨rm_ast hr s, rm_cases hr cases⟩
  | .bin _ _ a b => by
    simp only [substIdent, identsOf, List.mem_append, not_or]
    exact ⟨rm_ast hr a, rm_ast hr b⟩
  | .notRun _ _ m => by simp only [substIdent, identsOf]; exact rm_ast hr m
  | .negRun _ _ m => by simp only [substIdent, identsOf]; exact rm_ast hr m
  | .member _ p chain => by
    simp only [substIdent, identsOf, List.mem_append, not_or]
    exact ⟨rm_prim hr p, rm_ops hr chain⟩
theorem rm_prim (hr : identsOfPrim r = []) : ∀ (p : Prim), x ∉ identsOfPrim (substIdentPrim x r p)
  | .ident _ n => by
    simp only [substIdentPrim]
    split
    · rw [hr]; exact List.not_mem_nil
    · rename_i hn; simp only [identsOfPrim, List.mem_singleton]; exact fun h => hn h.symm
  | .parens _ e => by simp only [substIdentPrim, identsOfPrim]; exact rm_ast hr e
  | .list _ es => by simp only [substIdentPrim, identsOfPrim]; exact rm_list hr es
  | .map _ inits => by simp only [substIdentPrim, identsOfPrim]; exact rm_inits hr inits
  | .fstr _ segs => by simp only [substIdentPrim, identsOfPrim]; exact rm_segs hr segs
  | .null _ | .int _ _ | .uint _ _ | .float _ _ | .str _ _ | .bytes _ _ | .bool _ _ => by
    simp [substIdentPrim, identsOfPrim]
theorem rm_ops (hr : identsOfPrim r = []) : ∀ (chain : List MOp), x ∉ identsOfOps (substIdentOps x r chain)
  | [] => by simp [substIdentOps, identsOfOps]
  | .access _ _ _ :: rest => by simp only [substIdentOps, identsOfOps]; exact rm_ops hr rest
  | .call _ args :: rest => by
    simp only [substIdentOps, identsOfOps, List.mem_append, not_or]
    exact ⟨rm_list hr args, rm_ops hr rest⟩
  | .index _ e :: rest => by
    simp only [substIdentOps, identsOfOps, List.mem_append, not_or]
    exact ⟨rm_ast hr e, rm_ops hr rest⟩
theorem rm_list (hr : identsOfPrim r = []) : ∀ (es : List Ast), x ∉ identsOfList (substIdentList x r es)
  | [] => by simp [substIdentList, identsOfList]
  | e :: es => by
    simp only [substIdentList, identsOfList, List.mem_append, not_or]
    exact ⟨rm_ast hr e, rm_list hr es⟩
theorem rm_inits (hr : identsOfPrim r = []) : ∀ (l : List MInit), x ∉ identsOfInits (substIdentInits x r l)
  | [] => by simp [substIdentInits, identsOfInits]
  | .mk _ k v :: rest => by
    simp only [substIdentInits, identsOfInits, List.mem_append, not_or]
    exact ⟨⟨rm_ast hr k, rm_ast hr v⟩, rm_inits hr rest⟩
theorem rm_cases (hr : identsOfPrim r = []) : ∀ (l : List MCase), x ∉ identsOfCases (substIdentCases x r l)
  | [] => by simp [substIdentCases, identsOfCases]
  | .mk _ (.cmp _ _ _ e) b :: rest => by
    simp only [substIdentCases, substIdentPat, identsOfCases, identsOfPat, List.mem_append, not_or]
    exact ⟨⟨rm_ast hr e, rm_ast hr b⟩, rm_cases hr rest⟩
  | .mk _ (.type _ _ _) b :: rest => by
    simp only [substIdentCases, substIdentPat, identsOfCases, identsOfPat, List.mem_append, not_or]
    exact ⟨⟨List.not_mem_nil, rm_ast hr b⟩, rm_cases hr rest⟩
  | .mk _ (.any _) b :: rest => by
    simp only [substIdentCases, substIdentPat, identsOfCases, identsOfPat, List.mem_append, not_or]
    exact ⟨⟨List.not_mem_nil, rm_ast hr b⟩, rm_cases hr rest⟩
theorem rm_segs (hr : identsOfPrim r = []) : ∀ (l : List FSegAst), x ∉ identsOfSegs (substIdentSegs x r l)
  | [] => by simp [substIdentSegs, identsOfSegs]
  | .lit _ :: rest => by simp only [substIdentSegs, identsOfSegs]; exact rm_segs hr rest
  | .expr _ e :: rest => by
    simp only [substIdentSegs, identsOfSegs, List.mem_append, not_or]
    exact ⟨rm_ast hr e, rm_segs hr rest⟩
end

end

/-! ### the fragment `Frag2` is preserved -/

section
variable {B : Builtins} {x : Str} {r : Prim}

theorem mem_substInits {sp : Span} {k v : Ast} :
    ∀ {inits : List MInit}, MInit.mk sp k v ∈ substIdentInits x r inits →
      ∃ k0 v0, MInit.mk sp k0 v0 ∈ inits ∧ k = substIdent x r k0 ∧ v = substIdent x r v0
  | [], h => by simp [substIdentInits] at h
  | .mk sp0 k0 v0 :: rest, h => by
    simp only [substIdentInits, List.mem_cons, MInit.mk.injEq] at h
    rcases h with ⟨rfl, rfl, rfl⟩ | h
    · exact ⟨k0, v0, List.mem_cons_self .., rfl, rfl⟩
    · obtain ⟨k1, v1, hm, hk, hv⟩ := mem_substInits h
      exact ⟨k1, v1, List.mem_cons_of_mem _ hm, hk, hv⟩

theorem mem_substSegs {src : Str} {e : Ast} :
    ∀ {segs : List FSegAst}, FSegAst.expr src e ∈ substIdentSegs x r segs →
      ∃ e0, FSegAst.expr src e0 ∈ segs ∧ e = substIdent x r e0
  | [], h => by simp [substIdentSegs] at h
  | .lit _ :: rest, h => by
    simp only [substIdentSegs, List.mem_cons, reduceCtorEq, false_or] at h
    obtain ⟨e0, hm, he⟩ := mem_substSegs h
    exact ⟨e0, List.mem_cons_of_mem _ hm, he⟩
  | .expr src0 e0 :: rest, h => by
    simp only [substIdentSegs, List.mem_cons, FSegAst.expr.injEq] at h
    rcases h with ⟨rfl, rfl⟩ | h
    · exact ⟨e0, List.mem_cons_self .., rfl⟩
    · obtain ⟨e1, hm, he⟩ := mem_substSegs h
      exact ⟨e1, List.mem_cons_of_mem _ hm, he⟩

theorem mem_substOps_call {sp : Span} {args : List Ast} :
    ∀ {chain : List MOp}, MOp.call sp args ∈ substIdentOps x r chain →
      ∃ args0, MOp.call sp args0 ∈ chain ∧ args = substIdentList x r args0
  | [], h => by simp [substIdentOps] at h
  | .access _ _ _ :: rest, h => by
    simp only [substIdentOps, List.mem_cons, reduceCtorEq, false_or] at h
    obtain ⟨a0, hm, he⟩ := mem_substOps_call h
    exact ⟨a0, List.mem_cons_of_mem _ hm, he⟩
  | .index _ _ :: rest, h => by
    simp only [substIdentOps, List.mem_cons, reduceCtorEq, false_or] at h
    obtain ⟨a0, hm, he⟩ := mem_substOps_call h
    exact ⟨a0, List.mem_cons_of_mem _ hm, he⟩
  | .call sp0 args0 :: rest, h => by
    simp only [substIdentOps, List.mem_cons, MOp.call.injEq] at h
    rcases h with ⟨rfl, rfl⟩ | h
    · exact ⟨args0, List.mem_cons_self .., rfl⟩
    · obtain ⟨a1, hm, he⟩ := mem_substOps_call h
      exact ⟨a1, List.mem_cons_of_mem _ hm, he⟩

theorem mem_substOps_index {sp : Span} {e : Ast} :
    ∀ {chain : List MOp}, MOp.index sp e ∈ substIdentOps x r chain →
      ∃ e0, MOp.index sp e0 ∈ chain ∧ e = substIdent x r e0
  | [], h => by simp [substIdentOps] at h
  | .access _ _ _ :: rest, h => by
    simp only [substIdentOps, List.mem_cons, reduceCtorEq, false_or] at h
    obtain ⟨a0, hm, he⟩ := mem_substOps_index h
    exact ⟨a0, List.mem_cons_of_mem _ hm, he⟩
  | .call _ _ :: rest, h => by
    simp only [substIdentOps, List.mem_cons, reduceCtorEq, false_or] at h
    obtain ⟨a0, hm, he⟩ := mem_substOps_index h
    exact ⟨a0, List.mem_cons_of_mem _ hm, he⟩
  | .index sp0 e0 :: rest, h => by
    simp only [substIdentOps, List.mem_cons, MOp.index.injEq] at h
    rcases h with ⟨rfl, rfl⟩ | h
    · exact ⟨e0, List.mem_cons_self .., rfl⟩
    · obtain ⟨a1, hm, he⟩ := mem_substOps_index h
      exact ⟨a1, List.mem_cons_of_mem _ hm, he⟩

/-! `varOnly` of the parts -/

theorem vo_ops_call {sp : Span} {args : List Ast} :
    ∀ {chain : List MOp}, varOnlyOps x chain = true → MOp.call sp args ∈ chain → varOnlyList x args = true
  | [], _, h => by cases h
  | .access _ _ _ :: rest, ho, h => by
    simp only [varOnlyOps, Bool.and_eq_true] at ho
    simp only [List.mem_cons, reduceCtorEq, false_or] at h
    exact vo_ops_call ho.2 h
  | .index _ _ :: rest, ho, h => by
    simp only [varOnlyOps, Bool.and_eq_true] at ho
    simp only [List.mem_cons, reduceCtorEq, false_or] at h
    exact vo_ops_call ho.2 h
  | .call _ _ :: rest, ho, h => by
    simp only [varOnlyOps, Bool.and_eq_true] at ho
    simp only [List.mem_cons, MOp.call.injEq] at h
    rcases h with ⟨_, rfl⟩ | h
    · exact ho.1
    · exact vo_ops_call ho.2 h

theorem vo_ops_index {sp : Span} {e : Ast} :
    ∀ {chain : List MOp}, varOnlyOps x chain = true → MOp.index sp e ∈ chain → varOnly x e = true
  | [], _, h => by cases h
  | .access _ _ _ :: rest, ho, h => by
    simp only [varOnlyOps, Bool.and_eq_true] at ho
    simp only [List.mem_cons, reduceCtorEq, false_or] at h
    exact vo_ops_index ho.2 h
  | .call _ _ :: rest, ho, h => by
    simp only [varOnlyOps, Bool.and_eq_true] at ho
    simp only [List.mem_cons, reduceCtorEq, false_or] at h
    exact vo_ops_index ho.2 h
  | .index _ _ :: rest, ho, h => by
    simp only [varOnlyOps, Bool.and_eq_true] at ho
    simp only [List.mem_cons, MOp.index.injEq] at h
    rcases h with ⟨_, rfl⟩ | h
    · exact ho.1
    · exact vo_ops_index ho.2 h

theorem vo_inits {sp : Span} {k v : Ast} :
    ∀ {inits : List MInit}, varOnlyInits x inits = true → MInit.mk sp k v ∈ inits →
      varOnly x k = true ∧ varOnly x v = true
  | [], _, h => by cases h
  | .mk _ _ _ :: rest, ho, h => by
    simp only [varOnlyInits, Bool.and_eq_true] at ho
    simp only [List.mem_cons, MInit.mk.injEq] at h
    rcases h with ⟨_, rfl, rfl⟩ | h
    · exact ho.1
    · exact vo_inits ho.2 h

theorem vo_segs {src : Str} {e : Ast} :
    ∀ {segs : List FSegAst}, varOnlySegs x segs = true → FSegAst.expr src e ∈ segs → varOnly x e = true
  | [], _, h => by cases h
  | .lit _ :: rest, ho, h => by
    simp only [varOnlySegs] at ho
    simp only [List.mem_cons, reduceCtorEq, false_or] at h
    exact vo_segs ho h
  | .expr _ _ :: rest, ho, h => by
    simp only [varOnlySegs, Bool.and_eq_true] at ho
    simp only [List.mem_cons, FSegAst.expr.injEq] at h
    rcases h with ⟨_, rfl⟩ | h
    · exact ho.1
    · exact vo_segs ho.2 h

theorem vo_cases {sp : Span} {p : Pat} {b : Ast} :
    ∀ {cases : List MCase}, varOnlyCases x cases = true → MCase.mk sp p b ∈ cases →
      varOnlyPat x p = true ∧ varOnly x b = true
  | [], _, h => by cases h
  | .mk _ _ _ :: rest, ho, h => by
    simp only [varOnlyCases, Bool.and_eq_true] at ho
    simp only [List.mem_cons, MCase.mk.injEq] at h
    rcases h with ⟨_, rfl, rfl⟩ | h
    · exact ho.1
    · exact vo_cases ho.2 h

/-! the shape conditions -/

theorem loopVarOK_subst (hri : ∀ sp n, r ≠ .ident sp n) {a : Ast} (h : notIdent x a = true) :
    loopVarOK B (substIdent x r a) = loopVarOK B a := by
  unfold loopVarOK
  rw [identOf_subst hri h]

theorem macroShape_subst (hri : ∀ sp n, r ≠ .ident sp n) {name : Str} {args : List Ast}
    (hl : loopFree x name args = true) :
    macroShape B name (substIdentList x r args) = macroShape B name args := by
  cases hm : defaultMacros.any (·.toList = name) with
  | false => rw [macroShape_nonmacro hm, macroShape_nonmacro hm]
  | true =>
    unfold loopFree at hl
    rw [if_pos hm] at hl
    unfold macroShape
    by_cases h2 : name = "reduce".toList
    · rw [if_pos h2, if_pos h2]
      subst h2
      simp (config := {decide := true}) only [loopPos, Bool.false_eq_true, if_false, if_true] at hl
      match args, hl with
      | [], _ => rfl
      | [_], _ => rfl
      | [_, _], _ => rfl
      | [_, _, _], _ => rfl
      | _ :: _ :: _ :: _ :: _ :: _, _ => rfl
      | [_, _, n, c], hl =>
        simp only [Bool.and_eq_true] at hl
        simp only [substIdentList, loopVarOK_subst hri hl.1, loopVarOK_subst hri hl.2]
    · rw [if_neg h2, if_neg h2]
      by_cases h3 : name = "map".toList
      · rw [if_pos h3, if_pos h3]
        subst h3
        simp (config := {decide := true}) only [loopPos, Bool.false_eq_true, if_false, if_true] at hl
        match args, hl with
        | [], _ => rfl
        | [_], _ => rfl
        | _ :: _ :: _ :: _ :: _, _ => rfl
        | [_, xb], hl => simp only [substIdentList, loopVarOK_subst hri hl]
        | [_, _, xb], hl => simp only [substIdentList, loopVarOK_subst hri hl]
      · rw [if_neg h3, if_neg h3]
        split
        · rename_i h4
          have hhc : ¬ ((name = "has".toList || name = "coalesce".toList) = true) := by
            simp only [Bool.or_eq_true, decide_eq_true_eq] at h4 ⊢
            rcases h4 with ((h4 | h4) | h4) | h4 <;> subst h4 <;> decide
          unfold loopPos at hl
          rw [if_neg hhc, if_neg h2, if_neg h3] at hl
          match args, hl with
          | [], _ => rfl
          | [_], _ => rfl
          | _ :: _ :: _ :: _, _ => rfl
          | [_, xb], hl => simp only [substIdentList, loopVarOK_subst hri hl]
        · rfl

theorem opsShape_field (a b : Span) (name : Str) (rest : List MOp)
    (h : ∀ sp args rest', rest = .call sp args :: rest' → False) :
    opsShape B (.access a b name :: rest) = (!callableName B name && opsShape B rest) := by
  rw [opsShape]; exact h

theorem opsShape_subst (hri : ∀ sp n, r ≠ .ident sp n) :
    ∀ (chain : List MOp), varOnlyOps x chain = true → opsShape B (substIdentOps x r chain) = opsShape B chain
  | [], _ => by simp only [substIdentOps]
  | .access a b name :: .call c args :: rest, ho => by
    simp only [varOnlyOps, headLoopFree, Bool.and_eq_true] at ho
    simp only [substIdentOps, opsShape, macroShape_subst hri ho.1, opsShape_subst hri rest ho.2.2]
  | .access a b name :: [], _ => by simp only [substIdentOps]
  | .access a b name :: .access a' b' name' :: rest, ho => by
    simp only [varOnlyOps, Bool.and_eq_true] at ho
    have ih := opsShape_subst hri (.access a' b' name' :: rest) (by simpa [varOnlyOps] using ho.2)
    simp only [substIdentOps] at ih ⊢
    rw [opsShape_field a b name (.access a' b' name' :: substIdentOps x r rest) (by intro _ _ _ h; cases h),
      opsShape_field a b name (.access a' b' name' :: rest) (by intro _ _ _ h; cases h), ih]
  | .access a b name :: .index a' e :: rest, ho => by
    simp only [varOnlyOps, Bool.and_eq_true] at ho
    have ih := opsShape_subst hri (.index a' e :: rest) (by simpa [varOnlyOps] using ho.2)
    simp only [substIdentOps] at ih ⊢
    rw [opsShape_field a b name (.index a' (substIdent x r e) :: substIdentOps x r rest) (by intro _ _ _ h; cases h),
      opsShape_field a b name (.index a' e :: rest) (by intro _ _ _ h; cases h), ih]
  | .index a e :: rest, ho => by
    simp only [varOnlyOps, Bool.and_eq_true] at ho
    simp only [substIdentOps, opsShape, opsShape_subst hri rest ho.2]
  | .call a args :: rest, _ => by simp only [substIdentOps, opsShape]

theorem memberShape_not_call {p : Prim} {chain : List MOp}
    (h : ∀ sp' f sp'' args rest, p = .ident sp' f → chain = .call sp'' args :: rest → False) :
    memberShape B p chain = opsShape B chain := by
  unfold memberShape
  split
  · exact absurd rfl (fun hh => h _ _ _ _ _ rfl hh)
  · rfl

theorem memberShape_subst (hri : ∀ sp n, r ≠ .ident sp n) {p : Prim} {chain : List MOp}
    (hc : calleeOK x p chain = true) (ho : varOnlyOps x chain = true) :
    memberShape B (substIdentPrim x r p) (substIdentOps x r chain) = memberShape B p chain := by
  by_cases hcall : ∃ sp' f sp'' args rest, p = .ident sp' f ∧ chain = .call sp'' args :: rest
  · obtain ⟨sp', f, sp'', args, rest, rfl, rfl⟩ := hcall
    simp only [calleeOK, Bool.and_eq_true, decide_eq_true_eq] at hc
    simp only [varOnlyOps, Bool.and_eq_true] at ho
    simp only [substIdentPrim, if_neg hc.1, substIdentOps, memberShape, macroShape_subst hri hc.2,
      opsShape_subst hri rest ho.2]
  · have hnc : ∀ sp' f sp'' args rest, p = .ident sp' f → chain = .call sp'' args :: rest → False :=
      fun sp' f sp'' args rest h1 h2 => hcall ⟨sp', f, sp'', args, rest, h1, h2⟩
    rw [memberShape_not_call hnc, memberShape_not_call (subst_not_call (sp := default) hri
      (fun sp' f sp'' args rest h => by cases h; exact hnc _ _ _ _ _ rfl rfl)), opsShape_subst hri chain ho]

/-- The sub-tree conditions of `Frag2.member` on the primary. -/
def PrimF (F : Ast → Prop) (p : Prim) : Prop :=
  (∀ sp' e, p = .parens sp' e → F e) ∧
  (∀ sp' es, p = .list sp' es → ∀ e ∈ es, F e) ∧
  (∀ sp' inits, p = .map sp' inits → ∀ sp'' k v, MInit.mk sp'' k v ∈ inits → F k) ∧
  (∀ sp' inits, p = .map sp' inits → ∀ sp'' k v, MInit.mk sp'' k v ∈ inits → F v) ∧
  (∀ sp' segs, p = .fstr sp' segs → ∀ src e, FSegAst.expr src e ∈ segs → F e)

theorem primF_of_frag {sp : Span} {p : Prim} (h : Frag2 B (.member sp p [])) : PrimF (Frag2 B) p := by
  cases h with
  | member _ _ _ h1 h2 h3 h4 h5 _ _ _ => exact ⟨h1, h2, h3, h4, h5⟩

theorem primF_subst (hr : PrimF (Frag2 B) r) {p : Prim}
    (hp : PrimF (fun e => varOnly x e = true → Frag2 B (substIdent x r e)) p) (ho : varOnlyPrim x p = true) :
    PrimF (Frag2 B) (substIdentPrim x r p) := by
  obtain ⟨h1, h2, h3, h4, h5⟩ := hp
  unfold PrimF
  cases p with
  | ident s n =>
    simp only [substIdentPrim]
    split
    · exact hr
    · exact ⟨(fun _ _ h => by cases h), (fun _ _ h => by cases h), (fun _ _ h => by cases h), (fun _ _ h => by cases h),
        (fun _ _ h => by cases h)⟩
  | parens s e =>
    simp only [varOnlyPrim] at ho
    refine ⟨?_, (fun _ _ h => by cases h), (fun _ _ h => by cases h), (fun _ _ h => by cases h), (fun _ _ h => by cases h)⟩
    intro sp' e' h
    simp only [substIdentPrim, Prim.parens.injEq] at h
    obtain ⟨_, rfl⟩ := h
    exact h1 s e rfl ho
  | list s es =>
    simp only [varOnlyPrim] at ho
    refine ⟨(fun _ _ h => by cases h), ?_, (fun _ _ h => by cases h), (fun _ _ h => by cases h), (fun _ _ h => by cases h)⟩
    intro sp' es' h a ha
    simp only [substIdentPrim, Prim.list.injEq] at h
    obtain ⟨_, rfl⟩ := h
    obtain ⟨e0, he0, rfl⟩ := SpecSubst.mem_substList ha
    exact h2 s es rfl e0 he0 (mem_all_list ho e0 he0)
  | map s inits =>
    simp only [varOnlyPrim] at ho
    refine ⟨(fun _ _ h => by cases h), (fun _ _ h => by cases h), ?_, ?_, (fun _ _ h => by cases h)⟩
    · intro sp' inits' h sp'' k v hm
      simp only [substIdentPrim, Prim.map.injEq] at h
      obtain ⟨_, rfl⟩ := h
      obtain ⟨k0, v0, hm0, rfl, rfl⟩ := mem_substInits hm
      exact h3 s inits rfl sp'' k0 v0 hm0 (vo_inits ho hm0).1
    · intro sp' inits' h sp'' k v hm
      simp only [substIdentPrim, Prim.map.injEq] at h
      obtain ⟨_, rfl⟩ := h
      obtain ⟨k0, v0, hm0, rfl, rfl⟩ := mem_substInits hm
      exact h4 s inits rfl sp'' k0 v0 hm0 (vo_inits ho hm0).2
  | fstr s segs =>
    simp only [varOnlyPrim] at ho
    refine ⟨(fun _ _ h => by cases h), (fun _ _ h => by cases h), (fun _ _ h => by cases h), (fun _ _ h => by cases h), ?_⟩
    intro sp' segs' h src e hm
    simp only [substIdentPrim, Prim.fstr.injEq] at h
    obtain ⟨_, rfl⟩ := h
    obtain ⟨e0, hm0, rfl⟩ := mem_substSegs hm
    exact h5 s segs rfl src e0 hm0 (vo_segs ho hm0)
  | _ =>
    exact ⟨(fun _ _ h => by cases h), (fun _ _ h => by cases h), (fun _ _ h => by cases h), (fun _ _ h => by cases h),
      (fun _ _ h => by cases h)⟩

/-- **`substIdent` stays inside `Frag2`** when `x` occurs as a variable only and the replacement is a primary
    of the fragment that is not an identifier. -/
theorem frag2_subst (hri : ∀ sp n, r ≠ .ident sp n) (hrf : ∀ sp, Frag2 B (.member sp r [])) {e : Ast}
    (h : Frag2 B e) : varOnly x e = true → Frag2 B (substIdent x r e) := by
  induction h with
  | notRun sp ops a _ ih => intro ho; simp only [varOnly] at ho; simp only [substIdent]; exact .notRun _ _ _ (ih ho)
  | negRun sp ops a _ ih => intro ho; simp only [varOnly] at ho; simp only [substIdent]; exact .negRun _ _ _ (ih ho)
  | bin sp op l r' _ _ ihl ihr =>
    intro ho; simp only [varOnly, Bool.and_eq_true] at ho
    simp only [substIdent]; exact .bin _ _ _ _ (ihl ho.1) (ihr ho.2)
  | tern sp c t f _ _ _ ihc iht ihf =>
    intro ho; simp only [varOnly, Bool.and_eq_true] at ho
    simp only [substIdent]; exact .tern _ _ _ _ (ihc ho.1.1) (iht ho.1.2) (ihf ho.2)
  | match_ sp s cases _ _ _ htyp ihs iharm ihcmp =>
    intro ho; simp only [varOnly, Bool.and_eq_true] at ho
    simp only [substIdent]
    refine .match_ _ _ _ (ihs ho.1) ?_ ?_ ?_
    · intro sp' p b hmem
      obtain ⟨sp0, p0, b0, h0, heq⟩ := SpecSubst.mem_substCases hmem
      cases heq
      exact iharm _ _ _ h0 (vo_cases ho.2 h0).2
    · intro sp' sp1 sp2 op e b hmem
      obtain ⟨sp0, p0, b0, h0, heq⟩ := SpecSubst.mem_substCases hmem
      cases p0 with
      | cmp s1 s2 op0 e0 =>
        simp only [substIdentPat] at heq
        cases heq
        exact ihcmp _ _ _ _ _ _ h0 (by simpa [varOnlyPat] using (vo_cases ho.2 h0).1)
      | type _ _ _ => simp [substIdentPat] at heq
      | any _ => simp [substIdentPat] at heq
    · intro sp' sp1 t name b hmem
      obtain ⟨sp0, p0, b0, h0, heq⟩ := SpecSubst.mem_substCases hmem
      cases p0 with
      | cmp s1 s2 op0 e0 => simp [substIdentPat] at heq
      | type s1 t0 name0 =>
        simp only [substIdentPat, MCase.mk.injEq, Pat.type.injEq] at heq
        obtain ⟨_, ⟨_, _, rfl⟩, _⟩ := heq
        exact htyp _ _ _ _ _ h0
      | any _ => simp [substIdentPat] at heq
  | member sp p chain _ _ _ _ _ _ _ hshape ihpar ihlist ihmk ihmv ihseg ihargs ihidx =>
    intro ho
    simp only [varOnly, Bool.and_eq_true] at ho
    obtain ⟨⟨hc, hop⟩, hoo⟩ := ho
    simp only [substIdent]
    obtain ⟨g1, g2, g3, g4, g5⟩ :=
      primF_subst (x := x) (primF_of_frag (hrf default)) ⟨ihpar, ihlist, ihmk, ihmv, ihseg⟩ hop
    refine .member _ _ _ g1 g2 g3 g4 g5 ?_ ?_ ?_
    · intro sp' args hm a ha
      obtain ⟨args0, hm0, rfl⟩ := mem_substOps_call hm
      obtain ⟨a0, ha0, rfl⟩ := SpecSubst.mem_substList ha
      exact ihargs sp' args0 hm0 a0 ha0 (mem_all_list (vo_ops_call hoo hm0) a0 ha0)
    · intro sp' e hm
      obtain ⟨e0, hm0, rfl⟩ := mem_substOps_index hm
      exact ihidx sp' e0 hm0 (vo_ops_index hoo hm0)
    · rw [memberShape_subst hri hc hoo]; exact hshape

end

end SpecSubst2
end Rscel
