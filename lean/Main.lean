import RscelModel.Driver.Wire
import RscelModel.Model.Conv
import RscelModel.Model.WF
import RscelModel.Model.Json
import RscelModel.Driver.Hist
import RscelModel.Driver.AstJson
open Rscel

def handle (line : String) : String :=
  match (line.trimAscii.toString.splitOn " ").filter (· ≠ "") with
  | [] => "bad-request"
  | cmd :: args =>
    if cmd == "vm" then
      match (do
        let (env, rest) ← Wire.parseEnv args
        let (v, _) ← Wire.parseVal rest
        match v with
        | .code c => pure (Wire.showOut (execProg (stdBuiltins 0) env c))
        | _ => none) with
      | some r => r
      | none => "bad-request"
    else if cmd == "lex" then
      match args with
      | [h] => (match Wire.strOfHex h with | some src => Wire.showLexed (tokenize src) | none => "bad-request")
      | [] => Wire.showLexed (tokenize [])
      | _ => "bad-request"
    else if cmd == "parse" then
      let src := match args with | [h] => Wire.strOfHex h | [] => some [] | _ => none
      match src with
      | some src => Wire.showParse (parseProgram lazySrc src)
      | none => "bad-request"
    else if cmd == "parselist" then
      let src := match args with | [h] => Wire.strOfHex h | [] => some [] | _ => none
      match src with
      | some src => Wire.showParse (parseProgram listSrc src)
      | none => "bad-request"
    else if cmd == "compile" then
      let src := match args with | [h] => Wire.strOfHex h | [] => some [] | _ => none
      match src with
      | some src =>
        (match parseProgram lazySrc src with
         | .error _ => "E"
         | .ok a => Wire.showVal (.code (compileProgram (stdBuiltins 0) a)))
      | none => "bad-request"
    else if cmd == "exec" then
      -- exec <env> <hexsrc>: compile the source as program and run it in the environment
      match (do
        let (env, rest) ← Wire.parseEnv args
        let src ← match rest with | [h] => Wire.strOfHex h | [] => some [] | _ => none
        match parseProgram lazySrc src with
        | .error _ => pure "e:syntax L:0"
        | .ok a => pure (Wire.showOut (execProg (stdBuiltins 0) env (compileProgram (stdBuiltins 0) a)))) with
      | some r => r
      | none => "bad-request"
    else if cmd == "ctx" then
      -- ctx P:<n> (key val)* S:<n> (name hexsrc)* U:<n> (name kind)* <name>: a context built with
      -- add_program_str (a source that does not compile is not added), then exec(name)
      match (do
        let (env, rest) ← Wire.parseSrcEnv (fun src => match parseProgram lazySrc src with
          | .error _ => none
          | .ok a => some (compileProgram (stdBuiltins 0) a)) args
        let name ← match rest with | [h] => Wire.strOfHex h | _ => none
        match env.getProg name with
        | none => pure "e:binding L:0"
        | some code => pure (Wire.showOut (execProg (stdBuiltins 0) env code))) with
      | some r => r
      | none => "bad-request"
    else if cmd == "hist" then
      match Wire.handleHist args with
      | some r => r
      | none => "bad-request"
    else if cmd == "json" then
      match Wire.parseJson args with
      | some (j, _) => Wire.showVal j.toVal
      | none => "bad-request"
    else if cmd == "wf" then
      match Wire.parseVal args with
      | some (.code c, _) => wfDiag c
      | _ => "bad-request"
    else
    match Wire.handleValOp cmd args with
    | some r => r
    | none => "bad-request"

partial def loop (h : IO.FS.Stream) (out : IO.FS.Stream) : IO Unit := do
  let line ← h.getLine
  if line.isEmpty then return ()
  out.putStrLn (handle line)
  loop h out

def main : IO Unit := do
  let out ← IO.getStdout
  loop (← IO.getStdin) out
  out.flush
