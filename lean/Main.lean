import RscelModel.Driver.Wire
import RscelModel.Model.Conv
import RscelModel.Model.WF
import RscelModel.Model.Json
import RscelModel.Driver.Hist
import RscelModel.Driver.AstJson
import RscelModel.Driver.C02Spec
import RscelModel.Driver.SerdeWire
import RscelModel.Driver.Spans
import RscelModel.Model.Params
import RscelModel.Driver.TimeWire
import RscelModel.Driver.SqlCmd
open Rscel

def showNames (ns : List Str) : String :=
  let hs := (ns.map Wire.hexOfStr).toArray.qsort (· < ·)
  String.intercalate " " (s!"P:{hs.size}" :: hs.toList)

def handle (line : String) : String :=
  match (line.trimAscii.toString.splitOn " ").filter (· ≠ "") with
  | [] => "bad-request"
  | cmd :: args =>
    if cmd == "vm" then
      match (do
        let (env, rest) ← Wire.parseEnv args
        let (v, _) ← Wire.parseVal rest
        match v with
        | .code c => pure (Wire.showOut (execProg (stdBuiltins 0) env c))
        | _ => none) with
      | some r => r
      | none => "bad-request"
    else if cmd == "lex" then
      match args with
      | [h] => (match Wire.strOfHex h with | some src => Wire.showLexed (tokenize src) | none => "bad-request")
      | [] => Wire.showLexed (tokenize [])
      | _ => "bad-request"
    else if cmd == "parse" then
      let src := match args with | [h] => Wire.strOfHex h | [] => some [] | _ => none
      match src with
      | some src => Wire.showParse (parseProgram lazySrc src)
      | none => "bad-request"
    else if cmd == "parselist" then
      let src := match args with | [h] => Wire.strOfHex h | [] => some [] | _ => none
      match src with
      | some src => Wire.showParse (parseProgram listSrc src)
      | none => "bad-request"
    else if cmd == "compile" then
      let src := match args with | [h] => Wire.strOfHex h | [] => some [] | _ => none
      match src with
      | some src =>
        (match parseProgram lazySrc src with
         | .error _ => "E"
         | .ok a => Wire.showVal (.code (compileProgram (stdBuiltins 0) a)))
      | none => "bad-request"
    else if cmd == "exec" then
      -- exec <env> <hexsrc>: compile the source as program and run it in the environment
      match (do
        let (env, rest) ← Wire.parseEnv args
        let src ← match rest with | [h] => Wire.strOfHex h | [] => some [] | _ => none
        match parseProgram lazySrc src with
        | .error _ => pure "e:syntax L:0"
        | .ok a => pure (Wire.showOut (execProg (stdBuiltins 0) env (compileProgram (stdBuiltins 0) a)))) with
      | some r => r
      | none => "bad-request"
    else if cmd == "c02spec" then C02.specAnswer args
    else if cmd == "spantree" || cmd == "parseloc" then
      let src := match args with | [h] => Wire.strOfHex h | [] => some [] | _ => none
      match src with
      | some src => if cmd == "spantree" then Wire.spanTreeAnswer src else Wire.parseLocAnswer src
      | none => "bad-request"
    else if cmd == "spancheck" then
      -- spancheck <hexsrc|-> <tree in prefix form>: the verified checker on a span tree
      match args with
      | h :: rest =>
        (match (if h == "-" then some [] else Wire.strOfHex h), Wire.readTree 4096 rest with
         | some src, some (t, []) => Wire.spanCheckAnswer src t
         | _, _ => "bad-request")
      | [] => "bad-request"
    else if cmd == "params" then
      -- params <hexsrc>: the reported parameter set, sorted
      let src := match args with | [h] => Wire.strOfHex h | [] => some [] | _ => none
      match src with
      | some src =>
        (match parseProgram lazySrc src with
         | .error _ => "E"
         | .ok a => showNames (params a))
      | none => "bad-request"
    else if cmd == "filterparams" then
      -- filterparams <env> <hexsrc>: the reported set after filter_from_bindings against the environment
      match (do
        let (env, rest) ← Wire.parseEnv args
        let src ← match rest with | [h] => Wire.strOfHex h | [] => some [] | _ => none
        match parseProgram lazySrc src with
        | .error _ => pure "E"
        | .ok a => pure (showNames (filterFromBindings (stdBuiltins 0) env (params a)))) with
      | some r => r
      | none => "bad-request"
    else if cmd == "xexec" then
      -- xexec <ext table> <env> <hexsrc>: like exec, the library parameters answered from the table
      match (do
        let (tbl, rest) ← Wire.parseExt args
        let (env, rest) ← Wire.parseEnv rest
        let src ← match rest with | [h] => Wire.strOfHex h | [] => some [] | _ => none
        let B := tableBuiltins tbl 0
        match parseProgram lazySrc src with
        | .error _ => pure "e:syntax L:0"
        | .ok a => pure (Wire.showOut (execProg B env (compileProgram B a)))) with
      | some r => r
      | none => "bad-request"
    else if cmd == "xcall" then
      -- xcall <ext table> f|c <hexname> <this> <l:n args>: one built-in function / constructor applied directly
      match (do
        let (tbl, rest) ← Wire.parseExt args
        let B := tableBuiltins tbl 0
        match rest with
        | kind :: h :: rest => do
          let name ← Wire.strOfHex h
          let (this, rest) ← Wire.parseVal rest
          let (a, _) ← Wire.parseVal rest
          match a with
          | .list vs =>
            if kind == "c" then pure (Wire.showVal (B.ctor name vs))
            else (match B.func name with
              | some f => pure (Wire.showVal (f this vs))
              | none => pure "unbound")
          | _ => none
        | _ => none) with
      | some r => r
      | none => "bad-request"
    else if cmd == "ctx" then
      -- ctx P:<n> (key val)* S:<n> (name hexsrc)* U:<n> (name kind)* <name>: a context built with
      -- add_program_str (a source that does not compile is not added), then exec(name)
      match (do
        let (env, rest) ← Wire.parseSrcEnv (fun src => match parseProgram lazySrc src with
          | .error _ => none
          | .ok a => some (compileProgram (stdBuiltins 0) a)) args
        let name ← match rest with | [h] => Wire.strOfHex h | _ => none
        match env.getProg name with
        | none => pure "e:binding L:0"
        | some code => pure (Wire.showOut (execProg (stdBuiltins 0) env code))) with
      | some r => r
      | none => "bad-request"
    else if cmd == "hist" then
      match Wire.handleHist args with
      | some r => r
      | none => "bad-request"
    else if cmd == "json" then
      match Wire.parseJson args with
      | some (j, _) => Wire.showVal j.toVal
      | none => "bad-request"
    else if cmd == "wf" then
      match Wire.parseVal args with
      | some (.code c, _) => wfDiag c
      | _ => "bad-request"
    else if cmd == "sql" || cmd == "sqltext" then
      (Wire.handleSql cmd args).getD "bad-request"
    else
    -- optional command groups, each `String → List String → Option String`
    match (SerdeWire.handle cmd args <|> Wire.handleTimeOp cmd args <|> Wire.handleValOp cmd args) with
    | some r => r
    | none => "bad-request"

partial def loop (h : IO.FS.Stream) (out : IO.FS.Stream) : IO Unit := do
  let line ← h.getLine
  if line.isEmpty then return ()
  out.putStrLn (handle line)
  loop h out

def main : IO Unit := do
  let out ← IO.getStdout
  loop (← IO.getStdin) out
  out.flush
