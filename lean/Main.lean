import RscelModel.Driver.Wire
import RscelModel.Model.Conv
import RscelModel.Model.WF
open Rscel

def handle (line : String) : String :=
  match (line.trimAscii.toString.splitOn " ").filter (· ≠ "") with
  | [] => "bad-request"
  | cmd :: args =>
    if cmd == "vm" then
      match (do
        let (env, rest) ← Wire.parseEnv args
        let (v, _) ← Wire.parseVal rest
        match v with
        | .code c => pure (Wire.showOut (execProg (stdBuiltins 0) env c))
        | _ => none) with
      | some r => r
      | none => "bad-request"
    else if cmd == "wf" then
      match Wire.parseVal args with
      | some (.code c, _) => wfDiag c
      | _ => "bad-request"
    else
    match Wire.handleValOp cmd args with
    | some r => r
    | none => "bad-request"

partial def loop (h : IO.FS.Stream) (out : IO.FS.Stream) : IO Unit := do
  let line ← h.getLine
  if line.isEmpty then return ()
  out.putStrLn (handle line)
  loop h out

def main : IO Unit := do
  let out ← IO.getStdout
  loop (← IO.getStdin) out
  out.flush
