import RscelModel.Driver.Wire
open Rscel

def handle (line : String) : String :=
  match (line.trimAscii.toString.splitOn " ").filter (· ≠ "") with
  | [] => "bad-request"
  | cmd :: args =>
    match Wire.handleValOp cmd args with
    | some r => r
    | none => "bad-request"

partial def loop (h : IO.FS.Stream) (out : IO.FS.Stream) : IO Unit := do
  let line ← h.getLine
  if line.isEmpty then return ()
  out.putStrLn (handle line)
  loop h out

def main : IO Unit := do
  let out ← IO.getStdout
  loop (← IO.getStdin) out
  out.flush
