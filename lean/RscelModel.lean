import RscelModel.Model.Basic
import RscelModel.Model.Value
