#!/bin/sh
# Build everything from files on disk only (offline).  VERIF_REPO (default /repo) is the repository under test.
set -e
V=$(cd "$(dirname "$0")" && pwd)
R=${VERIF_REPO:-/repo}
python3 "$V/tools/extract_tables.py" "$R"
cd "$V/lean" && lake build
cd "$V/harness" && cp "$R/Cargo.lock" Cargo.lock && CARGO_NET_OFFLINE=true cargo build --offline && CARGO_NET_OFFLINE=true cargo build --offline --release
