#!/bin/sh
# Build everything from files on disk only (offline).
set -e
cd /verif/lean && lake build
cd /verif/harness && cp /repo/Cargo.lock Cargo.lock && CARGO_NET_OFFLINE=true cargo build --offline && CARGO_NET_OFFLINE=true cargo build --offline --release
