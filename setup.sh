#!/bin/sh
# Build everything from files on disk only (offline).
set -e
python3 /verif/tools/extract_tables.py /repo
cd /verif/lean && lake build
cd /verif/harness && cp /repo/Cargo.lock Cargo.lock && CARGO_NET_OFFLINE=true cargo build --offline && CARGO_NET_OFFLINE=true cargo build --offline --release
